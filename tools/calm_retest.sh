#!/bin/bash
# re-runs, on a calmer machine, the tests that failed even alone under load; one scratch worktree
cd /verif
st=${1:-sE}; shard=${2:-0}; nshards=${3:-1}
wt=/tmp/mutwtB-calm-$st
[ -d $wt ] || git -C /repo worktree add --detach $wt HEAD >/dev/null 2>&1
export CARGO_NET_OFFLINE=true CARGO_TARGET_DIR=/verif/.build-mut/$st/test
n=0
for d in seeded/C*/; do
  id=$(basename $d); log=$d/confirm.log
  n=$((n+1)); [ $((n % nshards)) = $shard ] || continue
  [ -f $d/.phaseB ] || continue
  fails=$(python3 - $log <<'PY'
import re,sys
t=open(sys.argv[1]).read()
if "== phase B" not in t: sys.exit()
b=t.rsplit("== phase B",1)[1]
later=dict(re.findall(r"calm-retest (\S+) => (\w+)", b))
print(" ".join(x for x,r in re.findall(r"retest (\S+) => (\w+)", b) if r=="FAIL" and later.get(x)!="pass"))
PY
)
  [ -z "$fails" ] && continue
  (cd $wt && git checkout -q -- . && git apply /verif/$d/patch.diff) || continue
  for t in $fails; do
    ok=0
    for a in 1 2 3 4 5 6; do
      if (cd $wt && timeout 1500 cargo test --offline -p wild-linker --test integration_tests -- "$t" --exact 2>&1 | grep -q "test result: ok. 1 passed"); then ok=1; break; fi
    done
    echo "calm-retest $t => $([ $ok = 1 ] && echo pass || echo FAIL)" >> $log
  done
done
(cd $wt && git checkout -q -- .); git -C /repo worktree remove --force $wt
