#!/bin/bash
# runs every quick check once at VERIF_SEED (default 0), N at a time; results in .scratch/final/
cd /verif
mkdir -p .scratch/final
seed=${VERIF_SEED:-0}; par=${1:-3}
ls props/C??.py | sed 's/.*\///; s/\.py//' | xargs -P $par -I{} sh -c "VERIF_SEED=$seed ./check {} --tier quick > .scratch/final/{}.s$seed.log 2>&1; echo \"{} rc=\$? \$(grep '^\[{}\] tier' .scratch/final/{}.s$seed.log | cut -c1-150)\" >> .scratch/final/done.s$seed.txt"
