#!/bin/bash
# worker: repository test suite on each seeded change, in ONE persistent scratch worktree per stream
# (so that cargo's and the integration tests' build caches are reused); never /repo itself.
# usage: run_phaseB2.sh <STREAM> [threads]
cd /verif
st=$1; thr=${2:-6}
known='check_sources_format|z-pack-relative-relocs|shared/symbolic-non-weak$|tls-apx-relocs/default'
wt=/tmp/mutwtB-$st
[ -d $wt ] || git -C /repo worktree add --detach $wt HEAD >/dev/null 2>&1
export CARGO_NET_OFFLINE=true CARGO_TARGET_DIR=/verif/.build-mut/$st/test
while true; do
  did=0
  for d in /tmp/mut-out/C*/; do
    id=$(basename $d)
    [ -f seeded/$id/.phaseA ] || continue
    [ -f seeded/$id/.phaseB ] && continue
    mkdir seeded/$id/.claimB 2>/dev/null || continue
    dst=/verif/seeded/$id; log=$dst/confirm.log
    (cd $wt && git checkout -q -- . && git clean -fdq -e target -e wild/tests/build)
    echo "== phase B (test suite on changed tree, base $(git -C $wt rev-parse --short HEAD))" >> $log
    if ! (cd $wt && git apply $dst/patch.diff) >>$log 2>&1; then echo "RESULT-B patch-does-not-apply" >>$log; touch $dst/.phaseB; continue; fi
    (cd $wt && timeout 5400 cargo nextest run --workspace --no-fail-fast --tool-config-file pb:/w/lib/nextest.toml --profile pb --test-threads $thr --offline) > $dst/testsuite.log 2>&1
    grep -E "Summary" $dst/testsuite.log >>$log || echo "no summary (build failed or timed out)" >>$log
    grep -E "^\s+(FAIL|TIMEOUT)" $dst/testsuite.log | sed 's/.*integration_tests //; s/.*libwild //' | sort -u | grep -v -E "$known" > $dst/extra_fail.txt
    while read t; do
      [ -z "$t" ] && continue
      ok=0
      for a in 1 2 3 4; do
        if (cd $wt && timeout 1200 cargo test --offline -p wild-linker --test integration_tests -- "$t" --exact 2>&1 | grep -q "test result: ok. 1 passed"); then ok=1; break; fi
      done
      echo "retest $t => $([ $ok = 1 ] && echo pass || echo FAIL)" >>$log
    done < $dst/extra_fail.txt
    echo "RESULT-B done" >>$log
    touch $dst/.phaseB
    did=1
  done
  [ $did = 0 ] && { [ -f .scratch/stop_phaseB ] && break; sleep 60; }
done
(cd $wt && git checkout -q -- .); git -C /repo worktree remove --force $wt 2>/dev/null
