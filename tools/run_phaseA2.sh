#!/bin/bash
# worker: claims mutants (mkdir lock) and runs phase A for each; usage: run_phaseA2.sh <STREAM>
cd /verif
st=$1
while true; do
  did=0
  for d in /tmp/mut-out/C*/; do
    id=$(basename $d)
    [ -f $d/meta.json ] || continue
    [ -f seeded/$id/.phaseA ] && continue
    mkdir -p seeded/$id
    mkdir seeded/$id/.claimA 2>/dev/null || continue
    checks=$(python3 -c "import json;print(' '.join(json.load(open('/verif/seeded/checks_for.json')).get('$id',['$id'])))")
    PHASE=A STREAM=$st ./confirm_mutant2.sh $id $d $checks
    git -C /repo worktree remove --force /tmp/mutwt-$id 2>/dev/null
    touch seeded/$id/.phaseA
    did=1
  done
  [ $did = 0 ] && { [ -f .scratch/stop_phaseA ] && break; sleep 120; }
done
