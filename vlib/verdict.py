"""Three-valued verdicts, known-finding matching, evidence writer, replay dirs."""
import json
import os
import shutil
import sys
import threading
import time

from .common import OUT_DIR, VERIF, HarnessError, Scratch, log

KNOWN_PATH = os.path.join(VERIF, "known_findings.json")


def load_known(pid):
    try:
        data = json.load(open(KNOWN_PATH))
    except FileNotFoundError:
        return {}
    out = {}
    for e in data.get("findings", []):
        if e.get("property") == pid and e.get("status", "known") == "known":
            out[e["signature"]] = e
    return out


class Ctx:
    """Context handed to a property driver. Thread-safe recording of case outcomes."""

    def __init__(self, pid, tier, seed, level, replay=None):
        self.pid, self.tier, self.seed, self.level = pid, tier, seed, level
        self.replay = replay  # dict from replay.json or None
        self.scratch = Scratch(pid)
        if replay is None:
            shutil.rmtree(os.path.join(OUT_DIR, "replays", pid), ignore_errors=True)
        self.t0 = time.time()
        self._lock = threading.Lock()
        self.evaluations = 0
        self.fingerprints = set()
        self.samples = []
        self.inconc = {}
        self.obs = {}
        self.violations = []      # (signature, description, replay_path)
        self.known_hits = {}      # signature -> description
        self.known = load_known(pid)
        self.rule = ""
        self.assumptions = []
        self.exhaustive = None
        self.extra = {}
        self.max_samples = 6
        self._viol_count = 0

    @property
    def quick(self):
        return self.tier == "quick"

    def pick(self, quick, thorough):
        return quick if self.tier == "quick" else thorough

    def want_case(self, case_id):
        """When replaying, only the recorded case runs."""
        if self.replay is None:
            return True
        return str(self.replay.get("case")) == str(case_id)

    # ---- recording -------------------------------------------------------------------------
    def held(self, fingerprint=None, nontrivial=True, sample=None):
        with self._lock:
            self.evaluations += 1
            if nontrivial and fingerprint is not None:
                self.fingerprints.add(str(fingerprint))
            if sample is not None and len(self.samples) < self.max_samples:
                self.samples.append(sample)

    def inconclusive(self, reason):
        with self._lock:
            self.evaluations += 1
            self.inconc[reason] = self.inconc.get(reason, 0) + 1

    def note(self, key, n=1):
        """Counts a monitor observation (events seen, kinds seen, ...)."""
        with self._lock:
            self.obs[key] = self.obs.get(key, 0) + n

    def note_set(self, key, value):
        with self._lock:
            s = self.obs.setdefault(key, [])
            if value not in s and len(s) < 200:
                s.append(value)

    def note_max(self, key, value):
        with self._lock:
            self.obs[key] = max(self.obs.get(key, value), value)

    def violation(self, signature, description, case=None, files=None, info=None):
        """Records a violation. `signature` is the exact, narrow identity used for known-finding
        matching. `files` maps names to paths or bytes/str to save into the replay dir."""
        with self._lock:
            self.evaluations += 1
            if signature in self.known:
                if signature not in self.known_hits:
                    self.known_hits[signature] = self.known[signature].get("description", description)
                return None
            self._viol_count += 1
            n = self._viol_count
        if n > 25:
            with self._lock:
                self.violations.append((signature, description, None))
            return None
        import re
        cname = re.sub(r"[^A-Za-z0-9_.+=-]+", "_", str(case if case is not None else n))[:80]
        rdir = os.path.join(OUT_DIR, "replays", self.pid, f"case-{cname}-{n}")
        shutil.rmtree(rdir, ignore_errors=True)
        os.makedirs(rdir, exist_ok=True)
        meta = {"property": self.pid, "tier": self.tier, "seed": self.seed, "case": case,
                "signature": signature, "description": description, "info": info}
        with open(os.path.join(rdir, "replay.json"), "w") as f:
            json.dump(meta, f, indent=1, default=str)
        for name, src in (files or {}).items():
            dst = os.path.join(rdir, name)
            try:
                os.makedirs(os.path.dirname(dst), exist_ok=True)
                if isinstance(src, (bytes, bytearray)):
                    open(dst, "wb").write(src)
                elif isinstance(src, str) and os.path.isdir(src):
                    shutil.copytree(src, dst, symlinks=True, dirs_exist_ok=True)
                elif isinstance(src, str) and os.path.exists(src) and "\n" not in src and len(src) < 4096:
                    if os.path.getsize(src) < 64 << 20:
                        shutil.copy(src, dst)
                else:
                    open(dst, "w").write(str(src))
            except OSError as ex:
                log(f"[replay] could not save {name}: {ex}")
        with self._lock:
            self.violations.append((signature, description, rdir))
        return rdir

    # ---- finishing -------------------------------------------------------------------------
    def finish(self):
        wall = time.time() - self.t0
        unlisted = len(self.violations)
        coverage = {
            "evaluations": self.evaluations,
            "distinct_nontrivial": len(self.fingerprints),
            "rule": self.rule,
            "samples": self.samples[: self.max_samples] or [],
            "inconclusive": self.inconc,
            "observations": self.obs,
            "known_findings_observed": sorted(self.known_hits),
            "violation_signatures": sorted({v[0] for v in self.violations})[:50],
        }
        if self.exhaustive is not None:
            coverage["exhaustive"] = bool(self.exhaustive)
        coverage.update(self.extra)
        ev = {
            "property_id": self.pid, "tier": self.tier, "seed": self.seed, "level": self.level,
            "coverage": coverage, "assumptions": self.assumptions, "wall_s": round(wall, 2),
            "violations": unlisted + len(self.known_hits),
        }
        for sig, desc in sorted(self.known_hits.items()):
            print(f"KNOWN-FINDING: property={self.pid} {sig}: {desc}")
        seen = set()
        for sig, desc, rdir in self.violations:
            if rdir is None or sig in seen:
                continue
            seen.add(sig)
            print(f"VIOLATION property={self.pid} replay={rdir}")
            print(f"  signature={sig} :: {desc[:400]}")
        print(f"[{self.pid}] tier={self.tier} seed={self.seed} evaluations={self.evaluations} "
              f"distinct_nontrivial={len(self.fingerprints)} inconclusive={sum(self.inconc.values())} "
              f"known={len(self.known_hits)} violations={unlisted} wall={wall:.1f}s")
        if self.inconc:
            print(f"[{self.pid}] inconclusive: {self.inconc}")
        self.scratch.close()
        if self.replay is not None:
            return 1 if unlisted else 0
        observed_nothing = self.evaluations == 0 or (len(self.fingerprints) < 2 and not unlisted
                                                     and not self.known_hits)
        if observed_nothing and not unlisted:
            print(f"[{self.pid}] HARNESS ERROR: the run observed nothing non-trivial "
                  f"(evaluations={self.evaluations}, distinct={len(self.fingerprints)})")
            return 2
        if not coverage["samples"]:
            coverage["samples"] = [{"note": "no sample recorded"}]
        if len(self.fingerprints) < 2:
            # Evidence schema needs >=2; only reachable when violations were found.
            coverage["distinct_nontrivial"] = len(self.fingerprints)
        os.makedirs(os.path.join(OUT_DIR, "evidence"), exist_ok=True)
        path = os.path.join(OUT_DIR, "evidence", f"{self.pid}.json")
        tmp = path + ".tmp"
        with open(tmp, "w") as f:
            json.dump(ev, f, indent=1, default=str)
        os.replace(tmp, path)
        return 1 if unlisted else 0
