"""Toolchain wrappers: compile/assemble with caching, link with wild / GNU ld / lld, side-file readers."""
import os
import shutil
import threading

from . import build  # noqa
from .common import HarnessError, Result, run, sha, write

LD_BFD = shutil.which("ld.bfd") or shutil.which("ld")
LD_LLD = shutil.which("ld.lld")
GCC = shutil.which("gcc")
GXX = shutil.which("g++")
CLANG = shutil.which("clang")
AR = shutil.which("ar")

_cache_lock = threading.Lock()
_key_locks = {}


def wild(variant="hook"):
    return build.ensure(variant)["wild"]


def linker_path(kind):
    if kind == "wild":
        return wild()
    if kind == "ld":
        return LD_BFD
    if kind == "lld":
        return LD_LLD
    if os.path.isabs(kind):
        return kind
    raise HarnessError(f"unknown linker {kind}")


def compile_c(ctx, src, flags=(), lang="c", compiler=None, name=None):
    """Compiles source text to an object, cached by content under the run's scratch dir.
    Returns the object path or raises HarnessError (the generator produced bad code)."""
    compiler = compiler or (GXX if lang in ("c++", "cc") else GCC)
    ext = {"c": ".c", "c++": ".cc", "cc": ".cc", "asm": ".s", "s": ".s", "S": ".S"}[lang]
    key = sha(compiler + "\0" + " ".join(flags) + "\0" + src)[:24]
    d = ctx.scratch.dir("objcache")
    obj = os.path.join(d, (name + "-" if name else "") + key + ".o")
    if os.path.exists(obj):
        return obj
    # One compile per key: a second thread replacing the object while a link of the first thread
    # reads it would look to wild like an input that changed during the link.
    with _cache_lock:
        klock = _key_locks.setdefault(obj, threading.Lock())
    with klock:
        return _compile_locked(compiler, flags, src, ext, d, key, obj)


def _compile_locked(compiler, flags, src, ext, d, key, obj):
    if os.path.exists(obj):
        return obj
    srcp = os.path.join(d, key + ext)
    # Atomic: several threads may compile identical source text at the same time; a plain
    # truncate-and-write would let one thread's compiler read the other's half-written file.
    stmp = srcp + f".tmp{threading.get_ident()}"
    write(stmp, src)
    os.replace(stmp, srcp)
    tmp = obj + f".tmp{threading.get_ident()}"
    r = run([compiler, "-c", srcp, "-o", tmp, *flags], timeout=120)
    if not r.ok:
        raise HarnessError(f"compile failed ({compiler} {' '.join(flags)}):\n{r.errtext()[:2000]}\n--- source ---\n{src[:3000]}")
    os.replace(tmp, obj)
    return obj


def assemble(ctx, src, flags=(), name=None, target=None):
    """Assembles GNU-syntax asm. target=None uses gcc (x86-64); otherwise clang --target=<target>."""
    if target:
        return compile_c(ctx, src, ("--target=" + target, *flags), lang="s", compiler=CLANG, name=name)
    return compile_c(ctx, src, flags, lang="s", compiler=GCC, name=name)


def make_archive(path, members, thin=False):
    if os.path.exists(path):
        os.unlink(path)
    r = run([AR, "rcsT" if thin else "rcs", path, *members], timeout=60)
    if not r.ok:
        raise HarnessError(f"ar failed: {r.errtext()}")
    return path


def link(kind, args, env=None, cwd=None, timeout=120, extra_env=None):
    """Direct invocation of a linker. Returns Result."""
    return run([linker_path(kind), *args], env=env, cwd=cwd, timeout=timeout, extra_env=extra_env)


_bdirs = {}


def bdir(ctx, kind):
    """A directory containing `ld` -> the requested linker, for gcc -B."""
    with _cache_lock:
        key = (ctx.scratch.path, kind)
        if key in _bdirs:
            return _bdirs[key]
        d = ctx.scratch.dir("bdir-" + os.path.basename(kind))
        p = os.path.join(d, "ld")
        if os.path.lexists(p):
            os.unlink(p)
        os.symlink(linker_path(kind), p)
        _bdirs[key] = d
        return d


def gcc_link(ctx, kind, args, out, timeout=180, extra_env=None, driver=None, cwd=None):
    """Links through the gcc driver so all linkers see identical crt files and libraries."""
    return run([driver or GCC, "-B" + bdir(ctx, kind), *args, "-o", out], timeout=timeout,
               extra_env=extra_env, cwd=cwd)


def fresh(path):
    """Removes a previous output (and side files) so no stale file can be observed."""
    for p in (path, path + ".layout", path + ".trace"):
        try:
            os.unlink(p)
        except FileNotFoundError:
            pass
    return path


# ---- postcard side files -----------------------------------------------------------------------

class _PC:
    def __init__(self, data):
        self.d = data
        self.o = 0

    def varint(self):
        r = 0
        s = 0
        while True:
            b = self.d[self.o]
            self.o += 1
            r |= (b & 0x7f) << s
            if not b & 0x80:
                return r
            s += 7

    def byte(self):
        b = self.d[self.o]
        self.o += 1
        return b

    def bytes_(self):
        n = self.varint()
        b = self.d[self.o:self.o + n]
        self.o += n
        return b


def read_layout(path):
    """Parses <out>.layout. Returns list of dicts: path, member (or None), member_range,
    sections: list of (start, end) or None."""
    p = _PC(open(path, "rb").read())
    files = []
    for _ in range(p.varint()):
        fpath = p.bytes_().decode("utf-8", "replace")
        member = None
        mrange = None
        if p.byte():
            s, e = p.varint(), p.varint()
            mrange = (s, e)
            member = p.bytes_().decode("utf-8", "replace")
        secs = []
        for _ in range(p.varint()):
            if p.byte():
                secs.append((p.varint(), p.varint()))
            else:
                secs.append(None)
        temporary = bool(p.byte())
        files.append(dict(path=fpath, member=member, member_range=mrange, sections=secs, temporary=temporary))
    thunks = p.varint() if p.o < len(p.d) else 0
    return dict(files=files, thunk_count=thunks)


def read_trace(path):
    p = _PC(open(path, "rb").read())
    out = []
    for _ in range(p.varint()):
        addr = p.varint()
        msgs = [p.bytes_().decode("utf-8", "replace") for _ in range(p.varint())]
        out.append((addr, msgs))
    return out


def trace_path(out):
    base, ext = os.path.splitext(out)
    return base + (ext + ".trace" if ext else ".trace")
