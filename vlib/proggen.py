"""proggen - the shared seeded program generator (DESIGN.md 2.3).

A generated *program* is a set of translation units (C, optionally C++ and hand-written x86-64 asm)
plus a small runtime-support unit. Its `main` prints a **transcript**: one line per probe,

    <kind> <id> = <value>

`kind` names what is being exercised (call, data, addr, fnptr, weak, common, hidden, protected,
tls_gd, tls_ld, tls_ie, tls_le, tls_def, tls_thread, ifunc, str, ctor, dtor, sect, packed,
weak_undef, bss, align, local, asm, cxx ...), `id` names the referencing unit and the symbol, and
`value` is a number, a string or a *symbolic* address `&sym+off` (found at run time by comparing
against witness pointers registered by the defining unit). Nothing that the language/ABI leaves
to the linker is printed: no raw addresses, no identity of equal string literals, no padding, no
sizes of linker-made sections. Two correct links of the same objects in the same output kind must
therefore print byte-identical transcripts, whatever optional transformation the linker applied.

API
---
    prog = gen_program(rng, features=None, n_units=None, want_lib=None)   # pure function of the rng state
    random_features(rng, force=(), forbid=())                 # the default feature choice, adjustable
    prog.units                 # list[Unit]: .name .lang ("c"|"c++"|"s") .group ("exe"|"lib")
                               #   .source(code_model) -> text, .flags(code_model) -> tuple
    prog.features              # frozenset of enabled feature names (subset of ALL_FEATURES)
    prog.has_lib               # True when some units form a self-contained library group
    prog.needs_cxx             # link with g++ (C++ units present)
    prog.kinds(code_model)     # output kinds legal for a code model
    objs = prog.build(ctx, code_model, shared=False)   # -> list[BuiltUnit(unit, obj)] in link order
    lr = link_and_run(ctx, linker, prog, objs, kind, extra_link_args=(), workdir=..., gc=False)
         # -> LinkRun(.link Result, .run Result|None, .out path, .cmd, .lib_link, .lib, .transcript)
    diff_transcripts(a, b)     # -> list of (kind, id, a_value, b_value)
    make_archives(ctx, built, workdir, rng, thin=False)   # -> inputs_override list with some units in .a files
    command_text(ctx, linker, prog, lr)                   # shell text of a LinkRun, for witnesses
    python3 -m vlib.proggen --seeds 32 [--first K] [--wild]   # self-test: ld == ld.lld on every program x code model x kind

Code models: "nopic" (-fno-pic -fno-pie), "pie" (-fpie), "pic" (-fPIC).
Output kinds: "static" (-static -no-pie), "static-pie", "pie", "dyn" (dynamic non-PIE, -no-pie),
"shared" (the lib-group units are linked into lib.so with -shared, the rest into a PIE or non-PIE
executable that is run with LD_LIBRARY_PATH; lib-group units are always compiled -fPIC there).

Reference rules encoded in the generator (what keeps every program legal in every mode):
  * units of the lib group reference only lib-group symbols (the library is self-contained);
    exe units may call lib functions, read lib data (copy relocations in non-PIC code) and lib TLS;
  * hidden / protected / weak+strong / common symbols are only referenced inside their group;
  * TLS models: GD, IE anywhere; LE only exe->exe; LD only for static/hidden variables in-group;
  * ifunc addresses are taken only inside the defining group.
"""
import os
import re

from . import tools
from .common import HarnessError, run, write

ALL_FEATURES = ("weak", "common", "hidden", "protected", "fnptr", "tls", "tls_thread", "ifunc", "strings",
                "ctors", "custom_sec", "cxx", "data_ptrs", "packed", "weak_undef", "bss", "align", "local",
                "asm", "copyrel", "tlsdesc")
# every probe kind (first token of a transcript line) the generator can emit
KNOWN_KINDS = frozenset("""call data addr addr_code addr_deref fnptr fnptr_code local hidden protected weak common tls_gd tls_ld tls_ie
tls_le tls_def tls_thread ifunc str ctor dtor sect packed weak_undef bss align asm asm_tls_ie asm_tls_gd asm_tls_ld asm_tls_le
asm_tls_desc cxx_inline cxx_exc cxx_virt end""".split())
CODE_MODELS = ("nopic", "pie", "pic")
PIC_FLAGS = {"nopic": ("-fno-pic", "-fno-pie"), "pie": ("-fpie",), "pic": ("-fPIC",)}
KIND_ARGS = {"static": ["-static", "-no-pie"], "static-pie": ["-static-pie"], "pie": ["-pie"], "dyn": ["-no-pie"]}


class Unit:
    def __init__(self, name, lang, group):
        self.name, self.lang, self.group = name, lang, group
        self.src = {}            # code_model -> text (or "*" for all)
        self.cflags = []         # unit-specific flags (optimisation, sections, -fcommon ...)
        self.pic_only_flags = [] # flags only legal with pie/pic (e.g. -fno-plt)

    def source(self, code_model):
        return self.src.get(code_model, self.src.get("*"))

    def flags(self, code_model):
        f = list(PIC_FLAGS[code_model]) if self.lang != "s" else []
        f += self.cflags
        if code_model != "nopic":
            f += self.pic_only_flags
        return tuple(f)


class BuiltUnit:
    def __init__(self, unit, obj):
        self.unit, self.obj = unit, obj


class LinkRun:
    def __init__(self):
        self.link = None
        self.run = None
        self.lib_link = None
        self.lib = None
        self.out = None
        self.cmd = []
        self.lib_cmd = []

    @property
    def transcript(self):
        return self.run.outtext() if self.run is not None else None

    @property
    def ok(self):
        return self.link is not None and self.link.ok and self.run is not None and self.run.rc == 0 \
            and not self.run.timed_out and (self.lib_link is None or self.lib_link.ok)


# ------------------------------------------------------------------------------------------------
# generator
# ------------------------------------------------------------------------------------------------

RT_SRC = r'''
#include <stdio.h>
#include <stdarg.h>
#include <stdint.h>
#include <string.h>
struct rt_wit { const char *name; uintptr_t a; unsigned long size; };
static struct rt_wit rt_wits[4096];
static int rt_nw;
static char rt_events[256][48];
static int rt_nev;
void rt_witness(const char *name, const void *p, unsigned long size) {
    if (rt_nw < 4096) { rt_wits[rt_nw].name = name; rt_wits[rt_nw].a = (uintptr_t)p; rt_wits[rt_nw].size = size ? size : 1; rt_nw++; }
}
const char *rt_describe(const void *p) {
    static char buf[8][96];
    static int k;
    char *b = buf[k++ & 7];
    uintptr_t a = (uintptr_t)p;
    if (!p) return "null";
    for (int i = 0; i < rt_nw; i++)
        if (a >= rt_wits[i].a && a - rt_wits[i].a < rt_wits[i].size) {
            snprintf(b, 96, "&%s+%lu", rt_wits[i].name, (unsigned long)(a - rt_wits[i].a));
            return b;
        }
    return "?unknown";
}
void rt_line(const char *kind, const char *id, const char *fmt, ...) {
    va_list ap;
    va_start(ap, fmt);
    printf("%s %s = ", kind, id);
    vprintf(fmt, ap);
    printf("\n");
    va_end(ap);
}
void rt_event(const char *ev) {
    if (rt_nev < 256) { strncpy(rt_events[rt_nev], ev, 47); rt_nev++; }
}
void rt_dump_events(const char *kind) {
    for (int i = 0; i < rt_nev; i++) { char id[16]; snprintf(id, 16, "%d", i); rt_line(kind, id, "%s", rt_events[i]); }
    rt_nev = 0;
}
void rt_init(void) { setvbuf(stdout, 0, _IOLBF, 0); }
'''

RT_DECLS = r'''
#include <stdint.h>
#include <stddef.h>
#include <string.h>
extern void rt_witness(const char *name, const void *p, unsigned long size);
extern const char *rt_describe(const void *p);
extern void rt_line(const char *kind, const char *id, const char *fmt, ...);
extern void rt_event(const char *ev);
extern void rt_dump_events(const char *kind);
extern void rt_init(void);
#define NOINLINE __attribute__((noinline))
'''

TLS_MODEL_ATTR = {"gd": "global-dynamic", "ld": "local-dynamic", "ie": "initial-exec", "le": "local-exec"}


class _Sym:
    def __init__(self, name, unit, what, vis="default", tag=0, n=1, ctype="int", **kw):
        self.name, self.unit, self.what, self.vis, self.tag, self.n, self.ctype = name, unit, what, vis, tag, n, ctype
        self.__dict__.update(kw)


class _U:
    """Per-unit accumulation of source fragments."""

    def __init__(self, idx, name, group):
        self.idx, self.name, self.group = idx, name, group
        self.decls = []      # extern declarations (deduplicated, ordered)
        self.defs = []       # definitions
        self.reg = []        # statements of <name>_register()
        self.probes = []     # statements of <name>_probes()
        self.tprobes = []    # statements of <name>_thread_probes()
        self.cflags = []
        self.pic_only_flags = []
        self._seen = set()

    def decl(self, text):
        if text not in self._seen:
            self._seen.add(text)
            self.decls.append(text)


class Program:
    def __init__(self):
        self.units = []
        self.features = frozenset()
        self.has_lib = False
        self.needs_cxx = False
        self.needs_fcommon = False
        self.probe_kinds = set()
        self.desc = ""

    # -- what can be linked how ---------------------------------------------------------------
    def kinds(self, code_model, with_shared=True):
        k = {"nopic": ["static", "dyn"], "pie": ["static", "static-pie", "pie", "dyn"],
             "pic": ["static", "static-pie", "pie", "dyn"]}[code_model]
        if with_shared and self.has_lib:
            k = k + ["shared"]
        return k

    def build(self, ctx, code_model, shared=False):
        """Compiles every unit (cached). With shared=True the lib-group units are compiled -fPIC
        regardless of the code model. Returns list[BuiltUnit] in link order."""
        out = []
        for u in self.units:
            cm = "pic" if (shared and u.group == "lib") else code_model
            src = u.source(cm)
            if src is None:
                raise HarnessError(f"unit {u.name} has no source for {cm}")
            out.append(BuiltUnit(u, tools.compile_c(ctx, src, u.flags(cm), lang=u.lang, name=u.name)))
        return out

    def sources(self, code_model, shared=False):
        """{file name: text} of what build() compiles, for witnesses."""
        d = {}
        for u in self.units:
            cm = "pic" if (shared and u.group == "lib") else code_model
            ext = {"c": ".c", "c++": ".cc", "s": ".s"}[u.lang]
            c = "#" if u.lang == "s" else "//"
            d[u.name + ext] = u.source(cm) + f"\n{c} flags: {' '.join(u.flags(cm))}\n"
        return d


def random_features(r, force=(), forbid=()):
    """A random feature subset (each feature on with probability ~0.7; C++ in a minority of
    programs because its links are larger), plus `force`, minus `forbid`."""
    fs = set(f for f in ALL_FEATURES if r.random() < 0.7)
    if r.random() < 0.6:
        fs.discard("cxx")
    fs |= set(force)
    fs -= set(forbid)
    if "tls" not in fs:
        fs.discard("tls_thread")
    return frozenset(fs)


def _pick_features(r, features):
    if features is not None:
        fs = set(features)
        if "tls" not in fs:
            fs.discard("tls_thread")
        return frozenset(fs)
    return random_features(r)


def gen_program(r, features=None, n_units=None, want_lib=None):
    """Generates a program from the random.Random `r`. `features`: iterable of names from
    ALL_FEATURES (None = random subset). `n_units`: number of C units including main (None = 3..6).
    `want_lib`: force (True) / forbid (False) a library group."""
    P = Program()
    fs = _pick_features(r, features)
    P.features = fs
    n = n_units or r.randint(3, 6)
    if want_lib is None:
        want_lib = r.random() < 0.75
    tagc = [1000]

    def tag():
        tagc[0] += r.randint(1, 97)
        return tagc[0]

    # -- groups: unit 0 (main) is exe; a suffix-closed random subset of the others forms the lib
    groups = ["exe"] * n
    if want_lib and n >= 2:
        k = r.randint(1, max(1, (n - 1) * 2 // 3))
        for i in r.sample(range(1, n), k):
            groups[i] = "lib"
    P.has_lib = "lib" in groups
    U = [_U(i, f"u{i}", groups[i]) for i in range(n)]
    rt_group = "lib" if P.has_lib else "exe"

    def peers(u, include_self=True):
        """units whose non-default-visibility symbols u may reference"""
        return [v for v in U if v.group == u.group and (include_self or v is not u)]

    def reachable(u):
        """units whose default-visibility symbols u may reference directly"""
        return [v for v in U if v.group == u.group or (u.group == "exe" and "copyrel" in fs)]

    def callable_from(u):
        """units whose default-visibility *functions* u may call"""
        return [v for v in U if v.group == u.group or u.group == "exe"]

    for u in U:
        u.cflags.append(r.choice(["-O0", "-O1", "-O2", "-O2", "-Os"]))
        if r.random() < 0.4:
            u.cflags += ["-ffunction-sections", "-fdata-sections"]
        if r.random() < 0.25:
            u.pic_only_flags.append("-fno-plt")
        if "tls" in fs and "tlsdesc" in fs and r.random() < 0.35:
            u.cflags.append("-mtls-dialect=gnu2")
        if r.random() < 0.2:
            u.cflags.append("-fno-asynchronous-unwind-tables")

    kinds = P.probe_kinds

    def probe(u, kind, ident, fmt, *args, thread=False, guard=None):
        kinds.add(kind)
        a = "".join(", " + x for x in args)
        line = f'rt_line("{kind}", "{u.name}:{ident}", "{fmt}"{a});'
        if guard:
            line = f"\n{guard}\n    {line}\n#endif"
        (u.tprobes if thread else u.probes).append(line)

    # ---- strong functions and data (always) ---------------------------------------------------
    funcs, datas = [], []
    for u in U:
        for j in range(r.randint(1, 3)):
            t = tag()
            s = _Sym(f"{u.name}_f{j}", u, "func", tag=t)
            funcs.append(s)
            u.defs.append(f"int {s.name}(int x) {{ return {t} + x; }}")
            u.reg.append(f'rt_witness("{s.name}", (const void *)(uintptr_t){s.name}, 1);')
        for j in range(r.randint(1, 3)):
            t = tag()
            nel = r.choice([1, 2, 4, 7])
            ctype = r.choice(["int", "int", "long", "short", "char"])
            const = r.random() < 0.2
            s = _Sym(f"{u.name}_d{j}", u, "data", tag=t, n=nel, ctype=ctype, const=const)
            datas.append(s)
            init = ", ".join(str((t + i) % 120 if ctype == "char" else (t + i) % 30000) for i in range(nel))
            u.defs.append(f"{'const ' if const else ''}{ctype} {s.name}[{nel}] = {{ {init} }};")
            u.reg.append(f'rt_witness("{s.name}", {s.name}, sizeof {s.name});')

    def decl_of(s):
        if s.what == "func":
            return f"extern int {s.name}(int);"
        return f"extern {'const ' if getattr(s, 'const', False) else ''}{s.ctype} {s.name}[{s.n}];"

    for u in U:
        cf = [s for s in funcs if s.unit in callable_from(u)]
        for s in r.sample(cf, min(len(cf), r.randint(2, 4))):
            u.decl(decl_of(s))
            probe(u, "call", s.name, "%d", f"{s.name}({u.idx + 1})")
        rd = [s for s in datas if s.unit in reachable(u)]
        for s in r.sample(rd, min(len(rd), r.randint(2, 4))):
            u.decl(decl_of(s))
            i = r.randrange(s.n)
            probe(u, "data", f"{s.name}[{i}]", "%ld", f"(long){s.name}[{i}]")
            probe(u, "addr_code", f"&{s.name}[{i}]", "%s", f"rt_describe(&{s.name}[{i}])")
        # writes to non-const data, observed later by other units' reads
        wd = [s for s in rd if not s.const and s.ctype != "char"]
        if wd:
            s = r.choice(wd)
            u.decl(decl_of(s))
            u.probes.append(f"{s.name}[0] += {u.idx + 1};")

    # ---- static data holding pointers to other units' data / functions ------------------------
    if "data_ptrs" in fs:
        for u in U:
            rd = [s for s in datas if s.unit in reachable(u)]
            for j in range(r.randint(1, 3)):
                s = r.choice(rd)
                off = r.randrange(s.n)
                u.decl(decl_of(s))
                q = r.choice(["", "static ", "const_"])
                cq = "const " if s.const else ""
                if q == "const_":
                    u.defs.append(f"{cq}{s.ctype} *const {u.name}_p{j} = &{s.name}[{off}];")
                else:
                    u.defs.append(f"{q}{cq}{s.ctype} *{u.name}_p{j} = &{s.name}[{off}];")
                probe(u, "addr", f"p{j}->{s.name}[{off}]", "%s", f"rt_describe({u.name}_p{j})")
                probe(u, "addr_deref", f"p{j}->{s.name}[{off}]", "%ld", f"(long)*{u.name}_p{j}")
    if "fnptr" in fs:
        for u in U:
            # address-taking of functions: inside the group, plus exe->lib (canonical PLT / GOT)
            cf = [s for s in funcs if s.unit in callable_from(u)]
            pick = [r.choice(cf) for _ in range(r.randint(2, 4))]
            for s in pick:
                u.decl(decl_of(s))
            u.defs.append(f"static int (*{u.name}_ft[])(int) = {{ {', '.join(s.name for s in pick)} }};")
            for i, s in enumerate(pick):
                probe(u, "fnptr", f"ft[{i}]->{s.name}", "%s -> %d", f"rt_describe((const void *)(uintptr_t){u.name}_ft[{i}])",
                      f"{u.name}_ft[{i}]({i})")
            s = r.choice(cf)
            u.decl(decl_of(s))
            u.defs.append(f"NOINLINE static int (*{u.name}_getfp(void))(int) {{ return {s.name}; }}")
            probe(u, "fnptr_code", f"&{s.name}", "%s", f"rt_describe((const void *)(uintptr_t){u.name}_getfp())")

    # ---- local symbols with identical names in every unit ------------------------------------
    if "local" in fs:
        for u in U:
            t = tag()
            u.defs.append(f"static int local_same[3] = {{ {t}, {t + 1}, {t + 2} }};")
            u.defs.append(f"NOINLINE static int local_fn(int x) {{ return local_same[x % 3] + {u.idx}; }}")
            u.defs.append("static int (*volatile local_fp)(int) = local_fn;")
            probe(u, "local", "local_fn", "%d %d", "local_fn(1)", "local_fp(2)")

    # ---- hidden / protected --------------------------------------------------------------------
    for feat, vis in (("hidden", "hidden"), ("protected", "protected")):
        if feat not in fs:
            continue
        attr = f'__attribute__((visibility("{vis}")))'
        syms = []
        for u in U:
            if r.random() < 0.7:
                t = tag()
                p = vis[0]
                f = _Sym(f"{u.name}_{p}f", u, "func", vis=vis, tag=t)
                d = _Sym(f"{u.name}_{p}d", u, "data", vis=vis, tag=t, n=2)
                u.defs.append(f"{attr} int {f.name}(int x) {{ return {t} + 2 * x; }}")
                u.defs.append(f"{attr} int {d.name}[2] = {{ {t}, {t + 1} }};")
                u.reg.append(f'rt_witness("{f.name}", (const void *)(uintptr_t){f.name}, 1);')
                u.reg.append(f'rt_witness("{d.name}", {d.name}, sizeof {d.name});')
                syms.append((f, d))
        for u in U:
            cand = [(f, d) for f, d in syms if f.unit in peers(u)]
            for f, d in r.sample(cand, min(len(cand), 2)):
                # in the defining unit the definition itself is the declaration
                if f.unit is not u:
                    # protected: referrers in the same module may declare it protected as well
                    u.decl(f"extern {attr} int {f.name}(int);")
                    u.decl(f"extern {attr} int {d.name}[2];")
                probe(u, feat, f.name, "%d", f"{f.name}(3)")
                probe(u, feat, d.name, "%d %s", f"{d.name}[1]", f"rt_describe(&{d.name}[1])")
                if vis == "hidden" or f.unit.group == "exe":
                    # address of a protected function inside a shared library is deliberately not
                    # probed (pointer equality with the executable's view is toolchain-version lore)
                    u.defs.append(f"NOINLINE static const void *{u.name}_addr_{f.name}(void) {{ return (const void *)(uintptr_t){f.name}; }}")
                    probe(u, feat, "&" + f.name, "%s", f"rt_describe({u.name}_addr_{f.name}())")

    # ---- weak vs strong -------------------------------------------------------------------------
    if "weak" in fs:
        for g in ("exe", "lib"):
            gu = [u for u in U if u.group == g]
            if not gu:
                continue
            for j in range(r.randint(1, 2)):
                name = f"{g}_w{j}"
                tw, ts = tag(), tag()
                wu_ = r.choice(gu)
                strong = r.choice([u for u in gu if u is not wu_] + [None]) if len(gu) > 1 else None
                wu_.defs.append(f"__attribute__((weak)) int {name}(int x) {{ return {tw} + x; }}")
                wu_.defs.append(f"__attribute__((weak)) int {name}_d = {tw};")
                if strong is not None:
                    strong.defs.append(f"int {name}(int x) {{ return {ts} + x; }}")
                    strong.defs.append(f"int {name}_d = {ts};")
                (strong or wu_).reg.append(f'rt_witness("{name}", (const void *)(uintptr_t){name}, 1);')
                (strong or wu_).reg.append(f'rt_witness("{name}_d", &{name}_d, sizeof(int));')
                for u in r.sample(gu, min(len(gu), 3)):
                    if u is not wu_ and u is not strong:
                        u.decl(f"extern int {name}(int);")
                        u.decl(f"extern int {name}_d;")
                    probe(u, "weak", name, "%d %d", f"{name}(1)", f"{name}_d")
                    u.defs.append(f"NOINLINE static const void *{u.name}_addr_{name}(void) {{ return (const void *)(uintptr_t){name}; }}")
                    probe(u, "weak", "&" + name, "%s %s", f"rt_describe({u.name}_addr_{name}())", f"rt_describe(&{name}_d)")

    # ---- common -----------------------------------------------------------------------------------
    if "common" in fs:
        P.needs_fcommon = True
        for g in ("exe", "lib"):
            gu = [u for u in U if u.group == g]
            if not gu:
                continue
            for j in range(r.randint(1, 2)):
                name = f"{g}_c{j}"
                users = r.sample(gu, min(len(gu), r.randint(1, 3)))
                big = r.choice(users)
                mode = r.choice(["same", "sizes", "strong"])
                t = tag()
                for u in users:
                    if "-fcommon" not in u.cflags:
                        u.cflags.append("-fcommon")
                    nel = 4
                    if mode == "sizes" and u is big:
                        nel = 16
                    if mode == "strong" and u is big:
                        u.defs.append(f"int {name}[4] = {{ {t}, {t + 1}, {t + 2}, {t + 3} }};")
                    else:
                        u.defs.append(f"int {name}[{nel}];")
                big.reg.append(f'rt_witness("{name}", {name}, sizeof {name});')
                for u in users:
                    probe(u, "common", name, "%d %s", f"{name}[1]", f"rt_describe(&{name}[3])")
                    u.probes.append(f"{name}[1] += {u.idx + 5};")
                    if mode == "sizes" and u is big:
                        probe(u, "common", name + "[15]", "%d %s", f"{name}[15]", f"rt_describe(&{name}[15])")

    # ---- TLS -------------------------------------------------------------------------------------------
    if "tls" in fs:
        tls = []
        for u in U:
            for j in range(r.randint(0, 3)):
                t = tag()
                vis = r.choice(["default", "default", "static", "hidden"])
                if vis == "hidden" and "hidden" not in fs:
                    vis = "default"      # no hidden-visibility symbol of any type without the feature
                zero = r.random() < 0.35
                al = r.choice([0, 0, 0, 16, 64, 256]) if r.random() < 0.5 else 0
                ctype = r.choice(["int", "long", "char", "short"])
                s = _Sym(f"{u.name}_t{j}", u, "tls", vis=vis, tag=(0 if zero else (t % 100 if ctype == "char" else t)),
                         ctype=ctype, al=al)
                tls.append(s)
        for s in tls:
            u = s.unit
            # the model used by the defining unit
            own = ["def", "gd", "ie"]
            if u.group == "exe":
                own.append("le")
            if s.vis in ("static", "hidden"):
                own.append("ld")
            s.own_model = r.choice(own)
            attrs = []
            if s.own_model != "def":
                attrs.append(f'tls_model("{TLS_MODEL_ATTR[s.own_model]}")')
            if s.vis == "hidden":
                attrs.append('visibility("hidden")')
            if s.al:
                attrs.append(f"aligned({s.al})")
            a = f" __attribute__(({', '.join(attrs)}))" if attrs else ""
            st = "static " if s.vis == "static" else ""
            init = "" if s.tag == 0 else f" = {s.tag}"
            u.defs.append(f"{st}__thread {s.ctype} {s.name}{a}{init};")
            u.defs.append(f"void *{s.name}_addr(void) {{ return &{s.name}; }}")
            u.reg.append(f'rt_witness("{s.name}", &{s.name}, sizeof {s.name});')
        for u in U:
            cand = []
            for s in tls:
                if s.unit is u:
                    cand.append((s, s.own_model))
                elif s.vis == "static":
                    continue
                elif s.vis == "hidden":
                    if s.unit.group == u.group:
                        cand.append((s, r.choice(["def", "gd", "ie", "ld"] + (["le"] if u.group == "exe" else []))))
                elif s.unit.group == u.group:
                    cand.append((s, r.choice(["def", "gd", "ie"] + (["le"] if u.group == "exe" else []))))
                elif u.group == "exe":
                    cand.append((s, r.choice(["def", "gd", "ie"])))
            for s, m in r.sample(cand, min(len(cand), r.randint(1, 4))):
                if s.unit is not u:
                    attrs = []
                    if m != "def":
                        attrs.append(f'tls_model("{TLS_MODEL_ATTR[m]}")')
                    if s.vis == "hidden":
                        attrs.append('visibility("hidden")')
                    if s.al:
                        attrs.append(f"aligned({s.al})")
                    a = f" __attribute__(({', '.join(attrs)}))" if attrs else ""
                    u.decl(f"extern __thread {s.ctype} {s.name}{a};")
                    u.decl(f"extern void *{s.name}_addr(void);")
                kind = "tls_" + m
                probe(u, kind, s.name, "%ld %s same=%d", f"(long){s.name}", f"rt_describe(&{s.name})",
                      f"(void *)&{s.name} == {s.name}_addr()")
                if s.al:
                    probe(u, kind, s.name + "%align", "%d", f"(int)((uintptr_t)&{s.name} % {s.al})")
                u.probes.append(f"{s.name} += {u.idx + 1};")
                if "tls_thread" in fs:
                    probe(u, "tls_thread", s.name, "%ld same=%d", f"(long){s.name}",
                          f"(void *)&{s.name} == {s.name}_addr()", thread=True)
                    u.tprobes.append(f"{s.name} += {u.idx + 2};")
                    probe(u, "tls_thread", s.name + "'", "%ld", f"(long){s.name}", thread=True)

    # ---- ifunc -----------------------------------------------------------------------------------------
    if "ifunc" in fs:
        ifs = []
        for u in U:
            if r.random() < 0.6:
                ta, tb = tag(), tag()
                vis = r.choice(["default", "default", "hidden", "static"])
                if vis == "hidden" and "hidden" not in fs:
                    vis = "default"
                pickb = r.random() < 0.5
                name = f"{u.name}_if"
                u.defs.append(f"static int {name}_a(int x) {{ return {ta} + x; }}")
                u.defs.append(f"static int {name}_b(int x) {{ return {tb} + x; }}")
                u.defs.append(f"static int (*{name}_res(void))(int) {{ return {name}_{'b' if pickb else 'a'}; }}")
                pre = "static " if vis == "static" else ""
                va = ', visibility("hidden")' if vis == "hidden" else ""
                u.defs.append(f'{pre}int {name}(int) __attribute__((ifunc("{name}_res"){va}));')
                u.reg.append(f'rt_witness("{name}", (const void *)(uintptr_t){name}, 1);')
                ifs.append(_Sym(name, u, "ifunc", vis=vis))
        for u in U:
            for s in ifs:
                if s.unit is u:
                    pass
                elif s.vis == "static":
                    continue
                elif s.vis == "hidden":
                    if s.unit.group != u.group:
                        continue
                    u.decl(f'extern __attribute__((visibility("hidden"))) int {s.name}(int);')
                else:
                    if s.unit.group != u.group and u.group != "exe":
                        continue
                    u.decl(f"extern int {s.name}(int);")
                if r.random() < 0.7:
                    probe(u, "ifunc", s.name, "%d", f"{s.name}(2)")
                    if s.unit.group == u.group and r.random() < 0.7:
                        # Address identity of an ifunc is only probed where GNU ld itself keeps it:
                        # in position-dependent code, and for default-visibility ifuncs in -fPIC code
                        # (every reference goes through the GOT or a data word). With -fpie, or for
                        # hidden/static ifuncs in PIC code, GNU ld 2.40 resolves PC-relative address
                        # loads to the PLT entry and GOT/data words to the resolved function, so
                        # `&f` differs inside one program (ld.lld does not; wild follows GNU ld).
                        g = "#if !defined(__PIE__)" if s.vis == "default" else "#if !defined(__PIC__)"
                        u.defs.append(f"{g}\nNOINLINE static const void *{u.name}_addr_{s.name}(void) {{ return (const void *)(uintptr_t){s.name}; }}\n#endif")
                        probe(u, "ifunc", "&" + s.name, "%s", f"rt_describe({u.name}_addr_{s.name}())", guard=g)
                        if r.random() < 0.5:
                            u.defs.append(f"{g}\nstatic int (*{u.name}_ifp_{s.name})(int) = {s.name};\n#endif")
                            probe(u, "ifunc", "ptr->" + s.name, "%s %d", f"rt_describe((const void *)(uintptr_t){u.name}_ifp_{s.name})",
                                  f"{u.name}_ifp_{s.name}(4)", guard=g)

    # ---- string literals ----------------------------------------------------------------------------------
    if "strings" in fs:
        base = [f"proggen shared string {tag()}", f"tail-{tag()}", "x"]
        words = ["alpha", "beta", "gamma", "delta"]
        for u in U:
            lits = [base[0], "a longer prefix then " + base[1], base[1], base[2], r.choice(words) + " " + base[1],
                    "", f"unit {u.name} only {tag()}"]
            pick = r.sample(lits, r.randint(2, 5))
            for j, s in enumerate(pick):
                u.defs.append(f'const char *{u.name}_s{j}(void) {{ return "{s}"; }}')
                probe(u, "str", f"s{j}", "[%s] len=%d", f"{u.name}_s{j}()", f"(int)strlen({u.name}_s{j}())")
            if r.random() < 0.5:
                u.decl("#include <wchar.h>")
                u.defs.append(f'static const wchar_t *{u.name}_ws(void) {{ return L"wide {base[1]}"; }}')
                probe(u, "str", "wide", "len=%d last=%d", f"(int)wcslen({u.name}_ws())", f"(int){u.name}_ws()[wcslen({u.name}_ws()) - 1]")
            u.defs.append(f'static const char {u.name}_arr[] = "{base[0]}";')
            probe(u, "str", "arr", "cmp=%d", f"strcmp({u.name}_arr, {u.name}_s0()) == 0 ? 0 : 1" if pick[0] == base[0] else f"(int)sizeof {u.name}_arr")

    # ---- constructors / destructors --------------------------------------------------------------------
    if "ctors" in fs:
        for u in U:
            for j in range(r.randint(0, 3)):
                pr = r.choice([None, 101, 200, 200, 1000, 65535, r.randint(102, 65534)])
                a = f"constructor({pr})" if pr else "constructor"
                nm = f"{u.name}_ctor{j}_{pr or 'none'}"
                u.defs.append(f'__attribute__(({a})) static void {nm}(void) {{ rt_event("{nm}"); }}')
            if r.random() < 0.6:
                pr = r.choice([None, 101, 300, 65535])
                a = f"destructor({pr})" if pr else "destructor"
                nm = f"{u.name}_dtor_{pr or 'none'}"
                kinds.add("dtor")
                u.defs.append(f'__attribute__(({a})) static void {nm}(void) {{ rt_line("dtor", "{nm}", "ran"); }}')
        kinds.add("ctor")

    # ---- custom sections with __start_/__stop_ ---------------------------------------------------------------
    if "custom_sec" in fs:
        for g in ("exe", "lib"):
            gu = [u for u in U if u.group == g]
            if not gu:
                continue
            sec = f"pgset_{g}"
            for u in gu:
                for j in range(r.randint(0, 2)):
                    t = tag()
                    u.decl("struct pg_ent { int tag; const char *name; };")
                    u.defs.append(f'static const struct pg_ent {u.name}_ent{j} = {{ {t}, "{u.name}_ent{j}" }};')
                    u.defs.append(f'const struct pg_ent *const {u.name}_entp{j} __attribute__((section("{sec}"))) = &{u.name}_ent{j};')
            it = r.choice(gu)
            if not any("_entp" in d for u in gu for d in u.defs if f'"{sec}"' in d):
                continue
            it.decl("struct pg_ent { int tag; const char *name; };")
            it.decl(f"extern const struct pg_ent *const __start_{sec}[];")
            it.decl(f"extern const struct pg_ent *const __stop_{sec}[];")
            kinds.add("sect")
            it.probes.append(f'{{ int n = 0; for (const struct pg_ent *const *p = __start_{sec}; p < __stop_{sec}; p++, n++) {{ '
                             f'char id[32]; snprintf(id, 32, "{it.name}:{sec}[%d]", n); rt_line("sect", id, "%d %s", (*p)->tag, (*p)->name); }} '
                             f'rt_line("sect", "{it.name}:{sec}.count", "%d", n); }}')
            it.decl("#include <stdio.h>")

    # ---- packed struct with pointers at odd offsets ---------------------------------------------------------
    if "packed" in fs:
        for u in U:
            if r.random() < 0.7:
                rd = [s for s in datas if s.unit in reachable(u)]
                cf = [s for s in funcs if s.unit in callable_from(u)]
                d, f = r.choice(rd), r.choice(cf)
                u.decl(decl_of(d))
                u.decl(decl_of(f))
                off = r.randrange(d.n)
                cq = "const " if d.const else ""
                lead = r.choice([1, 3, 5, 7])
                u.defs.append(f"struct __attribute__((packed)) {u.name}_pk_t {{ char c[{lead}]; {cq}{d.ctype} *p; char e; int (*f)(int); }};")
                u.defs.append(f"{r.choice(['', 'static '])}struct {u.name}_pk_t {u.name}_pk = {{ {{ 1 }}, &{d.name}[{off}], 2, {f.name} }};")
                u.defs.append(f"NOINLINE static const void *{u.name}_pk_get(int w) {{ struct {u.name}_pk_t *volatile q = &{u.name}_pk; "
                              f"if (w) {{ int (*fp)(int); memcpy(&fp, (char *)q + offsetof(struct {u.name}_pk_t, f), sizeof fp); return (const void *)(uintptr_t)fp; }} "
                              f"const void *dp; memcpy(&dp, (char *)q + offsetof(struct {u.name}_pk_t, p), sizeof dp); return dp; }}")
                probe(u, "packed", f"pk.p->{d.name}[{off}]", "%s", f"rt_describe({u.name}_pk_get(0))")
                probe(u, "packed", f"pk.f->{f.name}", "%s c=%d e=%d", f"rt_describe({u.name}_pk_get(1))", f"{u.name}_pk.c[0]", f"{u.name}_pk.e")

    # ---- weak undefined -----------------------------------------------------------------------------------------
    if "weak_undef" in fs:
        for u in U:
            if r.random() < 0.6:
                u.decl(f"extern int {u.name}_wund __attribute__((weak));")
                u.decl(f"extern int {u.name}_wundf(int) __attribute__((weak));")
                u.defs.append(f"NOINLINE static const void *{u.name}_wund_addr(int w) {{ return w ? (const void *)(uintptr_t){u.name}_wundf : (const void *)&{u.name}_wund; }}")
                probe(u, "weak_undef", "data", "%s", f"rt_describe({u.name}_wund_addr(0))")
                probe(u, "weak_undef", "func", "%s %d", f"rt_describe({u.name}_wund_addr(1))", f"{u.name}_wundf ? {u.name}_wundf(1) : -1")

    # ---- big .bss ---------------------------------------------------------------------------------------------------
    if "bss" in fs:
        for u in U:
            if r.random() < 0.6:
                nel = r.choice([5000, 70000, 300000])
                st = r.choice(["static ", ""])
                u.defs.append(f"{st}int {u.name}_big[{nel}];")
                u.reg.append(f'rt_witness("{u.name}_big", {u.name}_big, sizeof {u.name}_big);')
                u.defs.append(f"NOINLINE static long {u.name}_bigsum(void) {{ long s = 0; for (int i = 0; i < {nel}; i++) s += {u.name}_big[i]; return s; }}")
                probe(u, "bss", "zero", "%ld", f"{u.name}_bigsum()")
                u.probes.append(f"{u.name}_big[0] = 3; {u.name}_big[{nel - 1}] = 4; {u.name}_big[{nel // 2}] = 5;")
                probe(u, "bss", "sum", "%ld %s", f"{u.name}_bigsum()", f"rt_describe(&{u.name}_big[{nel - 1}])")

    # ---- aligned data ---------------------------------------------------------------------------------------------
    if "align" in fs:
        for u in U:
            for j in range(r.randint(0, 2)):
                al = r.choice([16, 32, 64, 128, 512, 4096])
                t = tag()
                where = r.choice(["data", "bss", "rodata"])
                init = "" if where == "bss" else f" = {{ {t % 100} }}"
                u.defs.append(f"{'const ' if where == 'rodata' else ''}char {u.name}_al{j}[3] __attribute__((aligned({al}))){init};")
                u.defs.append(f"NOINLINE static const void *{u.name}_al{j}_addr(void) {{ return {u.name}_al{j}; }}")
                probe(u, "align", f"al{j}%{al}", "%d v=%d", f"(int)((uintptr_t){u.name}_al{j}_addr() % {al})", f"{u.name}_al{j}[0]")

    # ---- assemble C units -------------------------------------------------------------------------------------------
    extra_units = []
    main_calls_reg, main_calls_probe, main_calls_thread = [], [], []
    for u in U:
        main_calls_reg.append(f"{u.name}_register")
        main_calls_probe.append(f"{u.name}_probes")
        main_calls_thread.append(f"{u.name}_thread_probes")

    # ---- asm unit -----------------------------------------------------------------------------------------------------
    if "asm" in fs:
        au = _asm_unit(r, U, funcs, datas, tag, fs, kinds)
        extra_units.append(au)
        main_calls_probe.append("as_probes")
        main_calls_reg.append("as_register")

    # ---- C++ units ------------------------------------------------------------------------------------------------------
    if "cxx" in fs:
        P.needs_cxx = True
        ga = r.choice(["exe", "lib"]) if P.has_lib else "exe"
        gb = "exe" if ga == "exe" else r.choice(["exe", "lib"])
        extra_units += _cxx_units(r, ga, gb, tag, kinds)
        main_calls_probe += ["cxa_probes", "cxb_probes"]

    for u in U:
        unit = Unit(u.name, "c", u.group)
        unit.cflags = u.cflags
        unit.pic_only_flags = u.pic_only_flags
        body = [RT_DECLS] + u.decls + [""] + u.defs + [""]
        body.append(f"void {u.name}_register(void) {{\n    " + "\n    ".join(u.reg) + "\n}")
        body.append(f"void {u.name}_probes(void) {{\n    " + "\n    ".join(u.probes) + "\n}")
        body.append(f"void {u.name}_thread_probes(void) {{\n    " + "\n    ".join(u.tprobes) + "\n}")
        if u.idx == 0:
            m = ["#include <pthread.h>"]
            for f in main_calls_reg + main_calls_probe + main_calls_thread:
                if not f.startswith("u0_"):
                    m.append(f"extern void {f}(void);")
            m.append("static void *thread_main(void *a) { (void)a; " + " ".join(f"{f}();" for f in main_calls_thread) + " return 0; }")
            m.append("int main(void) {\n    rt_init();\n    rt_dump_events(\"ctor\");")
            m += [f"    {f}();" for f in main_calls_reg]
            m += [f"    {f}();" for f in main_calls_probe]
            if "tls_thread" in fs:
                kinds.add("tls_thread")
                m.append("    { pthread_t t; if (pthread_create(&t, 0, thread_main, 0) == 0) pthread_join(t, 0); else rt_line(\"tls_thread\", \"create\", \"failed\"); }")
                # the main thread's values are unaffected by the other thread
                m += [f"    {f}();" for f in main_calls_thread]
            m.append("    rt_line(\"end\", \"main\", \"ok\");\n    return 0;\n}")
            body += m
        unit.src["*"] = "\n".join(body) + "\n"
        P.units.append(unit)
    rt = Unit("rt", "c", rt_group)
    rt.cflags = ["-O1"]
    rt.src["*"] = RT_SRC
    P.units.append(rt)
    P.units += _flatten(extra_units)
    P.has_lib = any(u.group == "lib" for u in P.units if u.name != "rt") and P.has_lib
    kinds.add("end")
    P.desc = f"units={len(P.units)} lib={[u.name for u in P.units if u.group == 'lib']} features={sorted(fs)}"
    return P


def _asm_unit(r, U, funcs, datas, tag, fs, kinds):
    """Hand-written x86-64 unit: relaxable GOT forms, data relocations, explicit TLS sequences.
    It lives in the exe group and references only exe-group symbols plus its own."""
    u0 = [u for u in U if u.group == "exe"]
    f = r.choice([s for s in funcs if s.unit in u0])
    d = r.choice([s for s in datas if s.unit in u0 and s.ctype == "int"] or [None])
    t1, t2, t3 = tag(), tag(), tag()
    kinds.add("asm")
    lines = []
    A = lines.append
    A("    .text")

    def fn(name):
        A(f"    .globl {name}\n    .type {name},@function\n{name}:")

    def end(name):
        A(f"    .size {name}, .-{name}")
    # call through GOT (relaxable to direct call), tail-jump through GOT
    fn("as_call_got")
    A(f"    sub $8, %rsp\n    mov $5, %edi\n    call *{f.name}@GOTPCREL(%rip)\n    add $8, %rsp\n    ret")
    end("as_call_got")
    fn("as_jmp_got")
    A(f"    mov $6, %edi\n    jmp *{f.name}@GOTPCREL(%rip)")
    end("as_jmp_got")
    fn("as_call_plt")
    A(f"    sub $8, %rsp\n    mov $7, %edi\n    call {f.name}@PLT\n    add $8, %rsp\n    ret")
    end("as_call_plt")
    fn("as_addr_got")
    A(f"    mov {f.name}@GOTPCREL(%rip), %rax\n    ret")
    end("as_addr_got")
    # own data through relaxable GOT forms with different opcodes
    A("    .data\n    .globl as_d\n    .type as_d,@object\n    .balign 4\nas_d:\n"
      f"    .long {t1}\n    .long {t1 + 1}\n    .size as_d, 8")
    A("    .type as_loc,@object\nas_loc:\n" + f"    .long {t2}\n    .size as_loc, 4")
    A("    .text")
    fn("as_mov_got")
    A("    mov as_d@GOTPCREL(%rip), %rax\n    mov 4(%rax), %eax\n    ret")
    end("as_mov_got")
    fn("as_ops_got")
    # r = ((&as_d + 0) - &as_d via sub) ... uses add/sub/cmp/test forms against the GOT slot
    A("    xor %eax, %eax\n    mov as_d@GOTPCREL(%rip), %rcx\n    cmp as_d@GOTPCREL(%rip), %rcx\n    sete %al\n"
      "    mov %rcx, %rdx\n    sub as_d@GOTPCREL(%rip), %rdx\n    add %edx, %eax\n"
      "    test %rcx, as_d@GOTPCREL(%rip)\n    setne %dl\n    movzbl %dl, %edx\n    lea (%rax,%rdx,2), %eax\n"
      "    mov %rcx, %rdx\n    xor as_d@GOTPCREL(%rip), %rdx\n    add %edx, %eax\n"
      "    mov %rcx, %rdx\n    and as_d@GOTPCREL(%rip), %rdx\n    cmp %rcx, %rdx\n    sete %dl\n    movzbl %dl, %edx\n    lea (%rax,%rdx,4), %eax\n"
      "    mov %rcx, %rdx\n    or as_d@GOTPCREL(%rip), %rdx\n    cmp %rcx, %rdx\n    sete %dl\n    movzbl %dl, %edx\n    lea (%rax,%rdx,8), %eax\n"
      "    ret")
    end("as_ops_got")
    fn("as_loc_pc")
    A("    mov as_loc(%rip), %eax\n    ret")
    end("as_loc_pc")
    if d is not None:
        fn("as_ext_got")
        A(f"    mov {d.name}@GOTPCREL(%rip), %rax\n    mov (%rax), %eax\n    ret")
        end("as_ext_got")
    # TLS: explicit sequences
    has_tls = "tls" in fs
    if has_tls:
        A("    .section .tdata,\"awT\",@progbits\n    .balign 4\n    .globl as_tv\n    .type as_tv,@object\nas_tv:\n"
          f"    .long {t3}\n    .size as_tv, 4\n    .type as_tl,@object\nas_tl:\n    .long {t3 + 1}\n    .size as_tl, 4")
        A("    .section .tbss,\"awT\",@nobits\n    .balign 8\n    .type as_tz,@object\nas_tz:\n    .zero 8\n    .size as_tz, 8")
        A("    .text")
        fn("as_tls_ie")
        A("    mov as_tv@gottpoff(%rip), %rax\n    mov %fs:(%rax), %eax\n    ret")
        end("as_tls_ie")
        fn("as_tls_ie_add")
        A("    mov %fs:0, %rax\n    add as_tl@gottpoff(%rip), %rax\n    mov (%rax), %eax\n    ret")
        end("as_tls_ie_add")
        fn("as_tls_gd")
        A("    sub $8, %rsp\n    .byte 0x66\n    lea as_tv@tlsgd(%rip), %rdi\n    .value 0x6666\n    rex64\n"
          "    call __tls_get_addr@PLT\n    mov (%rax), %eax\n    add $8, %rsp\n    ret")
        end("as_tls_gd")
        fn("as_tls_ld")
        A("    sub $8, %rsp\n    lea as_tl@tlsld(%rip), %rdi\n    call __tls_get_addr@PLT\n"
          "    mov as_tl@dtpoff(%rax), %ecx\n    add as_tz@dtpoff(%rax), %ecx\n    mov %ecx, %eax\n    add $8, %rsp\n    ret")
        end("as_tls_ld")
        fn("as_tls_le")
        A("    mov %fs:as_tv@tpoff, %eax\n    mov %fs:0, %rcx\n    add as_tl@tpoff(%rcx), %eax\n    ret")
        end("as_tls_le")
        fn("as_tls_desc")
        A("    sub $8, %rsp\n    lea as_tv@tlsdesc(%rip), %rax\n    call *as_tv@tlscall(%rax)\n    mov %fs:(%rax), %eax\n    add $8, %rsp\n    ret")
        end("as_tls_desc")
        fn("as_tv_addr")
        A("    mov as_tv@gottpoff(%rip), %rax\n    add %fs:0, %rax\n    ret")
        end("as_tv_addr")
    # data words
    A("    .section .data.rel,\"aw\",@progbits\n    .balign 8\n    .globl as_ptrs\n    .type as_ptrs,@object\nas_ptrs:\n"
      f"    .quad as_d+4\n    .quad as_loc\n    .quad {f.name}\n" + (f"    .quad {d.name}+{4 * (d.n - 1)}\n" if d is not None else "    .quad 0\n") +
      "    .size as_ptrs, 32")
    A("    .section .rodata\n    .balign 4\n    .globl as_rel\n    .type as_rel,@object\nas_rel:\n    .long as_loc - .\n    .long as_call_plt - as_rel\n    .size as_rel, 8")
    nonpic = list(lines)
    # non-PIC extras (absolute 32-bit forms), only assembled in the nopic variant
    nonpic.append("    .text")
    nonpic.append("    .globl as_abs32\n    .type as_abs32,@function\nas_abs32:\n    mov $as_d, %eax\n    mov 4(%rax), %eax\n    add as_loc, %eax\n"
                  "    lea as_d, %rcx\n    add (%rcx), %eax\n    ret\n    .size as_abs32, .-as_abs32")
    tail = '    .section .note.GNU-stack,"",@progbits\n'
    au = Unit("as", "s", "exe")
    au.src["pic"] = au.src["pie"] = "\n".join(lines) + "\n" + tail
    au.src["nopic"] = "\n".join(nonpic) + "\n" + tail
    # C glue compiled as part of the asm unit's probes lives in a separate C unit
    g = []
    g.append(RT_DECLS)
    g.append("extern int as_call_got(void), as_jmp_got(void), as_call_plt(void), as_mov_got(void), as_ops_got(void), as_loc_pc(void);")
    g.append("extern void *as_addr_got(void);\nextern int as_d[2];\nextern void *as_ptrs[4];\nextern const int as_rel[2];")
    g.append("void as_register(void) { rt_witness(\"as_d\", as_d, 8); rt_witness(\"as_ptrs\", as_ptrs, 32); rt_witness(\"as_call_plt\", (const void *)(uintptr_t)as_call_plt, 1);")
    if has_tls:
        g.append("    extern void *as_tv_addr(void); rt_witness(\"as_tv\", as_tv_addr(), 4);")
    g.append("}")
    g.append("void as_probes(void) {")
    g.append(f'    rt_line("asm", "call*got->{f.name}", "%d", as_call_got());')
    g.append(f'    rt_line("asm", "jmp*got->{f.name}", "%d", as_jmp_got());')
    g.append(f'    rt_line("asm", "call-plt->{f.name}", "%d", as_call_plt());')
    g.append(f'    rt_line("asm", "mov-got->&{f.name}", "%s", rt_describe(as_addr_got()));')
    g.append('    rt_line("asm", "mov-got->as_d[1]", "%d", as_mov_got());')
    g.append('    rt_line("asm", "ops-got", "%d", as_ops_got());')
    g.append('    rt_line("asm", "pc32-local", "%d", as_loc_pc());')
    if d is not None:
        g.append("    extern int as_ext_got(void);")
        g.append(f'    rt_line("asm", "mov-got->{d.name}", "%d", as_ext_got());')
    g.append('    rt_line("asm", "quad0", "%s", rt_describe(as_ptrs[0]));')
    g.append('    rt_line("asm", "quad1", "%d", *(int *)as_ptrs[1]);')
    g.append('    rt_line("asm", "quad2", "%s", rt_describe(as_ptrs[2]));')
    g.append('    rt_line("asm", "quad3", "%s", rt_describe(as_ptrs[3]));')
    g.append('    rt_line("asm", "pc32-data", "%d", *(const int *)((const char *)as_rel + as_rel[0]));')
    g.append('    rt_line("asm", "diff-data", "%s", rt_describe((const char *)as_rel + as_rel[1]));')
    if has_tls:
        kinds.update(["asm_tls_ie", "asm_tls_gd", "asm_tls_ld", "asm_tls_le", "asm_tls_desc"])
        g.append("    extern int as_tls_ie(void), as_tls_ie_add(void), as_tls_gd(void), as_tls_ld(void), as_tls_le(void), as_tls_desc(void);")
        g.append('    rt_line("asm_tls_ie", "as_tv", "%d %d", as_tls_ie(), as_tls_ie_add());')
        g.append('    rt_line("asm_tls_gd", "as_tv", "%d", as_tls_gd());')
        g.append('    rt_line("asm_tls_ld", "as_tl+as_tz", "%d", as_tls_ld());')
        g.append('    rt_line("asm_tls_le", "as_tv+as_tl", "%d", as_tls_le());')
        g.append('    rt_line("asm_tls_desc", "as_tv", "%d", as_tls_desc());')
    g.append("#ifdef AS_NOPIC\n    extern int as_abs32(void);\n    rt_line(\"asm\", \"abs32\", \"%d\", as_abs32());\n#endif")
    g.append("}")
    glue = Unit("asg", "c", "exe")
    glue.cflags = ["-O1"]
    glue.src["pic"] = glue.src["pie"] = "\n".join(g) + "\n"
    glue.src["nopic"] = "#define AS_NOPIC 1\n" + "\n".join(g) + "\n"
    return _Multi([au, glue])


class _Multi(list):
    pass


def _cxx_units(r, ga, gb, tag, kinds):
    t1, t2 = tag(), tag()
    kinds.update(["cxx_inline", "cxx_exc", "cxx_virt"])
    hdr = r'''
#include <cstdio>
#include <cstdint>
extern "C" void rt_line(const char *kind, const char *id, const char *fmt, ...);
extern "C" const char *rt_describe(const void *p);
struct PgErr { int code; explicit PgErr(int c) : code(c) {} virtual ~PgErr() {} virtual int what() const { return code; } };
struct PgErr2 : PgErr { explicit PgErr2(int c) : PgErr(c) {} int what() const override { return code * 2; } };
inline int pg_counter() { static int n = 0; return ++n; }
template <class T> inline T pg_twice(T x) { return x + x; }
struct PgShape { virtual ~PgShape() {} virtual int area() const { return %d; } };
struct PgSquare : PgShape { int s; explicit PgSquare(int s_) : s(s_) {} int area() const override { return s * s; } };
inline int *pg_inline_static() { static int v = %d; return &v; }
extern "C" int cxa_thrower(int mode);
extern "C" PgShape *cxa_make(int s);
extern "C" int *cxa_static_addr(void);
extern "C" int cxa_count(void);
''' % (t1, t2)
    a = hdr + r'''
extern "C" int cxa_thrower(int mode) {
    if (mode == 1) throw PgErr(41);
    if (mode == 2) throw PgErr2(21);
    if (mode == 3) throw 7;
    return mode;
}
extern "C" PgShape *cxa_make(int s) { if (s) return new PgSquare(s); return new PgShape(); }
extern "C" int *cxa_static_addr(void) { return pg_inline_static(); }
extern "C" int cxa_count(void) { return pg_counter(); }
extern "C" void cxa_probes(void) {
    rt_line("cxx_inline", "cxa:counter", "%d", pg_counter());
    rt_line("cxx_inline", "cxa:twice", "%d %ld", pg_twice(21), pg_twice(100000L));
    try { cxa_thrower(1); } catch (const PgErr &e) { rt_line("cxx_exc", "cxa:local", "%d", e.what()); }
}
'''
    b = hdr + r'''
extern "C" void cxb_probes(void) {
    rt_line("cxx_inline", "cxb:counter", "%d %d", pg_counter(), cxa_count());
    rt_line("cxx_inline", "cxb:twice", "%d", pg_twice(4));
    rt_line("cxx_inline", "cxb:static-identity", "%d %d", pg_inline_static() == cxa_static_addr(), *cxa_static_addr());
    for (int m = 0; m < 4; m++) {
        char id[16]; snprintf(id, 16, "cxb:mode%d", m);
        try { int v = cxa_thrower(m); rt_line("cxx_exc", id, "returned %d", v); }
        catch (const PgErr2 &e) { rt_line("cxx_exc", id, "PgErr2 %d", e.what()); }
        catch (const PgErr &e) { rt_line("cxx_exc", id, "PgErr %d", e.what()); }
        catch (int i) { rt_line("cxx_exc", id, "int %d", i); }
    }
    PgShape *p = cxa_make(5), *q = cxa_make(0);
    rt_line("cxx_virt", "cxb:area", "%d %d", p->area(), q->area());
    rt_line("cxx_virt", "cxb:dyncast", "%d %d", dynamic_cast<PgSquare *>(p) != nullptr, dynamic_cast<PgSquare *>(q) != nullptr);
    delete p; delete q;
}
'''
    ua, ub = Unit("cxa", "c++", ga), Unit("cxb", "c++", gb)
    ua.src["*"], ub.src["*"] = a, b
    ua.cflags = [r.choice(["-O0", "-O2"])]
    ub.cflags = [r.choice(["-O0", "-O1", "-O2"])]
    return [ua, ub]


def _flatten(units):
    out = []
    for u in units:
        if isinstance(u, _Multi):
            out += list(u)
        else:
            out.append(u)
    return out


# ------------------------------------------------------------------------------------------------
# linking and running
# ------------------------------------------------------------------------------------------------

def link_and_run(ctx, linker, prog, built, kind, extra_link_args=(), workdir=None, gc=False, run_it=True,
                 lib_linker=None, lib_link_args=None, order=None, exe_pie=True, extra_env=None, link_timeout=180,
                 inputs_override=None):
    """Links `built` (list[BuiltUnit] from prog.build) with `linker` ("wild"|"ld"|"lld") through
    gcc/g++ -B and runs the result.

    kind: "static" | "static-pie" | "pie" | "dyn" | "shared". For "shared" the lib-group objects go
    into <workdir>/libpg.so, linked by `lib_linker` (default: the same linker) with `lib_link_args`
    (default: extra_link_args), and the executable (PIE when exe_pie) is run with LD_LIBRARY_PATH.
    extra_link_args are passed as given (use "-Wl,..." forms). gc: --gc-sections or --no-gc-sections
    is always passed explicitly because the linkers' defaults differ.
    order: optional permutation (list of indices into `built`) giving the link order.
    inputs_override: replaces the executable's input list (e.g. partial-link outputs or archives).
    Returns LinkRun. Nothing is raised for link/run failures; inspect .link / .run."""
    if workdir is None:
        raise HarnessError("link_and_run needs a workdir")
    os.makedirs(workdir, exist_ok=True)
    lr = LinkRun()
    driver = tools.GXX if prog.needs_cxx else tools.GCC
    gcarg = "-Wl,--gc-sections" if gc else "-Wl,--no-gc-sections"
    items = list(built) if order is None else [built[i] for i in order]
    env = {}
    if kind == "shared":
        lib_objs = [b.obj for b in items if b.unit.group == "lib"]
        exe_objs = [b.obj for b in items if b.unit.group != "lib"]
        lib = tools.fresh(os.path.join(workdir, "libpg.so"))
        largs = list(extra_link_args if lib_link_args is None else lib_link_args)
        lr.lib_cmd = ["-shared", gcarg, *largs, *lib_objs]
        lr.lib_link = tools.gcc_link(ctx, lib_linker or linker, lr.lib_cmd, lib, driver=driver, timeout=link_timeout,
                                     extra_env=extra_env)
        lr.lib = lib
        if not lr.lib_link.ok:
            return lr
        kargs = ["-pie"] if exe_pie else ["-no-pie"]
        inputs = exe_objs + [lib]
        env["LD_LIBRARY_PATH"] = workdir
    else:
        kargs = KIND_ARGS[kind]
        inputs = [b.obj for b in items]
    if inputs_override is not None:
        inputs = list(inputs_override) + ([lr.lib] if kind == "shared" else [])
    out = tools.fresh(os.path.join(workdir, "prog"))
    lr.out = out
    lr.cmd = [*kargs, gcarg, *extra_link_args, *inputs]
    lr.link = tools.gcc_link(ctx, linker, lr.cmd, out, driver=driver, timeout=link_timeout, extra_env=extra_env)
    if not lr.link.ok or not run_it:
        return lr
    lr.run = run([out], timeout=60, extra_env=env, cwd=workdir)
    return lr


def command_text(ctx, linker, prog, lr):
    """Shell text reproducing the link(s) of a LinkRun (for witnesses)."""
    drv = "g++" if prog.needs_cxx else "gcc"
    b = f"-B<dir with ld -> {linker}>"
    t = ""
    if lr.lib_cmd:
        t += f"{drv} {b} {' '.join(lr.lib_cmd)} -o libpg.so\n"
    t += f"{drv} {b} {' '.join(lr.cmd)} -o prog\n"
    return t


_LINE = re.compile(r"^(\S+) (\S+) = (.*)$")


def parse_transcript(text):
    """-> list of (kind, id, value); unparsable lines become ('?', line, '')."""
    out = []
    for ln in (text or "").splitlines():
        m = _LINE.match(ln)
        out.append(m.groups() if m else ("?", ln, ""))
    return out


def diff_transcripts(a, b):
    """Differences between two transcripts as (kind, id, value_a, value_b); lines are matched by
    (kind, id, occurrence). Missing lines have value None."""
    def index(t):
        d, cnt = {}, {}
        for k, i, v in parse_transcript(t):
            c = cnt.get((k, i), 0)
            cnt[(k, i)] = c + 1
            d[(k, i, c)] = v
        return d
    da, db = index(a), index(b)
    out = []
    for key in list(da) + [k for k in db if k not in da]:
        va, vb = da.get(key), db.get(key)
        if va != vb:
            out.append((key[0], key[1], va, vb))
    return out


def make_archives(ctx, built, workdir, r, thin=False):
    """Groups some non-main objects into archives (consecutive runs, keeping link order). Returns
    the input list for inputs_override. Every archived unit is referenced from main (which stays a
    plain first object), so every member is extracted by single-pass archive semantics; the asm unit
    `as` is only referenced by the later unit `asg` and therefore always stays a plain object."""
    out = [built[0].obj]
    i = 1
    k = 0
    while i < len(built):
        n = r.randint(1, 3)
        grp = []
        while i < len(built) and len(grp) < n and built[i].unit.name != "as":
            grp.append(built[i].obj)
            i += 1
        if len(grp) > 1 or (grp and r.random() < 0.3):
            a = os.path.join(workdir, f"libg{k}.a")
            tools.make_archive(a, grp, thin=thin)
            out.append(a)
            k += 1
        else:
            out += grp
        if i < len(built) and built[i].unit.name == "as":
            out.append(built[i].obj)
            i += 1
    return out


# ------------------------------------------------------------------------------------------------
# self-validation:  python3 -m vlib.proggen [--seeds N] [--first K] [--wild]
# Every generated program must compile, link with GNU ld in every output kind its code model
# allows, run with exit 0 and print a non-empty transcript identical to the ld.lld link's.
# ------------------------------------------------------------------------------------------------

def _selftest(argv):
    import argparse
    from .common import pmap, rng
    from .verdict import Ctx
    ap = argparse.ArgumentParser()
    ap.add_argument("--seeds", type=int, default=30)
    ap.add_argument("--first", type=int, default=0)
    ap.add_argument("--wild", action="store_true", help="also link with wild and report differences (informational)")
    ap.add_argument("--keep", action="store_true")
    a = ap.parse_args(argv)
    ctx = Ctx("PG", "quick", 0, "exploration")
    bad = []
    stats = {"links": 0, "kinds": set(), "lines": 0}

    def one(seed):
        r = rng("proggen-selftest", seed)
        prog = gen_program(r)
        res = []
        for cm in CODE_MODELS:
            for kind in prog.kinds(cm):
                try:
                    built = prog.build(ctx, cm, shared=(kind == "shared"))
                except HarnessError as ex:
                    res.append((seed, cm, kind, "compile", str(ex)[:1500]))
                    return res
                outs = {}
                for lk in ["ld", "lld"] + (["wild"] if a.wild else []):
                    wd = ctx.scratch.dir("st", seed, cm, kind, lk)
                    lr = link_and_run(ctx, lk, prog, built, kind, workdir=wd, exe_pie=(cm != "nopic"))
                    stats["links"] += 1
                    if not lr.ok:
                        which = lr.lib_link if (lr.lib_link is not None and not lr.lib_link.ok) else lr.link
                        msg = (which.errtext()[-600:] if not (lr.link and lr.link.ok) else
                               f"run rc={lr.run.rc} err={lr.run.errtext()[-300:]} out-tail={lr.run.outtext()[-300:]}")
                        res.append((seed, cm, kind, f"{lk}-failed", msg))
                        continue
                    outs[lk] = lr.transcript
                if "ld" in outs:
                    stats["lines"] += len(outs["ld"].splitlines())
                    for k, _i, _v in parse_transcript(outs["ld"]):
                        stats["kinds"].add(k)
                    if not outs["ld"].strip().endswith("ran") and "end main = ok" not in outs["ld"]:
                        res.append((seed, cm, kind, "no-end-line", outs["ld"][-300:]))
                for lk in outs:
                    if lk != "ld" and "ld" in outs and outs[lk] != outs["ld"]:
                        res.append((seed, cm, kind, f"ld-vs-{lk}", str(diff_transcripts(outs["ld"], outs[lk])[:6])))
        return res
    for rs in pmap(one, range(a.first, a.first + a.seeds)):
        bad += rs
    for b in bad:
        print("PROBLEM seed=%s cm=%s kind=%s what=%s\n    %s" % b)
    print(f"seeds={a.seeds} links={stats['links']} transcript-lines={stats['lines']} kinds={sorted(stats['kinds'])} problems={len(bad)}")
    if not a.keep:
        ctx.scratch.close()
    return 1 if bad else 0


if __name__ == "__main__":
    import sys
    sys.exit(_selftest(sys.argv[1:]))
