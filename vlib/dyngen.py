"""Small generators and consumers shared by the dynamic-linking properties (C08, C32, C36, C37).

* asm sources defining exported functions that each return a unique id;
* the dlsym/dlvsym consumer (`/verif/harness/dlsym-driver.c`), compiled once per run;
* name generators (random, colliding GNU/SysV hashes, same bucket, shared prefixes).
"""
import os
import threading

from . import tools
from .common import VERIF, HarnessError, run
from .elf import elf_hash, gnu_hash

NOTE_STACK = '.section .note.GNU-stack,"",@progbits\n'
_lock = threading.Lock()
_driver = {}

ALPHA = "abcdefghijklmnopqrstuvwxyzABCDEFGHIJKLMNOPQRSTUVWXYZ_"
ALNUM = ALPHA + "0123456789"


def driver_source():
    return os.path.join(VERIF, "harness", "dlsym-driver.c")


def dlsym_driver(ctx):
    """Path of the compiled dlsym-driver executable (linked by the system toolchain: it is the
    trusted consumer, not under test)."""
    with _lock:
        key = ctx.scratch.path
        if key in _driver:
            return _driver[key]
        d = ctx.scratch.dir("driver")
        out = os.path.join(d, "dlsym-driver")
        r = run([tools.GCC, "-O1", "-o", out, driver_source(), "-ldl"], timeout=120)
        if not r.ok:
            raise HarnessError("cannot compile dlsym-driver: " + r.errtext()[:1000])
        _driver[key] = out
        return out


def dlsym_driver_obj(ctx):
    """The driver as a PIC object, to be linked by the linker under test into an -E executable."""
    return tools.compile_c(ctx, open(driver_source()).read(), ("-O1", "-fPIC"), name="dlsymdrv")


def func_asm(defs, extra=""):
    """defs: list of (symbol, id[, binding]) -> asm text. binding: 'globl' | 'weak'."""
    out = [".text\n"]
    for d in defs:
        name, ident = d[0], d[1]
        bind = d[2] if len(d) > 2 else "globl"
        out.append(f".{bind} {name}\n.type {name},@function\n{name}:\n mov ${ident},%eax\n ret\n.size {name},.-{name}\n")
    out.append(extra)
    out.append(NOTE_STACK)
    return "".join(out)


def rand_name(r, lo=1, hi=24):
    n = r.randint(lo, hi)
    return r.choice(ALPHA) + "".join(r.choice(ALNUM) for _ in range(n - 1))


def unique_names(r, n, gen, taken=None):
    taken = set() if taken is None else taken
    out = []
    tries = 0
    while len(out) < n:
        s = gen()
        tries += 1
        if tries > 200 * (n + 10):
            raise HarnessError("name generator cannot produce enough distinct names")
        if s in taken or s in RESERVED:
            continue
        taken.add(s)
        out.append(s)
    return out


RESERVED = {"main", "_start", "_init", "_fini", "_end", "_edata", "end", "edata", "etext", "_etext",
            "__bss_start", "environ", "stdin", "stdout", "stderr", "optarg", "optind", "opterr", "optopt",
            "free", "malloc", "calloc", "realloc", "exit", "abort", "printf", "puts", "read", "write",
            "open", "close", "signal", "time", "index", "select", "y0", "y1", "yn", "j0", "j1", "jn"}


def same_gnu_hash_variants(base):
    """Names with the same GNU hash as `base`: 'az' <-> 'bY' (97*33+122 == 98*33+89) applied at
    every position where it fits."""
    outs = {base}
    for a, b in (("az", "bY"), ("bY", "az"), ("cz", "dY"), ("dY", "cz")):
        for s in list(outs):
            i = s.find(a)
            while i >= 0:
                outs.add(s[:i] + b + s[i + 2:])
                i = s.find(a, i + 1)
    h = gnu_hash(base)
    return sorted(x for x in outs if gnu_hash(x) == h)


def same_sysv_hash_variants(base):
    """Names with the same SysV hash: 'aq' <-> 'ba' (97*16+113 == 98*16+97)."""
    outs = {base}
    for a, b in (("aq", "ba"), ("ba", "aq"), ("cq", "da"), ("da", "cq")):
        for s in list(outs):
            i = s.find(a)
            while i >= 0:
                outs.add(s[:i] + b + s[i + 2:])
                i = s.find(a, i + 1)
    h = elf_hash(base)
    return sorted(x for x in outs if elf_hash(x) == h)


def names_same_low_bits(r, n, hashfn, bits=10, taken=None):
    """n distinct names whose hash agrees in the low `bits` bits (same bucket for every
    power-of-two bucket count up to 2**bits) - found by rejection sampling."""
    target = r.getrandbits(bits)
    mask = (1 << bits) - 1
    taken = set() if taken is None else taken
    out = []
    while len(out) < n:
        s = rand_name(r, 3, 14)
        if (hashfn(s) & mask) == target and s not in taken and s not in RESERVED:
            taken.add(s)
            out.append(s)
    return out
