"""Static unwind-table oracle for C10: what `.eh_frame` / `.eh_frame_hdr` of a linked output must
contain, computed from the INPUT objects plus where each input section was placed.

    pl = WildPlacement(layout)  |  MapPlacement(ld_map_text, files)
    an = analyse(out_path, files, model, pl)      # -> Analysis(.findings, .expected, .stats ...)

`files` / `model` come from vlib.gcmodel (the loaded objects in link order; symbol resolution and
COMDAT losers). Nothing here trusts the linker's own idea of which FDE belongs to which function.
"""
import os
import re

from . import elf as E
from . import ehframe

LINKER_CODE = (".plt", ".plt.got", ".plt.sec", ".iplt", ".plt.bnd")


class WildPlacement:
    name = "wild"

    def __init__(self, layout):
        self.fl = layout["files"]

    def range(self, fi, si):
        secs = self.fl[fi]["sections"]
        if si < len(secs) and secs[si] is not None:
            return secs[si]
        return None

    def ambiguous(self, fi, si):
        return False


_MAP1 = re.compile(r"^ (\S+)\s+0x([0-9a-f]+)\s+0x([0-9a-f]+) (\S.*)$")
_MAP2 = re.compile(r"^ (\S+)$")
_MAP3 = re.compile(r"^\s+0x([0-9a-f]+)\s+0x([0-9a-f]+) (\S.*)$")


def parse_ld_map(text):
    """(file label, section name) -> list of (addr, size) from a GNU ld -Map file."""
    out = {}
    in_map = False
    pending = None
    for line in text.splitlines():
        if not in_map:
            if line.startswith("Linker script and memory map"):
                in_map = True
            continue
        m = _MAP1.match(line)
        name = None
        if m:
            name, addr, size, fn = m.group(1), int(m.group(2), 16), int(m.group(3), 16), m.group(4)
            pending = None
        else:
            m2 = _MAP2.match(line)
            if m2:
                pending = m2.group(1)
                continue
            m3 = _MAP3.match(line)
            if m3 and pending:
                name, addr, size, fn = pending, int(m3.group(1), 16), int(m3.group(2), 16), m3.group(3)
            pending = None
        if name is None or name.startswith("*") or name.startswith("("):
            continue
        mm = re.match(r"^(.*)\(([^()]*)\)$", fn)
        if mm:
            label = os.path.basename(mm.group(1)) + "(" + mm.group(2) + ")"
        else:
            label = os.path.basename(fn)
        out.setdefault((label, name), []).append((addr, size))
    return out


class MapPlacement:
    """Placement of input sections according to a GNU ld map file (matched by file label and
    section name; names that occur twice in one object are ambiguous and never used)."""
    name = "ld"

    def __init__(self, map_text, files):
        self.map = parse_ld_map(map_text)
        self.files = files
        self._dups = {}

    def _dup(self, fi):
        d = self._dups.get(fi)
        if d is None:
            cnt = {}
            for s in self.files[fi].elf.sections:
                if s.alloc:
                    cnt[s.name] = cnt.get(s.name, 0) + 1
            d = self._dups[fi] = set(n for n, c in cnt.items() if c > 1)
        return d

    def ambiguous(self, fi, si):
        f = self.files[fi]
        return f.elf.sections[si].name in self._dup(fi)

    def range(self, fi, si):
        f = self.files[fi]
        s = f.elf.sections[si]
        if s.name in self._dup(fi):
            return None
        lst = self.map.get((f.label, s.name))
        if not lst or len(lst) != 1:
            return None
        a, sz = lst[0]
        if sz == 0 and s.size != 0:
            return None
        return (a, a + sz)


class Analysis:
    def __init__(self):
        self.findings = []       # (signature, detail)
        self.expected = {}       # pc_begin -> dict(size, file, sec, lsda, ...)
        self.nofde_funcs = []    # (addr, name) of FUNC symbols in placed code not covered by any input FDE
        self.stats = {}
        self.out_fdes = {}

    def add(self, sig, detail):
        self.findings.append((sig, detail))


_eh_cache = {}


def _input_eh(f):
    key = (f.path, f.member)
    v = _eh_cache.get(key)
    if v is None:
        if len(_eh_cache) > 4000:
            _eh_cache.clear()
        v = _eh_cache[key] = ehframe.input_eh(f.elf)
    return v


def expected_fdes(files, model, pl, an):
    """Fills an.expected / an.nofde_funcs from the inputs and the placement."""
    amb = 0
    dropped = comdat_lost = 0
    for f in files:
        if f is None:
            continue
        if not any(s.name == ".eh_frame" for s in f.elf.sections):
            fdes = []
        else:
            fdes, _problems = _input_eh(f)
        covered = {}
        for x in fdes:
            if x.ambiguous or x.sec is None:
                amb += 1
                continue
            if x.size == 0:
                continue
            covered.setdefault(x.sec, []).append((x.addend, x.addend + x.size))
            if x.sec in f.discarded:
                comdat_lost += 1
                continue
            if pl.ambiguous(f.index, x.sec):
                amb += 1
                continue
            rg = pl.range(f.index, x.sec)
            if rg is None:
                dropped += 1
                continue
            pc = rg[0] + x.addend
            an.expected[pc] = dict(size=x.size, file=f, sec=x.sec, x=x)
        # functions without unwind info (hand-written asm): FUNC symbols in placed code sections
        for sy in f.syms:
            if sy.type != E.STT_FUNC or sy.shndx in (E.SHN_UNDEF, E.SHN_ABS, E.SHN_COMMON) or sy.shndx >= len(f.elf.sections):
                continue
            if sy.shndx in f.discarded or sy.size == 0:
                continue
            if any(a <= sy.value < b for a, b in covered.get(sy.shndx, ())):
                continue
            rg = pl.range(f.index, sy.shndx)
            if rg is None or pl.ambiguous(f.index, sy.shndx):
                continue
            an.nofde_funcs.append((rg[0] + sy.value, sy.name, f))
    an.stats.update(ambiguous_input_fdes=amb, input_fdes_of_discarded_sections=dropped, input_fdes_of_comdat_losers=comdat_lost)


def _resolve(model, pl, f, t, e_out_syms):
    """Address a relocation target of an input .eh_frame should have in the output, or None."""
    if t is None:
        return None
    if t[0] == "sec":
        idx, add, name = t[1], t[2], t[3]
        if idx in f.discarded:
            # a COMDAT loser: the kept copy is found through the symbol name
            if not name:
                return None
            d = model.defs.get(name)
            if d is None:
                return None
            df, ds = d
            rg = pl.range(df.index, ds.shndx)
            if rg is None:
                return None
            # addend relative to the symbol: add - (value of the symbol in this file) is unknown for
            # section symbols; named symbols only
            for sy in f.syms:
                if sy.name == name and sy.shndx == idx:
                    return rg[0] + ds.value + (add - sy.value)
            return None
        rg = pl.range(f.index, idx)
        if rg is None:
            return None
        return rg[0] + add
    name, add = t[1], t[2]
    d = model.defs.get(name)
    if d is not None:
        df, ds = d
        if ds.shndx == E.SHN_ABS:
            return ds.value + add
        rg = pl.range(df.index, ds.shndx)
        if rg is None:
            return None
        return rg[0] + ds.value + add
    v = e_out_syms.get(name)
    return None if v is None else v + add


def analyse(out_path, files, model, pl, want_hdr=True):
    an = Analysis()
    e = E.Elf(out_path)
    eh = e.section(".eh_frame")
    hdr = e.section(".eh_frame_hdr")
    expected_fdes(files, model, pl, an)
    if eh is None or eh.type == E.SHT_NOBITS:
        if an.expected:
            an.add("eh-frame-missing", f"{len(an.expected)} retained functions had FDEs in the inputs; the output has no .eh_frame")
        return an
    recs = ehframe.parse_eh_frame(e.sec_data(eh), eh.addr)
    for p in recs.problems[:3]:
        an.add("eh-frame-unparsable", p)
    if recs.after_terminator:
        an.add("eh-frame-records-after-terminator", f"{recs.after_terminator} CIE/FDE records follow a zero terminator at "
                                                     f".eh_frame+{recs.terminator_at:#x} (a linear walk never sees them)")
    fdes = recs.fdes
    an.stats["output_fdes"] = len(fdes)
    an.stats["output_cies"] = len(recs.cies)
    execs = [(s.addr, s.addr + s.size, s.name) for s in e.sections if s.alloc and (s.flags & E.SHF_EXECINSTR) and s.size]

    def exec_sec(a):
        for lo, hi, nm in execs:
            if lo <= a < hi:
                return (lo, hi, nm)
        return None
    by_pc = {}
    for f in fdes:
        if f.cie is None:
            continue
        if f.pc_begin in by_pc:
            an.add("two-fdes-for-one-address", f"FDEs at .eh_frame+{by_pc[f.pc_begin].off:#x} and +{f.off:#x} both start at {f.pc_begin:#x}")
        by_pc[f.pc_begin] = f
    an.out_fdes = by_pc
    # ---- header ---------------------------------------------------------------------------------------
    if hdr is None:
        if want_hdr and fdes:
            an.add("eh-frame-hdr-missing", "--eh-frame-hdr was given, the output has FDEs but no .eh_frame_hdr")
    else:
        seg = [p for p in e.segments if p.type == E.PT_GNU_EH_FRAME]
        if not seg:
            an.add("hdr-no-pt-gnu-eh-frame", ".eh_frame_hdr exists but there is no PT_GNU_EH_FRAME segment")
        elif seg[0].vaddr != hdr.addr:
            an.add("hdr-segment-mismatch", f"PT_GNU_EH_FRAME p_vaddr {seg[0].vaddr:#x} != .eh_frame_hdr address {hdr.addr:#x}")
        try:
            h = ehframe.parse_eh_frame_hdr(e.sec_data(hdr), hdr.addr)
        except (ehframe.EhError, IndexError, Exception) as ex:     # noqa: B014
            h = None
            an.add("hdr-unparsable", str(ex)[:120])
        if h is not None:
            an.stats["hdr_encodings"] = f"{h.eh_frame_ptr_enc:#x}/{h.fde_count_enc:#x}/{h.table_enc:#x}"
            if h.eh_frame_ptr != eh.addr:
                an.add("hdr-eh-frame-ptr-wrong", f"eh_frame_ptr decodes to {h.eh_frame_ptr:#x}, .eh_frame is at {eh.addr:#x}")
            if h.fde_count is None or h.table_enc == ehframe.DW_EH_PE_omit:
                if fdes:
                    an.add("hdr-no-search-table", "header has no binary search table although the output has FDEs")
            else:
                if h.fde_count != len(fdes):
                    an.add("hdr-count-mismatch:" + ("fewer" if h.fde_count < len(fdes) else "more"),
                           f"fde_count={h.fde_count}, .eh_frame holds {len(fdes)} FDEs")
                locs = [a for a, _b in h.table]
                if any(locs[i] > locs[i + 1] for i in range(len(locs) - 1)):
                    i = next(i for i in range(len(locs) - 1) if locs[i] > locs[i + 1])
                    an.add("hdr-table-unsorted", f"entry {i} starts at {locs[i]:#x}, entry {i + 1} at {locs[i + 1]:#x}")
                elif len(set(locs)) != len(locs):
                    an.add("hdr-table-duplicate-start", "two table entries have the same initial location")
                fde_at = {eh.addr + f.off: f for f in fdes}
                seen = set()
                bad = 0
                for a, b in h.table:
                    f = fde_at.get(b)
                    if f is None:
                        if not bad:
                            an.add("hdr-entry-not-an-fde", f"entry for {a:#x} points to {b:#x} which is not the start of an FDE")
                        bad += 1
                        continue
                    if f.pc_begin != a:
                        if not bad:
                            an.add("hdr-entry-start-mismatch", f"entry says {a:#x}, the FDE it points to starts at {f.pc_begin:#x}")
                        bad += 1
                    seen.add(b)
                if not bad and h.fde_count == len(fdes) and len(seen) != len(fdes):
                    an.add("hdr-fde-without-entry", f"{len(fdes) - len(seen)} FDEs are not referenced by any table entry")
                an.stats["hdr_entries"] = len(h.table)
    # ---- FDE set ----------------------------------------------------------------------------------------
    linker_made = 0
    out_syms = {}
    for sy in e.symtab():
        if sy.name and sy.defined and sy.type not in (E.STT_SECTION, E.STT_FILE):
            out_syms.setdefault(sy.name, sy.value)
    for pc, f in sorted(by_pc.items()):
        if pc in an.expected:
            continue
        xs = exec_sec(pc)
        if xs is not None and xs[2] in LINKER_CODE:
            linker_made += 1
            continue
        if pc == 0 or xs is None:
            an.add("fde-for-discarded-function:dangling", f"FDE at .eh_frame+{f.off:#x} describes {pc:#x}..+{f.pc_range:#x}, which is not inside any "
                                                           "executable section of the output")
        else:
            an.add("fde-for-discarded-function:unexpected", f"FDE at .eh_frame+{f.off:#x} describes {pc:#x}..+{f.pc_range:#x} in {xs[2]}; no retained "
                                                             "input function with unwind info starts there")
    an.stats["linker_made_fdes"] = linker_made
    missing = [pc for pc in an.expected if pc not in by_pc]
    for pc in sorted(missing)[:3]:
        x = an.expected[pc]
        an.add("fde-missing-for-retained-function", f"{x['file'].label}:{x['file'].elf.sections[x['sec']].name}+{x['x'].addend:#x} was placed at "
                                                     f"{pc:#x} and has an FDE in its input; the output has none for it ({len(missing)} missing in all)")
    # ---- per-FDE content -------------------------------------------------------------------------------
    checked = lsda_checked = pers_checked = 0
    for pc, x in an.expected.items():
        f = by_pc.get(pc)
        if f is None or f.cie is None:
            continue
        ix = x["x"]
        checked += 1
        if f.pc_range != ix.size:
            an.add("fde-range-differs", f"function at {pc:#x}: input FDE covers {ix.size:#x} bytes, output FDE {f.pc_range:#x}")
        xs = exec_sec(pc)
        if xs is None or pc + f.pc_range > xs[1]:
            an.add("fde-range-outside-code", f"function at {pc:#x}+{f.pc_range:#x} is not inside one executable output section")
        if f.cie.aug != ix.cie.aug or f.cie.code_align != ix.cie.code_align or f.cie.data_align != ix.cie.data_align or f.cie.ra != ix.cie.ra:
            an.add("fde-cie-differs", f"function at {pc:#x}: input CIE aug={ix.cie.aug!r}, output CIE aug={f.cie.aug!r}")
        elif ehframe.strip_nops(f.cie.insns) != ix.cie.insns:
            an.add("fde-cie-instructions-differ", f"function at {pc:#x}: CIE initial instructions changed")
        if ehframe.strip_nops(f.insns) != ix.insns:
            an.add("fde-instructions-differ", f"function at {pc:#x}: call-frame instructions differ from the input FDE's")
        if ix.lsda is not None:
            want = _resolve(model, pl, x["file"], ix.lsda, out_syms)
            if want is not None:
                lsda_checked += 1
                if f.lsda != want:
                    an.add("fde-lsda-wrong", f"function at {pc:#x}: LSDA pointer is {f.lsda if f.lsda is None else hex(f.lsda)}, the input names "
                                             f"{want:#x}")
        elif f.lsda:
            an.add("fde-lsda-wrong", f"function at {pc:#x}: output FDE has an LSDA pointer, the input FDE has none")
        if ix.cie.pers is not None:
            want = _resolve(model, pl, x["file"], ix.cie.pers, out_syms)
            if want is not None:
                pers_checked += 1
                if f.cie.pers_val != want:
                    an.add("fde-personality-wrong", f"function at {pc:#x}: personality pointer {f.cie.pers_val if f.cie.pers_val is None else hex(f.cie.pers_val)}"
                                                    f", the input CIE names {want:#x}")
        elif f.cie.pers_val is not None:
            an.add("fde-personality-wrong", f"function at {pc:#x}: output CIE has a personality, the input CIE has none")
    an.stats.update(expected_fdes=len(an.expected), fdes_compared=checked, lsda_checked=lsda_checked, personality_checked=pers_checked)
    # one finding per signature
    seen = set()
    uniq = []
    for s, d in an.findings:
        if s not in seen:
            seen.add(s)
            uniq.append((s, d))
    an.findings = uniq
    return an
