"""Generator of links with many small objects in dense cross-reference graphs (C39, C06, C26)."""
import os

from . import tools
from .common import pmap, write


def gen_sources(r, n, fns_per_obj=3, fanout=3, start_stop=True, strings=True):
    """Returns list of asm sources. Object i defines f{i}_{k} (each in its own section so GC and
    cross-group requests matter), data d{i}, and optionally entries in custom sections."""
    srcs = []
    for i in range(n):
        s = []
        for k in range(fns_per_obj):
            s.append(f'.section .text.f{i}_{k},"ax",@progbits\n.globl f{i}_{k}\n.type f{i}_{k},@function\nf{i}_{k}:\n')
            for _ in range(r.randint(0, fanout)):
                j, kk = r.randrange(n), r.randrange(fns_per_obj)
                s.append(f"    call f{j}_{kk}\n")
            if r.random() < 0.3:
                j = r.randrange(n)
                s.append(f"    lea d{j}(%rip),%rax\n")
            s.append("    ret\n")
        s.append(f'.section .data.d{i},"aw",@progbits\n.globl d{i}\nd{i}: .quad f{r.randrange(n)}_{r.randrange(fns_per_obj)}\n .quad {i}\n')
        if start_stop and r.random() < 0.3:
            sec = f"myset{r.randrange(4)}"
            s.append(f'.section {sec},"aw",@progbits\n.quad f{i}_0\n')
        if strings:
            s.append('.section .rodata.str1.1,"aMS",@progbits,1\n')
            for _ in range(r.randint(1, 4)):
                s.append(f'.string "common string {r.randrange(20)}"\n')
            s.append(f'.string "unique string of object {i}"\n')
        srcs.append("".join(s))
    return srcs


def gen_main(r, n, fns_per_obj=3, roots=8, start_stop=True):
    s = ['.globl _start\n.section .text._start,"ax",@progbits\n_start:\n']
    for _ in range(roots):
        s.append(f"    call f{r.randrange(n)}_{r.randrange(fns_per_obj)}\n")
    if start_stop:
        for k in range(4):
            s.append(f"    lea __start_myset{k}(%rip),%rax\n    lea __stop_myset{k}(%rip),%rdx\n")
    s.append("    mov $60,%eax\n    xor %edi,%edi\n    syscall\n")
    if start_stop:
        for k in range(4):
            s.append(f'.section myset{k},"aw",@progbits\n.quad 0\n')
    return "".join(s)


def build(ctx, r, n, tag, **kw):
    """Assembles n objects + main; returns list of object paths (main first)."""
    srcs = [gen_main(r, n, kw.get("fns_per_obj", 3), start_stop=kw.get("start_stop", True))] + gen_sources(r, n, **kw)
    return pmap(lambda t: tools.assemble(ctx, t[1], name=f"{tag}-{t[0]}"), list(enumerate(srcs)))


def build_pingpong(ctx, r, pairs, chain, tag):
    """Pairs of objects whose functions call each other alternately (a_0 -> b_0 -> a_1 -> b_1 ...), each
    function in its own section: with one file per group every hop is a cross-group request that
    arrives just as the requesting group runs out of work - the hand-off window of the slot protocol."""
    srcs = ['.globl _start\n.section .text._start,"ax",@progbits\n_start:\n' +
            "".join(f"    call pa{p}_0\n" for p in range(pairs)) + "    mov $60,%eax\n    xor %edi,%edi\n    syscall\n"]
    for p in range(pairs):
        a, b = [], []
        for k in range(chain):
            a.append(f'.section .text.pa{p}_{k},"ax",@progbits\n.globl pa{p}_{k}\npa{p}_{k}:\n    call pb{p}_{k}\n    ret\n')
            nxt = f"    call pa{p}_{k + 1}\n" if k + 1 < chain else ""
            b.append(f'.section .text.pb{p}_{k},"ax",@progbits\n.globl pb{p}_{k}\npb{p}_{k}:\n{nxt}    ret\n')
        srcs.append("".join(a))
        srcs.append("".join(b))
    return pmap(lambda t: tools.assemble(ctx, t[1], name=f"{tag}-{t[0]}"), list(enumerate(srcs)))
