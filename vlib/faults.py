"""Helpers for the hook-driven fault / pause machinery (H1) shared by C17, C18, C20, C35, C21."""
import os
import threading

from . import tools
from .common import HarnessError, run, write

START_S = """.globl _start
.text
_start:
    call f1
    mov %eax,%edi
    mov $60,%eax
    syscall
.section .rodata.str1.1,"aMS",@progbits,1
.string "hello from start"
"""

F_S = """.globl f{i}
.text
f{i}:
    {body}
    ret
.data
.globl d{i}
d{i}: .quad f{i}
.section .rodata.str1.1,"aMS",@progbits,1
.string "string number {i}"
.string "hello from start"
"""


def small_objects(ctx, n=3, tag="base"):
    """A tiny freestanding program: _start calls f1 -> f2 -> ... -> fn, exits with fn's value (n)."""
    objs = [tools.assemble(ctx, START_S, name=f"{tag}-start")]
    for i in range(1, n + 1):
        body = f"call f{i + 1}" if i < n else f"mov ${n},%eax"
        objs.append(tools.assemble(ctx, F_S.format(i=i, body=body), name=f"{tag}-f{i}"))
    return objs


def parse_phaselog(path):
    """Returns list of (pid, 'name#n') in order, and list of fault lines."""
    phases, faults = [], []
    try:
        lines = open(path).read().splitlines()
    except FileNotFoundError:
        return phases, faults
    for ln in lines:
        pid, _, rest = ln.partition(" ")
        if rest.startswith("FAULT "):
            faults.append((int(pid), rest[6:]))
        else:
            phases.append((int(pid), rest))
    return phases, faults


def record_phases(args, workdir, env=None, timeout=120):
    """Runs wild once undisturbed with the phase log on; returns (Result, phases)."""
    log = os.path.join(workdir, "phase.log")
    if os.path.exists(log):
        os.unlink(log)
    e = {"WILD_VERIF_PHASELOG": log}
    if env:
        e.update(env)
    r = tools.link("wild", args, extra_env=e, timeout=timeout, cwd=workdir)
    phases, _ = parse_phaselog(log)
    return r, phases


class PauseSession:
    """Runs wild with pause points; `wait()` blocks until a pause point is reached and returns its
    name; `resume()` lets it continue. Use as:
        s = PauseSession(args, workdir, ["Resolve symbols#1"]); s.start()
        hit = s.wait(); ...act...; s.resume(); res = s.finish()
    """

    def __init__(self, args, workdir, points, extra_env=None, timeout=120):
        self.args, self.workdir, self.points = args, workdir, points
        self.extra_env = extra_env or {}
        self.timeout = timeout
        self.notify = os.path.join(workdir, "notify.fifo")
        self.resume_f = os.path.join(workdir, "resume.fifo")
        for p in (self.notify, self.resume_f):
            if os.path.exists(p):
                os.unlink(p)
            os.mkfifo(p)
        self.result = None
        self._thr = None

    def start(self):
        env = {"WILD_VERIF_PAUSE": "|".join(self.points), "WILD_VERIF_PAUSE_NOTIFY": self.notify,
               "WILD_VERIF_PAUSE_RESUME": self.resume_f}
        env.update(self.extra_env)

        def go():
            self.result = tools.link("wild", self.args, extra_env=env, timeout=self.timeout, cwd=self.workdir)
        self._thr = threading.Thread(target=go, daemon=True)
        self._thr.start()

    def wait(self, timeout=60):
        """Returns 'pid name#n' of the pause point reached, or None if the process ended first."""
        box = []

        def rd():
            try:
                # Opening blocks until wild opens the fifo for writing.
                with open(self.notify) as f:
                    box.append(f.readline().strip())
            except OSError:
                pass
        t = threading.Thread(target=rd, daemon=True)
        t.start()
        waited = 0.0
        while t.is_alive() and waited < timeout:
            t.join(0.05)
            waited += 0.05
            if self._thr is not None and not self._thr.is_alive() and not box:
                # process finished without reaching a pause point: unblock the reader
                try:
                    fd = os.open(self.notify, os.O_WRONLY | os.O_NONBLOCK)
                    os.close(fd)
                except OSError:
                    pass
                t.join(1)
                break
        return box[0] if box and box[0] else None

    def resume(self, timeout=30):
        """Writes the resume byte. Returns False if wild never opened the resume fifo."""
        import errno
        import time
        t0 = time.time()
        while time.time() - t0 < timeout:
            try:
                fd = os.open(self.resume_f, os.O_WRONLY | os.O_NONBLOCK)
            except OSError as ex:
                if ex.errno == errno.ENXIO:
                    if self._thr is not None and not self._thr.is_alive():
                        return False
                    time.sleep(0.002)
                    continue
                return False
            try:
                os.write(fd, b"x")
            finally:
                os.close(fd)
            return True
        return False

    def finish(self, timeout=None):
        self._thr.join(timeout or self.timeout + 20)
        return self.result
