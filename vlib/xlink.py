"""Helpers shared by the "generated program -> link with wild / GNU ld / lld -> run -> transcript"
drivers (C02, C03, C30, C33, C38)."""
import os
import struct

from . import elf as elfmod
from . import tools
from .common import run, write


def glink(ctx, kind, args, out, extra_env=None, timeout=180, driver=None):
    """Link through gcc -B<dir> with linker `kind` to a fresh output path."""
    tools.fresh(out)
    return tools.gcc_link(ctx, kind, list(args), out, timeout=timeout, extra_env=extra_env, driver=driver)


def runprog(exe, libdirs=(), args=(), timeout=30, extra_env=None):
    env = {"LD_LIBRARY_PATH": ":".join(libdirs)} if libdirs else {}
    if extra_env:
        env.update(extra_env)
    return run([exe, *args], timeout=timeout, extra_env=env, cwd=os.path.dirname(exe))


def linked_ok(res, out):
    return res.ok and os.path.exists(out)


def cmdline_text(kind, args, out, env=None):
    e = " ".join(f"{k}={v}" for k, v in (env or {}).items())
    return (e + " " if e else "") + f"gcc -B<dir-with-ld->{kind}> " + " ".join(args) + f" -o {os.path.basename(out)}\n"


def pointer_array(e, secname):
    """Decodes an output section holding 8-byte pointers into link-time addresses, applying
    R_X86_64_RELATIVE (.rela.dyn addend) and RELR (in-place) relocations. Returns list or None."""
    s = e.section(secname)
    if s is None or s.type == elfmod.SHT_NOBITS:
        return None
    data = e.sec_data(s)
    rel = {}
    for rs in e.rela_sections():
        if not rs.name.startswith(".rela.dyn"):
            continue
        for r in e.relas(rs):
            if r.type == elfmod.R_X86_64["RELATIVE"]:
                rel[r.offset] = r.addend & ((1 << 64) - 1)
    out = []
    for i in range(len(data) // 8):
        a = s.addr + 8 * i
        v = struct.unpack_from("<Q", data, 8 * i)[0]
        if a in rel:
            v = rel[a]
        out.append(v)
    return out


def addr_names(e, prefix=None):
    """value -> name for defined symbols of .symtab (optionally only names with the prefix)."""
    m = {}
    for sy in e.symtab():
        if not sy.name or not sy.defined or sy.type in (elfmod.STT_SECTION, elfmod.STT_FILE):
            continue
        if prefix and not sy.name.startswith(prefix):
            continue
        m.setdefault(sy.value, sy.name)
    return m


def save_files(d, files):
    """Writes {name: text} into directory d; returns {name: path}."""
    out = {}
    for n, t in files.items():
        out[n] = write(os.path.join(d, n), t)
    return out
