"""Helpers shared by the "generated program -> link with wild / GNU ld / lld -> run -> transcript"
drivers (C02, C03, C30, C33, C38)."""
import os
import struct

from . import elf as elfmod
from . import tools
from .common import run, write


def glink(ctx, kind, args, out, extra_env=None, timeout=180, driver=None):
    """Link through gcc -B<dir> with linker `kind` to a fresh output path."""
    tools.fresh(out)
    return tools.gcc_link(ctx, kind, list(args), out, timeout=timeout, extra_env=extra_env, driver=driver)


def runprog(exe, libdirs=(), args=(), timeout=30, extra_env=None):
    env = {"LD_LIBRARY_PATH": ":".join(libdirs)} if libdirs else {}
    if extra_env:
        env.update(extra_env)
    return run([exe, *args], timeout=timeout, extra_env=env, cwd=os.path.dirname(exe))


def linked_ok(res, out):
    return res.ok and os.path.exists(out)


def cmdline_text(kind, args, out, env=None):
    e = " ".join(f"{k}={v}" for k, v in (env or {}).items())
    return (e + " " if e else "") + f"gcc -B<dir-with-ld->{kind}> " + " ".join(args) + f" -o {os.path.basename(out)}\n"


def pointer_array(e, secname):
    """Decodes an output section holding 8-byte pointers into link-time addresses, applying
    R_X86_64_RELATIVE (.rela.dyn addend) and RELR (in-place) relocations. Returns list or None."""
    s = e.section(secname)
    if s is None or s.type == elfmod.SHT_NOBITS:
        return None
    data = e.sec_data(s)
    rel = {}
    for rs in e.rela_sections():
        if not rs.name.startswith(".rela.dyn"):
            continue
        for r in e.relas(rs):
            if r.type == elfmod.R_X86_64["RELATIVE"]:
                rel[r.offset] = r.addend & ((1 << 64) - 1)
    out = []
    for i in range(len(data) // 8):
        a = s.addr + 8 * i
        v = struct.unpack_from("<Q", data, 8 * i)[0]
        if a in rel:
            v = rel[a]
        out.append(v)
    return out


def addr_names(e, prefix=None):
    """value -> name for defined symbols of .symtab (optionally only names with the prefix)."""
    m = {}
    for sy in e.symtab():
        if not sy.name or not sy.defined or sy.type in (elfmod.STT_SECTION, elfmod.STT_FILE):
            continue
        if prefix and not sy.name.startswith(prefix):
            continue
        m.setdefault(sy.value, sy.name)
    return m


def save_files(d, files):
    """Writes {name: text} into directory d; returns {name: path}."""
    out = {}
    for n, t in files.items():
        out[n] = write(os.path.join(d, n), t)
    return out


# ---- race-free compile cache + reproducible recipes ----------------------------------------------
import threading  # noqa: E402

_cc_locks = [threading.Lock() for _ in range(64)]


def cc(ctx, src, flags=(), lang="c", compiler=None):
    """tools.compile_c, serialised per content key: two threads compiling the same source would
    otherwise replace the cached object while a third is already linking it (wild then reports
    'file was changed while we were running')."""
    from .common import sha
    k = int(sha((compiler or "") + lang + "\0".join(flags) + src)[:8], 16) % len(_cc_locks)
    with _cc_locks[k]:
        return tools.compile_c(ctx, src, tuple(flags), lang=lang, compiler=compiler)


def make_archive(path, members, thin=False):
    """Like tools.make_archive with a watchdog that tolerates a heavily loaded machine."""
    from .common import HarnessError
    for attempt in range(3):
        if os.path.exists(path):
            os.unlink(path)
        r = run([tools.AR, "rcsT" if thin else "rcs", path, *members], timeout=300)
        if r.ok:
            return path
    raise HarnessError(f"ar failed: rc={r.rc} timed_out={r.timed_out} {r.errtext()}")


class Recipe:
    """Records how a case's inputs were built so a violation can be replayed with plain commands
    (sources + repro.sh in the replay dir)."""

    def __init__(self, ctx, d):
        self.ctx, self.d = ctx, d
        self.names = {}
        self.srcs = {}
        self.steps = []

    def obj(self, name, src, flags=(), lang="c", compiler=None):
        p = cc(self.ctx, src, flags, lang, compiler)
        ext = {"c": ".c", "s": ".s", "c++": ".cc", "S": ".S"}[lang]
        self.srcs[name + ext] = src
        self.names.setdefault(p, name + ".o")
        comp = os.path.basename(compiler) if compiler else ("g++" if lang == "c++" else "gcc")
        self.steps.append(f"{comp} -c {' '.join(flags)} {name}{ext} -o {self.names[p]}")
        return p

    def archive(self, name, members, thin=False):
        path = os.path.join(self.d, name)
        make_archive(path, members, thin=thin)
        self.names[path] = name
        self.steps.append(f"rm -f {name}; ar {'rcsT' if thin else 'rcs'} {name} " + " ".join(self.sub(members)))
        return path

    def name(self, path, name):
        self.names[path] = name
        return path

    def sub(self, args):
        out = []
        for a in args:
            a = str(a)
            for p, n in self.names.items():
                if p in a:
                    a = a.replace(p, n)
            out.append(a)
        return out

    def link(self, kind, args, out, extra_env=None, timeout=180, note=True, driver=None):
        """gcc -B link with `kind`, recorded in the recipe."""
        res = glink(self.ctx, kind, args, out, extra_env=extra_env, timeout=timeout, driver=driver)
        if note:
            env = " ".join(f"{k}={v}" for k, v in (extra_env or {}).items())
            outn = self.names.get(out, os.path.relpath(out, self.d).replace("/", "_"))
            self.names.setdefault(out, outn)
            drv = os.path.basename(driver) if driver else "gcc"
            self.steps.append(f"{env + ' ' if env else ''}{drv} -B$B_{kind.upper()} " + " ".join(self.sub(args)) + f" -o {outn}"
                              + ("" if res.ok else f"   # failed rc={res.rc}"))
        return res

    def step(self, text):
        self.steps.append(text)

    def files(self, extra=None):
        sh = ("#!/bin/sh\n# B_WILD / B_LD / B_LLD: directories containing a symlink `ld` to wild / ld.bfd / ld.lld\n"
              "# e.g. mkdir -p bw bl bd; ln -sf /verif/.build/hook/opt/wild bw/ld; ln -sf $(which ld.bfd) bl/ld; "
              "ln -sf $(which ld.lld) bd/ld\n: ${B_WILD:=bw} ${B_LD:=bl} ${B_LLD:=bd}\nset -x\n" + "\n".join(self.steps) + "\n")
        f = dict(self.srcs)
        f["repro.sh"] = sh
        if extra:
            f.update(extra)
        return f


class SigLimiter:
    """Saves at most `n` witnesses per signature per run; the rest are only counted."""

    def __init__(self, ctx, n=2):
        self.ctx, self.n, self.c, self.lock = ctx, n, {}, threading.Lock()

    def violation(self, sig, desc, **kw):
        with self.lock:
            k = self.c[sig] = self.c.get(sig, 0) + 1
        self.ctx.note("violating-cases:" + sig)
        if k <= self.n or str(kw.get("case", "")).startswith("pinned"):
            self.ctx.violation(sig, desc, **kw)
