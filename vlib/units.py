"""Runs the in-process `units` harness (/verif/harness/units) and parses its JSON-lines output."""
import json

from . import build
from .common import HarnessError, run


def units_bin():
    return build.ensure("units")["units"]


def run_units(args, timeout=3600, extra_env=None):
    """Returns (counts, mismatches, others): lists of dict records by type. Raises HarnessError when
    the harness itself fails (a crash of the harness is machinery failure: panics inside wild code
    are caught per case by the harness and come back as mismatch records)."""
    exe = units_bin()
    res = run([exe] + [str(a) for a in args], timeout=timeout, extra_env=extra_env)
    if res.timed_out:
        raise HarnessError(f"units {args}: watchdog fired after {timeout}s")
    if res.rc != 0:
        raise HarnessError(f"units {args}: exit {res.rc}: {res.errtext()[-1500:]}")
    counts, mism, others = [], [], []
    for line in res.outtext().splitlines():
        line = line.strip()
        if not line.startswith("{"):
            continue
        try:
            d = json.loads(line)
        except ValueError as ex:
            raise HarnessError(f"units {args}: unparsable record {line[:200]!r}: {ex}")
        t = d.get("t")
        (counts if t == "count" else mism if t == "mismatch" else others).append(d)
    if not counts and not others:
        raise HarnessError(f"units {args}: produced no records")
    return counts, mism, others
