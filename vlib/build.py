"""Builds wild / linker-diff / harness crates from /repo's current working tree.

Every check calls ensure(<variant>) first; cargo makes that a no-op when nothing changed and a
real rebuild when /repo was edited, so a check never runs against a stale binary.
"""
import fcntl
import os
import shutil
import subprocess
import time

from .common import BUILD, REPO, VERIF, HarnessError, log

NIGHTLY_TARGET = "x86_64-unknown-linux-gnu"

_done = {}


def _env(extra):
    e = dict(os.environ)
    e["CARGO_NET_OFFLINE"] = "true"
    e.pop("RUSTFLAGS", None)
    e.update(extra)
    return e


def _cargo(args, env, cwd, logname, timeout=3600):
    os.makedirs(BUILD, exist_ok=True)
    logpath = os.path.join(BUILD, logname + ".log")
    lock = open(os.path.join(BUILD, logname + ".lock"), "w")
    fcntl.flock(lock, fcntl.LOCK_EX)
    try:
        t0 = time.time()
        with open(logpath, "w") as lf:
            p = subprocess.run(args, env=env, cwd=cwd, stdout=lf, stderr=subprocess.STDOUT,
                               timeout=timeout)
        if p.returncode != 0:
            tail = open(logpath).read()[-3000:]
            raise HarnessError(f"build {logname} failed (see {logpath}):\n{tail}")
        return time.time() - t0
    finally:
        fcntl.flock(lock, fcntl.LOCK_UN)
        lock.close()


def ensure(variant="hook"):
    """Returns a dict of binary paths for the variant, building if needed."""
    if variant in _done:
        return _done[variant]
    if variant == "hook":
        td = os.path.join(BUILD, "hook")
        _cargo(["cargo", "build", "--offline", "--profile", "opt", "-p", "wild-linker", "-p", "linker-diff"],
               _env({"RUSTFLAGS": "--cfg wild_verif", "CARGO_TARGET_DIR": td}), REPO, "hook")
        r = {"wild": os.path.join(td, "opt", "wild"), "linker_diff": os.path.join(td, "opt", "linker-diff")}
    elif variant == "asan":
        td = os.path.join(BUILD, "asan")
        _cargo(["cargo", "+nightly", "build", "--offline", "--profile", "opt", "-p", "wild-linker",
                "--target", NIGHTLY_TARGET],
               _env({"RUSTFLAGS": "--cfg wild_verif -Zsanitizer=address -Cforce-frame-pointers=yes",
                     "CARGO_TARGET_DIR": td}), REPO, "asan")
        r = {"wild": os.path.join(td, NIGHTLY_TARGET, "opt", "wild")}
    elif variant == "tsan":
        td = os.path.join(BUILD, "tsan")
        _cargo(["cargo", "+nightly", "build", "--offline", "--profile", "opt", "-p", "wild-linker",
                "-Zbuild-std", "--target", NIGHTLY_TARGET],
               _env({"RUSTFLAGS": "--cfg wild_verif -Zsanitizer=thread", "CARGO_TARGET_DIR": td}),
               REPO, "tsan")
        r = {"wild": os.path.join(td, NIGHTLY_TARGET, "opt", "wild")}
    elif variant == "units":
        src = os.path.join(VERIF, "harness", "units")
        if REPO != "/repo":
            # trying the checks against a scratch worktree: build a copy of the harness crate whose
            # path dependencies point into that worktree
            copy = os.path.join(BUILD, "units-src")
            shutil.rmtree(copy, ignore_errors=True)
            shutil.copytree(src, copy, ignore=shutil.ignore_patterns("target", "Cargo.lock"))
            ct = os.path.join(copy, "Cargo.toml")
            text = open(ct).read().replace('"/repo/', '"' + REPO.rstrip("/") + "/")
            open(ct, "w").write(text)
            src = copy
        shutil.copyfile(os.path.join(REPO, "Cargo.lock"), os.path.join(src, "Cargo.lock"))
        td = os.path.join(BUILD, "units")
        _cargo(["cargo", "build", "--offline", "--release"],
               _env({"RUSTFLAGS": "--cfg wild_verif", "CARGO_TARGET_DIR": td}), src, "units")
        r = {"units": os.path.join(td, "release", "units")}
    else:
        raise HarnessError(f"unknown build variant {variant}")
    for k, p in r.items():
        if not os.path.exists(p):
            raise HarnessError(f"build {variant}: expected binary {p} missing")
    _done[variant] = r
    return r


def try_ensure(variant):
    """Like ensure, but returns None (and logs) when the variant cannot be built."""
    try:
        return ensure(variant)
    except (HarnessError, subprocess.TimeoutExpired) as ex:
        log(f"[build] variant {variant} unavailable: {str(ex)[:500]}")
        return None
