"""Shared helpers: paths, subprocess running with watchdogs, parallel map, scratch dirs."""
import concurrent.futures
import hashlib
import os
import random
import shutil
import signal
import subprocess
import sys
import time

VERIF = os.path.dirname(os.path.dirname(os.path.abspath(__file__)))
REPO = os.environ.get("VERIF_REPO", "/repo")
# Overrides used only when trying the checks against a scratch worktree carrying a seeded change
# (so that /repo itself and the registered evidence stay untouched): VERIF_REPO, VERIF_BUILD_DIR,
# VERIF_OUT_DIR (evidence/ and replays/ go under it).
BUILD = os.environ.get("VERIF_BUILD_DIR", os.path.join(VERIF, ".build"))
SCRATCH_ROOT = os.path.join(VERIF, ".scratch")
OUT_DIR = os.environ.get("VERIF_OUT_DIR", VERIF)
NCPU = os.cpu_count() or 4


class HarnessError(Exception):
    """Something in the machinery (not the property) failed: exit 2, no verdict."""


class Result:
    __slots__ = ("rc", "out", "err", "timed_out", "wall")

    def __init__(self, rc, out, err, timed_out, wall):
        self.rc, self.out, self.err, self.timed_out, self.wall = rc, out, err, timed_out, wall

    @property
    def signal(self):
        return -self.rc if self.rc is not None and self.rc < 0 else None

    @property
    def ok(self):
        return self.rc == 0 and not self.timed_out

    def text(self):
        return (self.out or b"").decode("utf-8", "replace") + (self.err or b"").decode("utf-8", "replace")

    def errtext(self):
        return (self.err or b"").decode("utf-8", "replace")

    def outtext(self):
        return (self.out or b"").decode("utf-8", "replace")


def run(cmd, env=None, cwd=None, timeout=120, stdin=None, extra_env=None, preexec_fn=None,
        pass_fds=()):
    """Runs cmd (list). Never raises on failure/timeouts; the watchdog firing sets timed_out."""
    e = dict(os.environ if env is None else env)
    if extra_env:
        e.update(extra_env)
    t0 = time.time()
    try:
        p = subprocess.Popen(cmd, stdin=subprocess.PIPE if stdin is not None else subprocess.DEVNULL,
                             stdout=subprocess.PIPE, stderr=subprocess.PIPE, env=e, cwd=cwd,
                             start_new_session=True, preexec_fn=preexec_fn, pass_fds=pass_fds)
    except OSError as ex:
        return Result(127, b"", str(ex).encode(), False, 0.0)
    try:
        out, err = p.communicate(stdin, timeout=timeout)
        return Result(p.returncode, out, err, False, time.time() - t0)
    except subprocess.TimeoutExpired:
        try:
            os.killpg(p.pid, signal.SIGKILL)
        except OSError:
            pass
        try:
            out, err = p.communicate(timeout=10)
        except Exception:
            out, err = b"", b""
        return Result(p.returncode, out, err, True, time.time() - t0)


def pmap(fn, items, workers=None):
    """Parallel map over items with threads (work is in subprocesses). Preserves order.
    Exceptions in fn propagate as HarnessError after all are collected."""
    items = list(items)
    if not items:
        return []
    workers = workers or NCPU
    if workers <= 1 or len(items) == 1:
        return [fn(i) for i in items]
    with concurrent.futures.ThreadPoolExecutor(max_workers=workers) as ex:
        futs = [ex.submit(fn, i) for i in items]
        out = []
        for f in futs:
            out.append(f.result())
        return out


def sha(data):
    if isinstance(data, str):
        data = data.encode()
    return hashlib.sha256(data).hexdigest()


def file_sha(path):
    h = hashlib.sha256()
    with open(path, "rb") as f:
        for chunk in iter(lambda: f.read(1 << 20), b""):
            h.update(chunk)
    return h.hexdigest()


def rng(*parts):
    """Deterministic RNG from a tuple of parts (property id, seed, case index...)."""
    return random.Random(sha("/".join(str(p) for p in parts)))


class Scratch:
    """Per-run scratch directory under /verif/.scratch, removed on close unless keep=True."""

    def __init__(self, name):
        self.path = os.path.join(SCRATCH_ROOT, f"{name}-{os.getpid()}")
        shutil.rmtree(self.path, ignore_errors=True)
        os.makedirs(self.path, exist_ok=True)

    def dir(self, *parts):
        p = os.path.join(self.path, *[str(x) for x in parts])
        os.makedirs(p, exist_ok=True)
        return p

    def close(self):
        if os.environ.get("VERIF_KEEP"):      # debugging aid: keep the scratch directory of this run
            print(f"scratch kept: {self.path}", file=sys.stderr)
            return
        shutil.rmtree(self.path, ignore_errors=True)


def write(path, data):
    os.makedirs(os.path.dirname(path), exist_ok=True)
    mode = "wb" if isinstance(data, (bytes, bytearray)) else "w"
    with open(path, mode) as f:
        f.write(data)
    return path


def read(path, binary=True):
    with open(path, "rb" if binary else "r") as f:
        return f.read()


def log(*a):
    print(*a, file=sys.stderr, flush=True)


def strip_ansi(s):
    import re
    return re.sub(r"\x1b\[[0-9;]*m", "", s)
