"""Independent parser for .eh_frame / .eh_frame_hdr (input objects and linked outputs).

Used by C10 (unwind tables) and by the C05 reachability model (a kept function keeps the LSDA and
personality its FDE/CIE name). Stdlib only; nothing here is shared with wild's own parser.

    recs = parse_eh_frame(data, addr)            # list[CIE|FDE] (+ .problems on the returned list)
    hdr  = parse_eh_frame_hdr(data, addr)        # Hdr or raises EhError
    inp  = input_fdes(elf_obj)                   # FDEs of a relocatable object with their section links
"""
import struct

from . import elf as E

DW_EH_PE_omit = 0xff


class EhError(Exception):
    pass


class Recs(list):
    """list of CIE/FDE records plus parse notes."""

    def __init__(self):
        super().__init__()
        self.problems = []       # strings
        self.terminator_at = None  # offset of the first zero-length record
        self.after_terminator = 0  # records found after a terminator

    @property
    def fdes(self):
        return [r for r in self if isinstance(r, FDE)]

    @property
    def cies(self):
        return [r for r in self if isinstance(r, CIE)]


class CIE:
    kind = "CIE"

    def __init__(self):
        self.off = self.length = 0
        self.version = 0
        self.aug = ""
        self.code_align = self.data_align = self.ra = 0
        self.fde_enc = 0           # 'R'
        self.lsda_enc = DW_EH_PE_omit  # 'L'
        self.pers_enc = DW_EH_PE_omit  # 'P'
        self.pers_off = None       # offset (within the section) of the personality pointer field
        self.pers_val = None       # decoded pointer (address; for indirect encodings: address of the slot)
        self.signal = False
        self.insns = b""

    def __repr__(self):
        return f"<CIE off={self.off:#x} aug={self.aug!r} R={self.fde_enc:#x} P={self.pers_enc:#x} L={self.lsda_enc:#x}>"


class FDE:
    kind = "FDE"

    def __init__(self):
        self.off = self.length = 0
        self.cie = None
        self.cie_off = None
        self.pc_off = None         # offset of the pc_begin field
        self.pc_begin = None       # decoded (address for outputs; raw field value for inputs)
        self.pc_range = 0
        self.lsda_off = None
        self.lsda = None
        self.insns = b""

    def __repr__(self):
        return f"<FDE off={self.off:#x} pc={self.pc_begin} range={self.pc_range:#x}>"


def _uleb(d, o):
    r = s = 0
    while True:
        b = d[o]
        o += 1
        r |= (b & 0x7f) << s
        s += 7
        if not b & 0x80:
            return r, o


def _sleb(d, o):
    r = s = 0
    while True:
        b = d[o]
        o += 1
        r |= (b & 0x7f) << s
        s += 7
        if not b & 0x80:
            if b & 0x40:
                r -= 1 << s
            return r, o


def enc_size(enc):
    f = enc & 0x0f
    return {0x00: 8, 0x02: 2, 0x03: 4, 0x04: 8, 0x0a: 2, 0x0b: 4, 0x0c: 8}.get(f)


def read_encoded(d, o, enc, field_addr, data_base=0, func_base=0, apply_base=True):
    """Decodes one pointer. Returns (value or None for omit, new offset). With apply_base the
    pcrel/datarel base is added (and the result wrapped to 64 bits); a raw value of 0 with a pcrel
    encoding is still reported as field_addr+0 (the caller decides)."""
    if enc == DW_EH_PE_omit:
        return None, o
    f = enc & 0x0f
    if f == 0x00:
        v, = struct.unpack_from("<Q", d, o)
        o += 8
    elif f == 0x01:
        v, o = _uleb(d, o)
    elif f == 0x02:
        v, = struct.unpack_from("<H", d, o)
        o += 2
    elif f == 0x03:
        v, = struct.unpack_from("<I", d, o)
        o += 4
    elif f == 0x04:
        v, = struct.unpack_from("<Q", d, o)
        o += 8
    elif f == 0x09:
        v, o = _sleb(d, o)
    elif f == 0x0a:
        v, = struct.unpack_from("<h", d, o)
        o += 2
    elif f == 0x0b:
        v, = struct.unpack_from("<i", d, o)
        o += 4
    elif f == 0x0c:
        v, = struct.unpack_from("<q", d, o)
        o += 8
    else:
        raise EhError(f"unsupported pointer format {enc:#x}")
    if apply_base:
        app = enc & 0x70
        if app == 0x10:
            v += field_addr
        elif app == 0x30:
            v += data_base
        elif app == 0x40:
            v += func_base
        elif app not in (0x00,):
            raise EhError(f"unsupported pointer application {enc:#x}")
        v &= (1 << 64) - 1
    return v, o


def parse_eh_frame(data, addr=0, apply_base=True):
    """Parses a whole .eh_frame image located at `addr`. Never raises for malformed content: stops
    and records a problem instead."""
    out = Recs()
    cies = {}
    o = 0
    n = len(data)
    while o + 4 <= n:
        start = o
        length, = struct.unpack_from("<I", data, o)
        o += 4
        if length == 0:
            if out.terminator_at is None:
                out.terminator_at = start
            continue
        if length == 0xffffffff:
            out.problems.append(f"64-bit length at {start:#x}")
            break
        end = o + length
        if end > n:
            out.problems.append(f"record at {start:#x} overruns section")
            break
        if out.terminator_at is not None:
            out.after_terminator += 1
        try:
            cid, = struct.unpack_from("<I", data, o)
            idpos = o
            o += 4
            if cid == 0:
                c = CIE()
                c.off, c.length = start, length
                c.version = data[o]
                o += 1
                z = data.index(b"\0", o)
                c.aug = data[o:z].decode("latin1")
                o = z + 1
                if c.aug.startswith("eh"):
                    o += 8
                c.code_align, o = _uleb(data, o)
                c.data_align, o = _sleb(data, o)
                if c.version == 1:
                    c.ra = data[o]
                    o += 1
                else:
                    c.ra, o = _uleb(data, o)
                c.fde_enc = 0
                if c.aug.startswith("z"):
                    alen, o = _uleb(data, o)
                    aend = o + alen
                    for ch in c.aug[1:]:
                        if ch == "R":
                            c.fde_enc = data[o]
                            o += 1
                        elif ch == "L":
                            c.lsda_enc = data[o]
                            o += 1
                        elif ch == "P":
                            c.pers_enc = data[o]
                            o += 1
                            c.pers_off = o
                            c.pers_val, o = read_encoded(data, o, c.pers_enc, addr + o, apply_base=apply_base)
                        elif ch == "S":
                            c.signal = True
                        elif ch == "B":
                            pass
                        else:
                            out.problems.append(f"unknown augmentation {ch!r} in CIE at {start:#x}")
                            break
                    o = aend
                c.insns = bytes(data[o:end])
                cies[start] = c
                out.append(c)
            else:
                f = FDE()
                f.off, f.length = start, length
                f.cie_off = idpos - cid
                f.cie = cies.get(f.cie_off)
                if f.cie is None:
                    out.problems.append(f"FDE at {start:#x} names CIE offset {f.cie_off:#x} which is not a CIE seen before it")
                    out.append(f)
                    o = end
                    continue
                enc = f.cie.fde_enc
                f.pc_off = o
                f.pc_begin, o = read_encoded(data, o, enc, addr + o, apply_base=apply_base)
                f.pc_range, o = read_encoded(data, o, enc & 0x0f, 0, apply_base=False)
                if f.cie.aug.startswith("z"):
                    alen, o = _uleb(data, o)
                    aend = o + alen
                    if f.cie.lsda_enc != DW_EH_PE_omit:
                        f.lsda_off = o
                        raw, _ = read_encoded(data, o, f.cie.lsda_enc, 0, apply_base=False)
                        if raw == 0 and apply_base:
                            f.lsda = 0          # "no LSDA" is encoded as a zero field
                        else:
                            f.lsda, _ = read_encoded(data, o, f.cie.lsda_enc, addr + o, apply_base=apply_base)
                    o = aend
                f.insns = bytes(data[o:end])
                out.append(f)
        except (IndexError, struct.error, ValueError, EhError) as ex:
            out.problems.append(f"record at {start:#x} unparsable: {ex}")
        o = end
    if o != n and not out.problems:
        if n - o >= 1 and any(data[o:]):
            out.problems.append(f"{n - o} trailing bytes")
    return out


class Hdr:
    def __init__(self):
        self.version = 0
        self.eh_frame_ptr_enc = self.fde_count_enc = self.table_enc = 0
        self.eh_frame_ptr = None
        self.fde_count = None
        self.table = []       # list of (initial_loc, fde_addr)
        self.size_used = 0


def parse_eh_frame_hdr(data, addr):
    if len(data) < 4:
        raise EhError("header shorter than 4 bytes")
    h = Hdr()
    h.version, h.eh_frame_ptr_enc, h.fde_count_enc, h.table_enc = data[0], data[1], data[2], data[3]
    if h.version != 1:
        raise EhError(f"version {h.version}")
    o = 4
    h.eh_frame_ptr, o = read_encoded(data, o, h.eh_frame_ptr_enc, addr + o, data_base=addr)
    if h.fde_count_enc == DW_EH_PE_omit:
        h.size_used = o
        return h
    h.fde_count, o = read_encoded(data, o, h.fde_count_enc, addr + o, data_base=addr)
    if h.table_enc == DW_EH_PE_omit:
        h.size_used = o
        return h
    sz = enc_size(h.table_enc)
    if sz is None:
        raise EhError(f"table encoding {h.table_enc:#x}")
    if o + h.fde_count * 2 * sz > len(data):
        raise EhError(f"fde_count {h.fde_count} needs {h.fde_count * 2 * sz} table bytes, section has {len(data) - o}")
    for _ in range(h.fde_count):
        a, o = read_encoded(data, o, h.table_enc, addr + o, data_base=addr)
        b, o = read_encoded(data, o, h.table_enc, addr + o, data_base=addr)
        h.table.append((a, b))
    h.size_used = o
    return h


def strip_nops(b):
    return bytes(b).rstrip(b"\0")


# ---- relocatable inputs --------------------------------------------------------------------------

class InFDE:
    """An FDE of an input object: which section/offset it describes and what else it names."""
    __slots__ = ("off", "sec", "addend", "size", "cie", "lsda", "insns", "ambiguous")

    def __init__(self):
        self.off = 0
        self.sec = None        # input section index of the function (None: unresolvable)
        self.addend = 0        # offset of the function inside that section
        self.size = 0
        self.cie = None        # InCIE
        self.lsda = None       # (kind, section index or symbol name, addend) or None
        self.insns = b""
        self.ambiguous = None  # reason the section link could not be established


class InCIE:
    __slots__ = ("off", "aug", "code_align", "data_align", "ra", "fde_enc", "lsda_enc", "pers_enc", "pers", "insns", "signal")


def _target(e, syms, r):
    """(kind, where, addend) of a relocation: ('sec', index, addend+st_value) for symbols defined in
    this file, ('sym', name, addend) for undefined ones."""
    s = syms[r.sym] if r.sym < len(syms) else None
    if s is None:
        return None
    if s.shndx not in (E.SHN_UNDEF, E.SHN_ABS, E.SHN_COMMON) and s.shndx < len(e.sections):
        return ("sec", s.shndx, r.addend + s.value, s.name if s.type != E.STT_SECTION else "")
    return ("sym", s.name, r.addend, s.name)


def input_eh(e):
    """Parses every .eh_frame section of relocatable object `e`.
    Returns (list[InFDE], problems)."""
    out, problems = [], []
    syms = e.symtab()
    for s in e.sections:
        if s.name != ".eh_frame" or s.type == E.SHT_NOBITS or not s.alloc:
            continue
        data = e.sec_data(s)
        recs = parse_eh_frame(data, 0, apply_base=False)
        problems += recs.problems
        rel = {}
        for rs in e.rela_sections():
            if rs.info == s.index:
                for r in e.relas(rs):
                    rel[r.offset] = r
        cmap = {}
        for c in recs.cies:
            ic = InCIE()
            ic.off, ic.aug, ic.code_align, ic.data_align, ic.ra = c.off, c.aug, c.code_align, c.data_align, c.ra
            ic.fde_enc, ic.lsda_enc, ic.pers_enc, ic.insns, ic.signal = c.fde_enc, c.lsda_enc, c.pers_enc, strip_nops(c.insns), c.signal
            ic.pers = None
            if c.pers_off is not None and c.pers_off in rel:
                ic.pers = _target(e, syms, rel[c.pers_off])
            cmap[c.off] = ic
        for f in recs.fdes:
            if f.cie is None:
                continue
            x = InFDE()
            x.off = f.off
            x.cie = cmap[f.cie.off]
            x.size = f.pc_range
            x.insns = strip_nops(f.insns)
            r = rel.get(f.pc_off)
            if r is None:
                x.ambiguous = "no relocation on pc_begin"
            else:
                t = _target(e, syms, r)
                if t is None or t[0] != "sec":
                    x.ambiguous = "pc_begin relocation against a symbol not defined in this object"
                else:
                    # PC32 relocation: field = S + A - P; the function offset is A + st_value
                    x.sec, x.addend = t[1], t[2]
                    if r.type not in (E.R_X86_64["PC32"], E.R_X86_64["PC64"], E.R_X86_64["R64"], E.R_X86_64["R32"], E.R_X86_64["R32S"]):
                        x.ambiguous = f"pc_begin relocation type {r.type}"
            if f.lsda_off is not None and f.lsda_off in rel:
                x.lsda = _target(e, syms, rel[f.lsda_off])
            out.append(x)
    return out, problems
