"""Structural well-formedness rules for ELF outputs (C04), written from the gABI and the property
statement. check(elf) returns a list of (rule-id, message). Rules are calibrated on GNU ld and lld
outputs by the driver (a rule a reference output breaks is not applied to wild for that case)."""
from .. import elf as E

PAGE = 4096


def _al(x, a):
    return x & ~(a - 1)


def check(e, relocatable=False):
    V = []

    def bad(rule, msg):
        V.append((rule, msg))
    data_len = len(e.data)
    # --- header --------------------------------------------------------------------------------
    if e.e_phoff and e.e_phoff + e.e_phnum * 56 > data_len:
        bad("ehdr:phoff-range", "program headers beyond end of file")
    if e.e_shoff and e.e_shoff + len(e.sections) * 64 > data_len:
        bad("ehdr:shoff-range", "section headers beyond end of file")
    if e.sections and e.shstrndx >= len(e.sections):
        bad("ehdr:shstrndx", "e_shstrndx out of range")
    secs = [s for s in e.sections if s.index != 0]
    for s in secs:
        if s.type != E.SHT_NOBITS and s.offset + s.size > data_len:
            bad("shdr:file-range", f"section {s.name} extends beyond end of file")
        if s.addralign not in (0, 1) and (s.addralign & (s.addralign - 1)):
            bad("shdr:align-not-pow2", f"section {s.name} alignment {s.addralign:#x}")
        if s.alloc and not relocatable and s.addralign > 1 and s.addr % s.addralign:
            bad("shdr:addr-misaligned", f"section {s.name} addr {s.addr:#x} not aligned to {s.addralign:#x}")
        if s.link >= len(e.sections) and s.type in (E.SHT_SYMTAB, E.SHT_DYNSYM, E.SHT_RELA, E.SHT_DYNAMIC, E.SHT_HASH, E.SHT_GNU_HASH):
            bad("shdr:link-range", f"section {s.name} sh_link {s.link} out of range")
    # file overlap of sections with file content
    fsecs = sorted([s for s in secs if s.type != E.SHT_NOBITS and s.size > 0], key=lambda s: s.offset)
    for a, b in zip(fsecs, fsecs[1:]):
        if a.offset + a.size > b.offset:
            bad("sections:file-overlap", f"{a.name} [{a.offset:#x},+{a.size:#x}) overlaps {b.name} at {b.offset:#x}")
    if relocatable:
        return V
    # --- memory overlap of allocated sections --------------------------------------------------
    asecs = [s for s in secs if s.alloc and s.size > 0 and not (s.flags & E.SHF_TLS and s.type == E.SHT_NOBITS)]
    asecs.sort(key=lambda s: s.addr)
    for a, b in zip(asecs, asecs[1:]):
        if a.addr + a.size > b.addr:
            bad(f"sections:memory-overlap({a.name},{b.name})", f"{a.name} [{a.addr:#x},+{a.size:#x}) overlaps {b.name} at {b.addr:#x}")
    # --- segments ------------------------------------------------------------------------------
    loads = e.loads()
    for p in e.segments:
        if p.align not in (0, 1) and (p.align & (p.align - 1)):
            bad("phdr:align-not-pow2", f"segment {p.index} align {p.align:#x}")
        if p.filesz > p.memsz and p.type != E.PT_NULL:
            bad("phdr:filesz>memsz", f"segment {p.index} type {p.type:#x}")
        if p.offset + p.filesz > data_len:
            bad("phdr:file-range", f"segment {p.index} type {p.type:#x} beyond end of file")
    for p in loads:
        if p.align > 1 and (p.offset - p.vaddr) % p.align:
            bad("load:offset-vaddr-congruence", f"PT_LOAD {p.index}: offset {p.offset:#x} vaddr {p.vaddr:#x} align {p.align:#x}")
        if (p.flags & E.PF_W) and (p.flags & E.PF_X):
            bad("load:writable-and-executable", f"PT_LOAD {p.index} flags {p.flags}")
    for a, b in zip(loads, loads[1:]):
        if b.vaddr < a.vaddr:
            bad("load:not-ascending", f"PT_LOAD {b.index} vaddr {b.vaddr:#x} below previous {a.vaddr:#x}")
        if a.memsz and b.memsz and _al(a.vaddr + a.memsz - 1, PAGE) >= _al(b.vaddr, PAGE) and a.flags != b.flags:
            bad("load:share-page", f"PT_LOAD {a.index} and {b.index} with different permissions share a page")
    # each allocated section in exactly one PT_LOAD with consistent offset and permissions
    for s in [s for s in secs if s.alloc]:
        tls_nobits = bool(s.flags & E.SHF_TLS) and s.type == E.SHT_NOBITS
        inside = [p for p in loads if p.vaddr <= s.addr and s.addr + (0 if tls_nobits else s.size) <= p.vaddr + p.memsz]
        if s.size == 0:
            continue
        if len(inside) != 1:
            if tls_nobits:
                continue
            bad(f"section:not-in-exactly-one-load({s.name})", f"{s.name} addr {s.addr:#x} size {s.size:#x} lies in {len(inside)} PT_LOADs")
            continue
        p = inside[0]
        if s.type != E.SHT_NOBITS:
            if s.addr - p.vaddr != s.offset - p.offset:
                bad("section:offset-addr-mismatch", f"{s.name}: addr-p_vaddr {s.addr - p.vaddr:#x} != offset-p_offset {s.offset - p.offset:#x}")
            if s.offset + s.size > p.offset + p.filesz:
                bad("section:beyond-load-filesz", f"{s.name} file bytes extend past its PT_LOAD's file image")
        elif not tls_nobits:
            # NOBITS must lie in the zero-fill part
            if s.addr < p.vaddr + p.filesz and s.addr + s.size > p.vaddr + p.filesz and False:
                pass
        want_w = bool(s.flags & E.SHF_WRITE)
        want_x = bool(s.flags & E.SHF_EXECINSTR)
        if want_w and not (p.flags & E.PF_W):
            bad("section:writable-in-readonly-segment", f"{s.name} is SHF_WRITE but PT_LOAD {p.index} is not writable")
        if want_x and not (p.flags & E.PF_X):
            bad("section:exec-in-nonexec-segment", f"{s.name} is SHF_EXECINSTR but PT_LOAD {p.index} is not executable")
        if not want_x and (p.flags & E.PF_X) and s.type == E.SHT_PROGBITS and want_w:
            bad("section:writable-in-exec-segment", f"{s.name} writable data in executable PT_LOAD {p.index}")
        if not (p.flags & E.PF_R):
            bad("load:not-readable", f"PT_LOAD {p.index} holding {s.name} is not readable")
    # --- TLS -----------------------------------------------------------------------------------
    tls = [s for s in secs if s.flags & E.SHF_TLS and s.alloc]
    pt_tls = e.segs(E.PT_TLS)
    if tls and len(pt_tls) != 1:
        bad("tls:segment-count", f"{len(pt_tls)} PT_TLS segments for {len(tls)} TLS sections")
    if pt_tls and not tls:
        bad("tls:segment-without-sections", "PT_TLS without SHF_TLS sections")
    if tls and len(pt_tls) == 1:
        p = pt_tls[0]
        first = min(tls, key=lambda s: s.addr)
        end = max(s.addr + s.size for s in tls)
        if p.vaddr != first.addr:
            bad("tls:start", f"PT_TLS vaddr {p.vaddr:#x} != first TLS section {first.name} at {first.addr:#x}")
        if p.vaddr + p.memsz < end:
            bad("tls:memsz-short", f"PT_TLS ends {p.vaddr + p.memsz:#x} before last TLS section end {end:#x}")
        maxal = max([s.addralign for s in tls] + [1])
        if p.align < maxal:
            bad("tls:align", f"PT_TLS align {p.align:#x} < max TLS section align {maxal:#x}")
        # gABI congruence (glibc copes with a first byte that is not p_align-aligned through
        # l_tls_firstbyte_offset, so p_vaddr % p_align == 0 is *not* required)
        if p.align > 1 and (p.vaddr - p.offset) % p.align:
            bad("tls:offset-vaddr-congruence", f"PT_TLS vaddr {p.vaddr:#x} offset {p.offset:#x} align {p.align:#x}")
        # The static-TLS layout formulas (tp = align_up(start + size, align); glibc's static start-up
        # places the block at tp - roundup(size, align)) only agree when the template starts at a
        # multiple of its alignment; GNU ld and lld always produce that. A wild static glibc program
        # with an 8-aligned .tdata and a 16-aligned .tbss crashes in __ctype_init for this reason.
        if p.align > 1 and p.vaddr % p.align:
            bad("tls:vaddr-misaligned", f"PT_TLS vaddr {p.vaddr:#x} is not a multiple of its alignment {p.align:#x}")
        # file image: .tdata bytes followed by zeros only
        tdata_end = max([s.addr + s.size for s in tls if s.type != E.SHT_NOBITS] + [p.vaddr])
        img = e.data[p.offset:p.offset + p.filesz]
        tail_from = tdata_end - p.vaddr
        if 0 <= tail_from < len(img) and any(img[tail_from:]):
            bad("tls:nonzero-bss-image", "PT_TLS file image holds non-zero bytes after .tdata")
    # --- RELRO ---------------------------------------------------------------------------------
    for p in e.segs(E.PT_GNU_RELRO):
        # glibc protects [down(start), down(end))
        lo, hi = _al(p.vaddr, PAGE), _al(p.vaddr + p.memsz, PAGE)
        for s in [s for s in secs if s.alloc and s.size and (s.flags & E.SHF_WRITE)]:
            if s.flags & E.SHF_TLS and s.type == E.SHT_NOBITS:
                continue
            outside = s.addr + s.size <= p.vaddr or s.addr >= p.vaddr + p.memsz
            touches_protected = s.addr < hi and s.addr + s.size > lo
            if outside and touches_protected:
                bad("relro:protects-non-relro-writable", f"page protected by PT_GNU_RELRO holds writable section {s.name} at {s.addr:#x} that lies outside the RELRO range")
        if not any(l.vaddr <= p.vaddr < l.vaddr + l.memsz and (l.flags & E.PF_W) for l in loads):
            bad("relro:not-in-writable-load", "PT_GNU_RELRO does not start inside a writable PT_LOAD")
        if p.flags & E.PF_W and False:
            pass
    # --- segments that describe a section -------------------------------------------------------
    def seg_equals(ptype, secname=None, stype=None, rule=""):
        segs = e.segs(ptype)
        cand = [s for s in secs if (secname and s.name == secname) or (stype is not None and s.type == stype)]
        if not segs:
            return
        if not cand:
            bad(rule + ":no-section", f"segment type {ptype:#x} without its section")
            return
        p, s = segs[0], cand[0]
        if p.vaddr != s.addr or p.offset != s.offset or p.filesz != s.filesize or p.memsz < s.size:
            bad(rule + ":mismatch", f"segment type {ptype:#x} [{p.vaddr:#x},+{p.memsz:#x}) off {p.offset:#x} != section {s.name} [{s.addr:#x},+{s.size:#x}) off {s.offset:#x}")
    seg_equals(E.PT_DYNAMIC, stype=E.SHT_DYNAMIC, rule="pt_dynamic")
    seg_equals(E.PT_INTERP, secname=".interp", rule="pt_interp")
    seg_equals(E.PT_GNU_EH_FRAME, secname=".eh_frame_hdr", rule="pt_gnu_eh_frame")
    ph = e.segs(E.PT_PHDR)
    if ph:
        p = ph[0]
        if p.offset != e.e_phoff or p.filesz != e.e_phnum * 56:
            bad("pt_phdr:mismatch", f"PT_PHDR off {p.offset:#x} size {p.filesz:#x} vs e_phoff {e.e_phoff:#x} x{e.e_phnum}")
        if not any(l.offset <= p.offset and p.offset + p.filesz <= l.offset + l.filesz and l.vaddr + (p.offset - l.offset) == p.vaddr for l in loads):
            bad("pt_phdr:not-loaded", "program headers are not covered by a PT_LOAD at the address PT_PHDR states")
    for p in e.segs(E.PT_NOTE):
        notes = [s for s in secs if s.type == E.SHT_NOTE and s.alloc and p.vaddr <= s.addr and s.addr + s.size <= p.vaddr + p.memsz]
        if not notes:
            bad("pt_note:no-section", f"PT_NOTE {p.index} covers no note section")
        else:
            lo = min(s.addr for s in notes)
            hi = max(s.addr + s.size for s in notes)
            if lo != p.vaddr or hi != p.vaddr + p.memsz:
                bad("pt_note:extent", f"PT_NOTE [{p.vaddr:#x},{p.vaddr + p.memsz:#x}) vs notes [{lo:#x},{hi:#x})")
    for s in [s for s in secs if s.type == E.SHT_NOTE and s.alloc]:
        if not any(p.vaddr <= s.addr and s.addr + s.size <= p.vaddr + p.memsz for p in e.segs(E.PT_NOTE)):
            bad("pt_note:section-uncovered", f"note section {s.name} in no PT_NOTE")
    # --- dynamic entries ------------------------------------------------------------------------
    dyn = e.dynamic()
    if dyn:
        def sec_by_addr(addr):
            for s in secs:
                if s.alloc and s.addr == addr and s.size:
                    return s
            return None
        pairs = [("HASH", E.SHT_HASH, None), ("GNU_HASH", E.SHT_GNU_HASH, None), ("SYMTAB", E.SHT_DYNSYM, None),
                 ("VERSYM", E.SHT_GNU_VERSYM, None), ("VERDEF", E.SHT_GNU_VERDEF, None), ("VERNEED", E.SHT_GNU_VERNEED, None),
                 ("RELR", E.SHT_RELR, "RELRSZ"), ("INIT_ARRAY", E.SHT_INIT_ARRAY, "INIT_ARRAYSZ"),
                 ("FINI_ARRAY", E.SHT_FINI_ARRAY, "FINI_ARRAYSZ"), ("PREINIT_ARRAY", E.SHT_PREINIT_ARRAY, "PREINIT_ARRAYSZ")]
        for tag, stype, sztag in pairs:
            v = e.dyn(tag)
            ss = [s for s in secs if s.type == stype and s.alloc]
            if v:
                if not ss:
                    bad(f"dynamic:{tag}:no-section", f"DT_{tag} present but no section of that type")
                elif v[0] not in [s.addr for s in ss]:
                    bad(f"dynamic:{tag}:address", f"DT_{tag}={v[0]:#x} matches no section of its type ({[hex(s.addr) for s in ss]})")
                elif sztag:
                    sz = e.dyn(sztag)
                    s = [s for s in ss if s.addr == v[0]][0]
                    if not sz or sz[0] != s.size:
                        bad(f"dynamic:{sztag}:size", f"DT_{sztag}={sz} but section {s.name} size {s.size:#x}")
        st = e.dyn("STRTAB")
        if st:
            s = sec_by_addr(st[0])
            if s is None or s.type != E.SHT_STRTAB:
                bad("dynamic:STRTAB:address", f"DT_STRTAB={st[0]:#x} is not a string table section")
            else:
                sz = e.dyn("STRSZ")
                if not sz or sz[0] != s.size:
                    bad("dynamic:STRSZ:size", f"DT_STRSZ={sz} vs {s.name} size {s.size:#x}")
        ra = e.dyn("RELA")
        if ra:
            rs = [s for s in secs if s.type == E.SHT_RELA and s.alloc]
            if ra[0] not in [s.addr for s in rs]:
                bad("dynamic:RELA:address", f"DT_RELA={ra[0]:#x} matches no allocated RELA section")
        jr = e.dyn("JMPREL")
        if jr:
            rs = [s for s in secs if s.type == E.SHT_RELA and s.alloc and s.addr == jr[0]]
            if not rs:
                bad("dynamic:JMPREL:address", f"DT_JMPREL={jr[0]:#x} matches no allocated RELA section")
            else:
                sz = e.dyn("PLTRELSZ")
                if not sz or sz[0] != rs[0].size:
                    bad("dynamic:PLTRELSZ:size", f"DT_PLTRELSZ={sz} vs {rs[0].name} size {rs[0].size:#x}")
        for tag in ("INIT", "FINI"):
            v = e.dyn(tag)
            if v:
                s = e.section_at(v[0])
                if s is None or not (s.flags & E.SHF_EXECINSTR):
                    bad(f"dynamic:{tag}:not-in-code", f"DT_{tag}={v[0]:#x} is not inside an executable section")
    # --- entry ---------------------------------------------------------------------------------
    if e.e_type in (E.ET_EXEC,) or (e.e_type == E.ET_DYN and e.e_entry):
        if e.e_entry:
            if not any(p.vaddr <= e.e_entry < p.vaddr + p.memsz and (p.flags & E.PF_X) for p in loads):
                bad("entry:not-executable", f"e_entry {e.e_entry:#x} is not inside an executable PT_LOAD")
    return V
