"""Offline checker for the layout-traversal protocol (C39) over the H3 event log.

Events (one per line: seq tid kind a b c), see /repo/libwild/src/layout.rs hook sites:
  ACT_BEGIN g | ACT_END g remaining | DELAY_PUSH g | DELAY_POP g
  LPUSH g kind payload          local push (same group)
  SPUSH g kind|taken<<8 payload remote push, emitted under the slot lock; taken = parked worker taken
  RUN_BEGIN g                   a thread starts running group g's worker loop
  H_BEGIN g kind payload / H_END g kind payload    one work item handled
  SWAP g n                      under the slot lock: n pending items moved to the local queue
  PARK g                        under the slot lock: slot empty, worker parked
  RUN_ERR g                     work item failed; worker dropped
  FINAL_SLOT i present pending  after the traversal: slot i holds a worker / pending items
"""
import hashlib
from collections import Counter, defaultdict


def parse(path):
    evs = []
    with open(path, "rb") as f:
        for ln in f:
            p = ln.split()
            if len(p) != 6:
                continue
            try:
                evs.append((int(p[0]), int(p[1]), p[2].decode(), int(p[3]), int(p[4]), int(p[5])))
            except ValueError:
                continue
    evs.sort(key=lambda e: e[0])
    return evs


LAYOUT_KINDS = {"ACT_BEGIN", "ACT_END", "DELAY_PUSH", "DELAY_POP", "LPUSH", "SPUSH", "RUN_BEGIN", "H_BEGIN", "H_END",
                "SWAP", "PARK", "RUN_ERR", "FINAL_SLOT"}


def check(evs, link_ok=True, complete=True):
    """Returns (violations, stats). violations: list of (signature, description).
    link_ok: the link exited 0. complete: the process terminated (log is whole)."""
    V = []
    st = Counter()
    evs = [e for e in evs if e[2] in LAYOUT_KINDS]
    st["events"] = len(evs)
    if not evs:
        return V, st
    # gaps in seq would mean lost log lines: then nothing can be concluded
    pushed = defaultdict(Counter)    # g -> item -> count
    handled = defaultdict(Counter)
    pending = defaultdict(int)       # slot model: number of pending remote items
    parked = defaultdict(bool)
    running = defaultdict(bool)      # inside RUN_BEGIN..PARK/RUN_ERR
    in_item = {}                     # g -> item currently being handled
    first_run = set()
    act_begun, act_ended = set(), set()
    delayed, delay_popped = set(), set()
    errored = set()
    final = {}
    spawn_pending = Counter()        # g -> taken pushes not yet followed by RUN_BEGIN
    cur_running = 0
    last_remaining = None
    zero_seen = 0
    groups = set()

    def bad(sig, desc):
        if len(V) < 20:
            V.append((sig, desc))

    for seq, tid, kind, a, b, c in evs:
        if kind == "ACT_BEGIN":
            groups.add(a)
            if a in act_begun:
                bad("activation:twice", f"group {a} activated twice (seq {seq})")
            act_begun.add(a)
        elif kind == "ACT_END":
            act_ended.add(a)
            if b == 0:
                zero_seen += 1
        elif kind == "DELAY_PUSH":
            delayed.add(a)
        elif kind == "DELAY_POP":
            delay_popped.add(a)
            if a not in delayed:
                bad("delay:pop-without-push", f"group {a} popped from delay queue without push (seq {seq})")
        elif kind == "LPUSH":
            pushed[a][(b, c)] += 1
            st["local_pushes"] += 1
        elif kind == "SPUSH":
            k, taken = b & 0xff, (b >> 8) & 1
            pushed[a][(k, c)] += 1
            st["remote_pushes"] += 1
            if taken:
                if not parked[a]:
                    bad("slot:worker-taken-but-not-parked", f"push to group {a} took a worker that the model says is not parked (seq {seq})")
                if pending[a] != 0:
                    bad("slot:parked-with-pending", f"group {a} was parked while its slot held {pending[a]} items (seq {seq})")
                parked[a] = False
                spawn_pending[a] += 1
                st["push_hit_parked_worker"] += 1
            else:
                if parked[a]:
                    bad("slot:push-left-parked-worker", f"push to group {a} did not take the parked worker: lost wake-up (seq {seq})")
                if a in first_run:
                    st["push_hit_running_worker"] += 1
                else:
                    st["push_arrived_before_first_run"] += 1
            pending[a] += 1
        elif kind == "RUN_BEGIN":
            groups.add(a)
            if running[a]:
                bad("overlap:two-threads-run-one-group", f"group {a} started running while already running (seq {seq})")
            if parked[a]:
                bad("slot:running-while-parked", f"group {a} runs while the model says it is parked (seq {seq})")
            running[a] = True
            first_run.add(a)
            if spawn_pending[a] > 0:
                spawn_pending[a] -= 1
            cur_running += 1
            st["max_concurrent_groups"] = max(st["max_concurrent_groups"], cur_running)
        elif kind == "H_BEGIN":
            item = (b, c)
            if not running[a]:
                bad("overlap:handle-outside-run", f"group {a} handled an item while not running (seq {seq})")
            if a in in_item:
                bad("overlap:two-items-at-once", f"group {a} began item {item} while handling {in_item[a]} (seq {seq})")
            in_item[a] = item
            handled[a][item] += 1
            if handled[a][item] > pushed[a][item]:
                bad("handle-without-push", f"group {a} handled item kind={b} payload={c} more often than it was pushed (seq {seq})")
            st["items_handled"] += 1
        elif kind == "H_END":
            if in_item.get(a) != (b, c):
                bad("overlap:end-mismatch", f"group {a} ended item {(b, c)} but was handling {in_item.get(a)} (seq {seq})")
            in_item.pop(a, None)
        elif kind == "SWAP":
            if pending[a] != b:
                bad("slot:swap-count-mismatch", f"group {a} swapped {b} items but the model holds {pending[a]} (seq {seq})")
            if b == 0:
                bad("slot:empty-swap", f"group {a} swapped an empty slot (seq {seq})")
            pending[a] = 0
            st["swaps"] += 1
        elif kind == "PARK":
            if pending[a] != 0:
                bad("slot:parked-with-pending", f"group {a} parked while its slot held {pending[a]} items: lost work (seq {seq})")
            if a in in_item:
                bad("overlap:park-mid-item", f"group {a} parked while handling an item (seq {seq})")
            if not running[a]:
                bad("overlap:park-without-run", f"group {a} parked without running (seq {seq})")
            else:
                cur_running -= 1
            running[a] = False
            parked[a] = True
            st["parks"] += 1
        elif kind == "RUN_ERR":
            errored.add(a)
            if running[a]:
                cur_running -= 1
            running[a] = False
            in_item.pop(a, None)
        elif kind == "FINAL_SLOT":
            final[a] = (b, c)

    st["groups"] = len(groups)
    fp = hashlib.sha256(" ".join(f"{k}{a}" for _, _, k, a, _, _ in evs[:3000]).encode()).hexdigest()[:16]
    st_fp = fp
    if complete and link_ok:
        for g in sorted(groups | set(pushed)):
            if pushed[g] != handled[g]:
                missing = pushed[g] - handled[g]
                extra = handled[g] - pushed[g]
                if missing:
                    item, n = next(iter(missing.items()))
                    bad("lost-work:pushed-not-handled", f"group {g}: {sum(missing.values())} pushed items never handled, e.g. kind={item[0]} payload={item[1]} x{n}")
                if extra:
                    item, n = next(iter(extra.items()))
                    bad("handle-without-push", f"group {g}: item kind={item[0]} payload={item[1]} handled {n} more times than pushed")
        for g in groups:
            if running[g]:
                bad("termination:group-still-running", f"group {g} never parked")
            if pending[g]:
                bad("lost-work:pending-at-end", f"group {g} has {pending[g]} pending items at the end")
            if spawn_pending[g]:
                bad("lost-wakeup:taken-worker-never-ran", f"group {g}: a worker taken by a push never started running")
        if act_begun != act_ended:
            bad("activation:not-finished", f"groups began activation without finishing: {sorted(act_begun - act_ended)[:5]}")
        if delayed != delay_popped:
            bad("delay:never-popped", f"delayed groups never processed: {sorted(delayed - delay_popped)[:5]}")
        if act_begun and zero_seen != 1:
            bad("activation:remaining-counter", f"activations_remaining reached zero {zero_seen} times")
        if final:
            for g, (present, pend) in final.items():
                if not present:
                    bad("final:worker-missing", f"slot {g} has no parked worker after the traversal")
                if pend:
                    bad("final:pending-work", f"slot {g} still holds {pend} items after the traversal")
        else:
            bad("final:no-final-state", "the traversal finished without reporting final slot states")
    return V, dict(st, fingerprint=st_fp)


def hang_witness(evs):
    """For a quiescent, non-terminating process: an item pushed but never handled while its group is
    neither running nor about to run. Returns description or None."""
    V, st = check(evs, link_ok=False, complete=False)
    pushed = defaultdict(Counter)
    handled = defaultdict(Counter)
    for seq, tid, kind, a, b, c in evs:
        if kind == "LPUSH":
            pushed[a][(b, c)] += 1
        elif kind == "SPUSH":
            pushed[a][(b & 0xff, c)] += 1
        elif kind == "H_BEGIN":
            handled[a][(b, c)] += 1
    for g in pushed:
        miss = pushed[g] - handled[g]
        if miss:
            item, n = next(iter(miss.items()))
            return f"group {g}: item kind={item[0]} payload={item[1]} pushed but never handled"
    return None
