"""AArch64 control-flow follower: where does a range-limited branch end up (following at most one
veneer/thunk or PLT stub)? Used by C11 and C01's AArch64 static oracle."""
import struct


def sx(v, bits):
    v &= (1 << bits) - 1
    return v - (1 << bits) if v >> (bits - 1) else v


def branch_target(insn, pc):
    """Returns (kind, target) for B/BL/B.cond/CBZ/CBNZ/TBZ/TBNZ else None."""
    if insn & 0x7c000000 == 0x14000000:
        return ("bl" if insn >> 31 else "b", pc + sx(insn & 0x3ffffff, 26) * 4)
    if insn & 0xff000010 == 0x54000000:
        return ("b.cond", pc + sx((insn >> 5) & 0x7ffff, 19) * 4)
    if insn & 0x7e000000 == 0x34000000:
        return ("cbz", pc + sx((insn >> 5) & 0x7ffff, 19) * 4)
    if insn & 0x7e000000 == 0x36000000:
        return ("tbz", pc + sx((insn >> 5) & 0x3fff, 14) * 4)
    return None


def follow_stub(e, addr, max_insns=8):
    """Interprets a veneer/PLT stub at addr: ADRP / ADD imm / LDR (imm, literal) / MOVZ/MOVK / B / BR.
    Returns final target address or None if not understood."""
    regs = {}
    pc = addr
    for _ in range(max_insns):
        w = e.u32_at(pc)
        if w is None:
            return None
        if w == 0xd503245f or w == 0xd503201f or (w & 0xffffff3f) == 0xd503241f:   # bti c / nop / bti
            pc += 4
            continue
        if w & 0x9f000000 == 0x90000000:                                   # ADRP
            rd = w & 31
            imm = sx((((w >> 5) & 0x7ffff) << 2) | ((w >> 29) & 3), 21) << 12
            regs[rd] = (pc & ~0xfff) + imm
        elif w & 0x9f000000 == 0x10000000:                                 # ADR
            rd = w & 31
            imm = sx((((w >> 5) & 0x7ffff) << 2) | ((w >> 29) & 3), 21)
            regs[rd] = pc + imm
        elif w & 0xff800000 == 0x91000000:                                 # ADD Xd, Xn, #imm (no shift)
            rd, rn, imm = w & 31, (w >> 5) & 31, (w >> 10) & 0xfff
            if rn not in regs:
                return None
            regs[rd] = regs[rn] + imm
        elif w & 0xffc00000 == 0xf9400000:                                 # LDR Xt, [Xn, #imm*8]
            rt, rn, imm = w & 31, (w >> 5) & 31, ((w >> 10) & 0xfff) * 8
            if rn not in regs:
                return None
            v = e.u64_at(regs[rn] + imm)
            if v is None:
                return None
            regs[rt] = ("slot", regs[rn] + imm, v)
        elif w & 0xff000000 == 0x58000000:                                 # LDR Xt, literal
            rt = w & 31
            a = pc + sx((w >> 5) & 0x7ffff, 19) * 4
            v = e.u64_at(a)
            if v is None:
                return None
            regs[rt] = v
        elif w & 0xfffffc1f == 0xd61f0000:                                 # BR Xn
            rn = (w >> 5) & 31
            v = regs.get(rn)
            return v
        elif w & 0xfc000000 == 0x14000000:                                 # B
            return pc + sx(w & 0x3ffffff, 26) * 4
        else:
            return None
        pc += 4
    return None
