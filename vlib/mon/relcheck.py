"""relcheck: static psABI recomputation of relocated fields (C01).

From the INPUT objects' relocation tables, wild's `.layout` side file (placement of every kept input
section) and the output symbol table, S, A, P (and TP) are recomputed per relocation site and
compared with the field decoded from the output bytes. Relocation types that are not modelled, or
whose instruction was rewritten by a relaxation, are counted as unobserved, never judged.
"""
import struct

from .. import elf as E
from . import a64flow

M64 = (1 << 64) - 1

X = E.R_X86_64
# type -> (size in bytes, formula)
X86 = {
    X["R64"]: (8, "S+A"), X["R32"]: (4, "S+A"), X["R32S"]: (4, "S+A"), X["R16"]: (2, "S+A"), X["R8"]: (1, "S+A"),
    X["PC32"]: (4, "S+A-P"), X["PC64"]: (8, "S+A-P"), X["PC16"]: (2, "S+A-P"), X["PC8"]: (1, "S+A-P"),
    X["PLT32"]: (4, "S+A-P"), X["TPOFF32"]: (4, "TPOFF"), X["TPOFF64"]: (8, "TPOFF"), X["SIZE32"]: (4, "Z+A"), X["SIZE64"]: (8, "Z+A"),
}
X86_NAMES = {v: k for k, v in X.items()}

A64 = dict(ABS64=257, ABS32=258, ABS16=259, PREL64=260, PREL32=261, PREL16=262, MOVW_UABS_G0=263, MOVW_UABS_G0_NC=264,
           MOVW_UABS_G1=265, MOVW_UABS_G1_NC=266, MOVW_UABS_G2=267, MOVW_UABS_G2_NC=268, MOVW_UABS_G3=269,
           LD_PREL_LO19=273, ADR_PREL_LO21=274, ADR_PREL_PG_HI21=275, ADR_PREL_PG_HI21_NC=276, ADD_ABS_LO12_NC=277,
           LDST8_ABS_LO12_NC=278, TSTBR14=279, CONDBR19=280, JUMP26=282, CALL26=283, LDST16_ABS_LO12_NC=284,
           LDST32_ABS_LO12_NC=285, LDST64_ABS_LO12_NC=286, LDST128_ABS_LO12_NC=299,
           TLSLE_ADD_TPREL_HI12=549, TLSLE_ADD_TPREL_LO12=550, TLSLE_ADD_TPREL_LO12_NC=551)
A64_NAMES = {v: k for k, v in A64.items()}


def sx(v, bits):
    v &= (1 << bits) - 1
    return v - (1 << bits) if v >> (bits - 1) else v


class Inputs:
    """Symbol/section/relocation view of one input object."""

    def __init__(self, path):
        self.path = path
        self.e = E.Elf(path)
        self.syms = self.e.symtab()


def tls_info(out):
    t = out.segs(E.PT_TLS)
    if not t:
        return None
    p = t[0]
    al = max(p.align, 1)
    return dict(start=p.vaddr, size=p.memsz, align=al)


def check_link(out_path, layout, input_paths, machine):
    """Returns (violations, stats). violations: list of (signature, message)."""
    out = E.Elf(out_path)
    osyms = {}
    for sy in out.symtab():
        if sy.name and sy.bind != E.STB_LOCAL and sy.defined:
            osyms.setdefault(sy.name, sy)
    place = {}
    for f in layout["files"]:
        if f["member"] is None:
            place[f["path"]] = f["sections"]
    tls = tls_info(out)
    V, stats = [], {}

    def note(k):
        stats[k] = stats.get(k, 0) + 1
    names = X86_NAMES if machine == "x86_64" else A64_NAMES
    for ip in input_paths:
        secs_place = place.get(ip)
        if secs_place is None:
            note("input-not-in-layout")
            continue
        inp = Inputs(ip)
        e = inp.e
        for rs in e.rela_sections():
            tgt = rs.info
            if tgt >= len(secs_place) or secs_place[tgt] is None:
                continue                      # section discarded or not fully copied (merged strings)
            tsec = e.sections[tgt]
            if not tsec.alloc or tsec.name.startswith(".eh_frame"):
                continue
            sec_addr = secs_place[tgt][0]
            for rl in e.relas(rs):
                tname = names.get(rl.type, str(rl.type))
                sym = inp.syms[rl.sym] if rl.sym < len(inp.syms) else None
                if sym is None:
                    continue
                # S
                S = None
                size = sym.size
                if sym.bind != E.STB_LOCAL and sym.name:
                    o = osyms.get(sym.name)
                    if o is not None:
                        S, size = o.value, o.size
                        if o.type == E.STT_TLS:
                            # st_value of a TLS symbol is its offset in the TLS template
                            S = None if tls is None else tls["start"] + o.value
                    elif sym.shndx == E.SHN_UNDEF and sym.bind == E.STB_WEAK:
                        S = 0
                elif sym.shndx == E.SHN_ABS:
                    S = sym.value
                elif sym.shndx not in (E.SHN_UNDEF, E.SHN_COMMON) and sym.shndx < len(secs_place):
                    pl = secs_place[sym.shndx]
                    if pl is not None:
                        S = pl[0] + sym.value
                        if sym.type == E.STT_TLS and e.sections[sym.shndx].flags & E.SHF_TLS:
                            S = pl[0] + sym.value
                if S is None:
                    note(f"unobserved:symbol-unresolvable:{tname}")
                    continue
                P = sec_addr + rl.offset
                A = rl.addend
                if machine == "x86_64":
                    r = _x86(out, rl.type, tname, S, A, P, size, tls, sym)
                else:
                    r = _a64(out, rl.type, tname, S, A, P, tls, sym)
                if r is None:
                    note(f"unobserved:{tname}")
                elif r is True:
                    note(f"ok:{tname}")
                else:
                    note(f"bad:{tname}")
                    if len(V) < 12:
                        V.append((f"wrong-value:{tname}", f"{ip.split('/')[-1]} section {tsec.name}+{rl.offset:#x} ({tname} against "
                                  f"{sym.name or 'section sym'}, A={A}): place {P:#x} S={S:#x}: {r}"))
    return V, stats


def _x86(out, t, tname, S, A, P, size, tls, sym):
    if t not in X86:
        return None
    n, formula = X86[t]
    raw = out.read_va(P, n)
    if raw is None:
        return f"place {P:#x} not mapped in the output"
    got = int.from_bytes(raw, "little")
    mask = (1 << (8 * n)) - 1
    if formula == "S+A":
        want = (S + A) & mask
    elif formula == "S+A-P":
        want = (S + A - P) & mask
    elif formula == "Z+A":
        want = (size + A) & mask
    else:
        if tls is None:
            return None
        tp = (tls["start"] + tls["size"] + tls["align"] - 1) & ~(tls["align"] - 1)
        if tls["start"] % tls["align"]:
            return None          # misaligned template start: the TP formula is ambiguous (C04 finding)
        want = (S + A - tp) & mask
    if got == want:
        return True
    return f"field holds {got:#x}, psABI value {want:#x}"


def _a64(out, t, tname, S, A, P, tls, sym):
    v = (S + A)
    if t in (A64["ABS64"], A64["ABS32"], A64["ABS16"], A64["PREL64"], A64["PREL32"], A64["PREL16"]):
        n = {257: 8, 258: 4, 259: 2, 260: 8, 261: 4, 262: 2}[t]
        raw = out.read_va(P, n)
        if raw is None:
            return "place not mapped"
        got = int.from_bytes(raw, "little")
        want = (v - (P if t >= 260 else 0)) & ((1 << (8 * n)) - 1)
        return True if got == want else f"field holds {got:#x}, psABI value {want:#x}"
    insn = out.u32_at(P)
    if insn is None:
        return "place not mapped"
    if t in (A64["ADR_PREL_PG_HI21"], A64["ADR_PREL_PG_HI21_NC"]):
        if insn & 0x9f000000 != 0x90000000:
            return None                                  # rewritten (relaxed) instruction
        imm = sx((((insn >> 5) & 0x7ffff) << 2) | ((insn >> 29) & 3), 21)
        want = ((v & ~0xfff) - (P & ~0xfff)) >> 12
        return True if imm == sx(want, 21) else f"ADRP imm {imm:#x}, psABI {want:#x}"
    if t == A64["ADR_PREL_LO21"]:
        if insn & 0x9f000000 != 0x10000000:
            return None
        imm = sx((((insn >> 5) & 0x7ffff) << 2) | ((insn >> 29) & 3), 21)
        return True if imm == v - P else f"ADR imm {imm:#x}, psABI {v - P:#x}"
    if t == A64["ADD_ABS_LO12_NC"]:
        if insn & 0x7f800000 != 0x11000000:
            return None
        imm = (insn >> 10) & 0xfff
        return True if imm == v & 0xfff else f"ADD imm12 {imm:#x}, psABI {v & 0xfff:#x}"
    if t in (A64["LDST8_ABS_LO12_NC"], A64["LDST16_ABS_LO12_NC"], A64["LDST32_ABS_LO12_NC"], A64["LDST64_ABS_LO12_NC"], A64["LDST128_ABS_LO12_NC"]):
        sh = {278: 0, 284: 1, 285: 2, 286: 3, 299: 4}[t]
        if insn & 0x3b000000 != 0x39000000:
            return None
        imm = (insn >> 10) & 0xfff
        want = (v & 0xfff) >> sh
        return True if imm == want else f"LDST imm12 {imm:#x}, psABI {want:#x}"
    if t in (A64["CALL26"], A64["JUMP26"]):
        bt = a64flow.branch_target(insn, P)
        if bt is None or bt[0] not in ("b", "bl"):
            return None
        if bt[1] == v:
            return True
        fin = a64flow.follow_stub(out, bt[1])
        return True if fin == v else f"branch goes to {bt[1]:#x} (stub -> {fin}), target {v:#x}"
    if t in (A64["CONDBR19"], A64["TSTBR14"], A64["LD_PREL_LO19"]):
        if t == A64["LD_PREL_LO19"]:
            if insn & 0x3b000000 != 0x18000000:
                return None
            dest = P + sx((insn >> 5) & 0x7ffff, 19) * 4
        else:
            bt = a64flow.branch_target(insn, P)
            if bt is None:
                return None
            dest = bt[1]
        return True if dest == v else f"goes to {dest:#x}, target {v:#x}"
    if t in (263, 264, 265, 266, 267, 268, 269):
        if insn & 0x1f800000 != 0x12800000:
            return None
        g = {263: 0, 264: 0, 265: 1, 266: 1, 267: 2, 268: 2, 269: 3}[t]
        imm = (insn >> 5) & 0xffff
        want = (v >> (16 * g)) & 0xffff
        return True if imm == want else f"MOVW imm16 {imm:#x}, psABI {want:#x}"
    if t in (A64["TLSLE_ADD_TPREL_HI12"], A64["TLSLE_ADD_TPREL_LO12"], A64["TLSLE_ADD_TPREL_LO12_NC"]):
        if tls is None or insn & 0x7f000000 != 0x11000000:
            return None
        if tls["start"] % tls["align"]:
            return None
        tcb = (16 + tls["align"] - 1) & ~(tls["align"] - 1)
        off = v - tls["start"] + tcb
        imm = (insn >> 10) & 0xfff
        want = (off >> 12) & 0xfff if t == 549 else off & 0xfff
        return True if imm == want else f"TPREL imm12 {imm:#x}, psABI {want:#x}"
    return None
