"""Runs a process with a watchdog that distinguishes a quiescent hang from slowness."""
import os
import signal
import subprocess
import time

from ..common import Result


def _cpu_ticks(pid):
    total = 0
    states = []
    try:
        for t in os.listdir(f"/proc/{pid}/task"):
            try:
                f = open(f"/proc/{pid}/task/{t}/stat").read()
            except OSError:
                continue
            rest = f[f.rindex(")") + 2:].split()
            states.append(rest[0])
            total += int(rest[11]) + int(rest[12])
    except OSError:
        return None, []
    return total, states


def run_watch(cmd, env=None, cwd=None, timeout=120, extra_env=None):
    """Returns (Result, hang_info). hang_info is None unless the watchdog fired; then it is
    {'quiescent': bool, 'states': [...]} sampled before the process was killed."""
    e = dict(os.environ if env is None else env)
    if extra_env:
        e.update(extra_env)
    t0 = time.time()
    p = subprocess.Popen(cmd, stdin=subprocess.DEVNULL, stdout=subprocess.PIPE, stderr=subprocess.PIPE, env=e,
                         cwd=cwd, start_new_session=True)
    try:
        out, err = p.communicate(timeout=timeout)
        return Result(p.returncode, out, err, False, time.time() - t0), None
    except subprocess.TimeoutExpired:
        a, _ = _cpu_ticks(p.pid)
        time.sleep(2.0)
        b, states = _cpu_ticks(p.pid)
        quiescent = a is not None and b is not None and a == b and all(s in ("S", "D", "I") for s in states)
        try:
            os.killpg(p.pid, signal.SIGKILL)
        except OSError:
            pass
        try:
            out, err = p.communicate(timeout=10)
        except Exception:
            out, err = b"", b""
        return Result(p.returncode, out, err, True, time.time() - t0), {"quiescent": quiescent, "states": states}
