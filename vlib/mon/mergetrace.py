"""Offline checker for the parallel string-merge protocol (C40) over the H3 event log.

Events (see /repo/libwild/src/string_merging.rs hook sites):
  MERGE_BEGIN G capacity available        one merge of one output section starts (G input groups)
  SLOT_SET g b prev<<4|new                under the slot lock: slot (g,b) replaced (0 Empty, 1 Waiting, 2 Strings)
  INPUT_BEGIN g | INPUT_TASK_END remaining
  RESERVE_OK seen n | RESERVE_FAIL seen n reason(0 insufficient,1 lost CAS) | UNRESERVE n | POOL_RETURN 1
  BUCKET_TAKE g b n   under the slot lock: bucket b took the strings of group g
  BUCKET_PARK g b st  under the slot lock: bucket b parked in slot (g,b) (found state st)
  BUCKET_DONE b idx
  MERGE_END G finished_buckets available
"""
import hashlib
from collections import Counter

KINDS = {"MERGE_BEGIN", "SLOT_SET", "INPUT_BEGIN", "INPUT_TASK_END", "RESERVE_OK", "RESERVE_FAIL", "UNRESERVE",
         "POOL_RETURN", "BUCKET_TAKE", "BUCKET_PARK", "BUCKET_DONE", "MERGE_END"}
EMPTY, WAITING, STRINGS = 0, 1, 2
NAMES = {0: "Empty", 1: "WaitingForStrings", 2: "Strings"}


def segments(evs):
    """Splits the event list into per-merge segments [MERGE_BEGIN .. MERGE_END]."""
    segs, cur = [], None
    for e in evs:
        if e[2] not in KINDS:
            continue
        if e[2] == "MERGE_BEGIN":
            if cur is not None:
                segs.append((cur, False))
            cur = [e]
        elif cur is not None:
            cur.append(e)
            if e[2] == "MERGE_END":
                segs.append((cur, True))
                cur = None
    if cur is not None:
        segs.append((cur, False))
    return segs


def check_segment(seg, ended, link_ok=True):
    V = []
    st = Counter()

    def bad(sig, desc):
        if len(V) < 20:
            V.append((sig, desc))
    _, _, _, G, cap, avail0 = seg[0]
    st["G"] = G
    st["capacity"] = cap
    if avail0 != cap:
        bad("pool:not-full-at-start", f"pool available {avail0} != capacity {cap} at merge start")
    state = {}
    nxt = Counter()
    done = Counter()
    inputs = Counter()
    taken = Counter()
    buckets = set()
    bal = cap
    minbal, maxbal = cap, cap
    last_fail_seq = None
    progress_after_fail = True
    for seq, tid, kind, a, b, c in seg[1:]:
        if kind == "SLOT_SET":
            prev, new = c >> 4, c & 0xf
            buckets.add(b)
            cur = state.get((a, b), EMPTY)
            if cur != prev:
                bad("slot:state-mismatch", f"slot (g={a},b={b}) replaced: code saw {NAMES.get(prev)} but the model holds {NAMES.get(cur)} (seq {seq})")
            if prev == STRINGS:
                bad("slot:strings-overwritten", f"slot (g={a},b={b}) already held strings when new strings were stored: group processed twice or strings lost (seq {seq})")
            if new == WAITING and prev != EMPTY:
                bad("slot:bad-transition", f"slot (g={a},b={b}) {NAMES.get(prev)}->Waiting (seq {seq})")
            if prev == WAITING and new == STRINGS:
                st["park_resume_handoffs"] += 1
            state[(a, b)] = new
            progress_after_fail = True
        elif kind == "INPUT_BEGIN":
            inputs[a] += 1
            if inputs[a] > 1:
                bad("input:group-processed-twice", f"input group {a} processed {inputs[a]} times (seq {seq})")
            if not (0 <= a < G):
                bad("input:group-out-of-range", f"input group {a} outside 0..{G} (seq {seq})")
            progress_after_fail = True
        elif kind == "BUCKET_TAKE":
            cur = state.get((a, b), EMPTY)
            if cur != STRINGS:
                bad("bucket:took-from-non-strings-slot", f"bucket {b} took group {a} but the model slot holds {NAMES.get(cur)} (seq {seq})")
            if nxt[b] != a:
                bad("bucket:out-of-order", f"bucket {b} took group {a} but the next group in order is {nxt[b]} (seq {seq})")
            taken[(a, b)] += 1
            if taken[(a, b)] > 1:
                bad("bucket:took-group-twice", f"bucket {b} took group {a} twice (seq {seq})")
            state[(a, b)] = EMPTY
            nxt[b] = a + 1
            st["bucket_takes"] += 1
            progress_after_fail = True
        elif kind == "BUCKET_PARK":
            cur = state.get((a, b), EMPTY)
            if cur != c:
                bad("slot:state-mismatch", f"bucket {b} parking in (g={a}) saw {NAMES.get(c)} but the model holds {NAMES.get(cur)} (seq {seq})")
            if c != EMPTY:
                bad("bucket:parked-over-non-empty", f"bucket {b} parked in slot (g={a}) that held {NAMES.get(c)} (seq {seq})")
            if nxt[b] != a:
                bad("bucket:out-of-order", f"bucket {b} parked at group {a} but its next group is {nxt[b]} (seq {seq})")
            state[(a, b)] = WAITING
            st["bucket_parks"] += 1
        elif kind == "BUCKET_DONE":
            done[a] += 1
            if b != G or nxt[a] != G:
                bad("bucket:finished-early", f"bucket {a} finished at group index {b} (model next {nxt[a]}) of {G} (seq {seq})")
            if done[a] > 1:
                bad("bucket:finished-twice", f"bucket {a} finished twice (seq {seq})")
        elif kind == "RESERVE_OK":
            if a < b or a > cap:
                bad("pool:reserve-ok-with-bad-count", f"reservation of {b} succeeded with available={a} capacity={cap} (seq {seq})")
            bal -= b
            st["reservations"] += 1
        elif kind == "RESERVE_FAIL":
            if c == 0 and a >= b:
                bad("pool:reserve-failed-with-enough", f"reservation of {b} failed although available={a} (seq {seq})")
            st["failed_reservations_insufficient" if c == 0 else "failed_reservations_lost_cas"] += 1
            last_fail_seq = seq
            progress_after_fail = False
        elif kind == "UNRESERVE":
            bal += a
        elif kind == "POOL_RETURN":
            bal += a
        elif kind == "MERGE_END":
            st["ended"] = 1
            if link_ok:
                if b != len(buckets) and buckets:
                    bad("termination:buckets-unfinished", f"{b} of {len(buckets)} buckets finished at merge end")
                if c != cap:
                    bad("pool:not-conserved", f"pool available {c} != capacity {cap} at merge end")
        minbal, maxbal = min(minbal, bal), max(maxbal, bal)
    st["B"] = len(buckets)
    if ended and link_ok:
        if bal != cap:
            bad("pool:not-conserved", f"reservations - returns leave {bal} of {cap}")
        for g in range(G):
            if inputs[g] != 1:
                bad("input:group-not-processed", f"input group {g} processed {inputs[g]} times")
                break
        for b in buckets:
            if done[b] != 1:
                bad("termination:bucket-never-finished", f"bucket {b} finished {done[b]} times (next group {nxt[b]} of {G})")
            for g in range(G):
                if taken[(g, b)] != 1:
                    bad("bucket:group-not-taken-exactly-once", f"bucket {b} took group {g} {taken[(g, b)]} times")
                    break
        left = [(k, v) for k, v in state.items() if v != EMPTY]
        if left:
            bad("slot:not-empty-at-end", f"slot {left[0][0]} holds {NAMES.get(left[0][1])} at merge end")
    fp = hashlib.sha256(" ".join(f"{k}{a}.{b}" for _, _, k, a, b, _ in seg[:4000]).encode()).hexdigest()[:16]
    st["fingerprint"] = fp
    st["events"] = len(seg)
    return V, st


def check(evs, link_ok=True, complete=True):
    allV, stats = [], []
    for seg, ended in segments(evs):
        V, st = check_segment(seg, ended, link_ok)
        if complete and link_ok and not ended:
            V.append(("termination:merge-never-ended", f"a merge of {st.get('G')} groups began and never ended"))
        allV += V
        stats.append(st)
    return allV, stats


def hang_witness(evs):
    for seg, ended in segments(evs):
        if ended:
            continue
        V, st = check_segment(seg, False, link_ok=False)
        G = st.get("G", 0)
        inputs = {e[3] for e in seg if e[2] == "INPUT_BEGIN"}
        done = {e[3] for e in seg if e[2] == "BUCKET_DONE"}
        return f"merge of {G} groups: {len(inputs)} groups processed, {len(done)} buckets finished, then no progress"
    return None
