"""Minimal ELF64 little-endian reader used by the monitors (stdlib only).

Covers: headers, sections, segments, symbol tables, RELA/RELR, dynamic section, GNU/SysV hash,
version tables, notes. Also a reader for archives (regular and thin).
"""
import struct

# e_type
ET_REL, ET_EXEC, ET_DYN = 1, 2, 3
# sh_type
SHT_NULL, SHT_PROGBITS, SHT_SYMTAB, SHT_STRTAB, SHT_RELA, SHT_HASH, SHT_DYNAMIC, SHT_NOTE, SHT_NOBITS, SHT_REL = range(10)
SHT_DYNSYM = 11
SHT_INIT_ARRAY, SHT_FINI_ARRAY, SHT_PREINIT_ARRAY, SHT_GROUP, SHT_SYMTAB_SHNDX, SHT_RELR = 14, 15, 16, 17, 18, 19
SHT_GNU_HASH = 0x6ffffff6
SHT_GNU_VERDEF, SHT_GNU_VERNEED, SHT_GNU_VERSYM = 0x6ffffffd, 0x6ffffffe, 0x6fffffff
SHT_X86_64_UNWIND = 0x70000001
# sh_flags
SHF_WRITE, SHF_ALLOC, SHF_EXECINSTR = 1, 2, 4
SHF_MERGE, SHF_STRINGS, SHF_INFO_LINK, SHF_LINK_ORDER = 0x10, 0x20, 0x40, 0x80
SHF_GROUP, SHF_TLS, SHF_COMPRESSED = 0x200, 0x400, 0x800
SHF_GNU_RETAIN = 0x200000
SHF_EXCLUDE = 0x80000000
# p_type
PT_NULL, PT_LOAD, PT_DYNAMIC, PT_INTERP, PT_NOTE, PT_SHLIB, PT_PHDR, PT_TLS = range(8)
PT_GNU_EH_FRAME, PT_GNU_STACK, PT_GNU_RELRO, PT_GNU_PROPERTY = 0x6474e550, 0x6474e551, 0x6474e552, 0x6474e553
PF_X, PF_W, PF_R = 1, 2, 4
# symbols
STB_LOCAL, STB_GLOBAL, STB_WEAK, STB_GNU_UNIQUE = 0, 1, 2, 10
STT_NOTYPE, STT_OBJECT, STT_FUNC, STT_SECTION, STT_FILE, STT_COMMON, STT_TLS = range(7)
STT_GNU_IFUNC = 10
STV_DEFAULT, STV_INTERNAL, STV_HIDDEN, STV_PROTECTED = range(4)
SHN_UNDEF, SHN_ABS, SHN_COMMON, SHN_XINDEX = 0, 0xfff1, 0xfff2, 0xffff
# dynamic tags
DT = dict(NULL=0, NEEDED=1, PLTRELSZ=2, PLTGOT=3, HASH=4, STRTAB=5, SYMTAB=6, RELA=7, RELASZ=8, RELAENT=9,
          STRSZ=10, SYMENT=11, INIT=12, FINI=13, SONAME=14, RPATH=15, SYMBOLIC=16, REL=17, RELSZ=18,
          RELENT=19, PLTREL=20, DEBUG=21, TEXTREL=22, JMPREL=23, BIND_NOW=24, INIT_ARRAY=25,
          FINI_ARRAY=26, INIT_ARRAYSZ=27, FINI_ARRAYSZ=28, RUNPATH=29, FLAGS=30, PREINIT_ARRAY=32,
          PREINIT_ARRAYSZ=33, SYMTAB_SHNDX=34, RELRSZ=35, RELR=36, RELRENT=37,
          GNU_HASH=0x6ffffef5, VERSYM=0x6ffffff0, RELACOUNT=0x6ffffff9, FLAGS_1=0x6ffffffb,
          VERDEF=0x6ffffffc, VERDEFNUM=0x6ffffffd, VERNEED=0x6ffffffe, VERNEEDNUM=0x6fffffff)
DT_NAME = {v: k for k, v in DT.items()}
# x86-64 relocations
R_X86_64 = dict(NONE=0, R64=1, PC32=2, GOT32=3, PLT32=4, COPY=5, GLOB_DAT=6, JUMP_SLOT=7, RELATIVE=8,
                GOTPCREL=9, R32=10, R32S=11, R16=12, PC16=13, R8=14, PC8=15, DTPMOD64=16, DTPOFF64=17,
                TPOFF64=18, TLSGD=19, TLSLD=20, DTPOFF32=21, GOTTPOFF=22, TPOFF32=23, PC64=24,
                GOTOFF64=25, GOTPC32=26, SIZE32=32, SIZE64=33, GOTPC32_TLSDESC=34, TLSDESC_CALL=35,
                TLSDESC=36, IRELATIVE=37, GOTPCRELX=41, REX_GOTPCRELX=42)
R_X86_64_NAME = {v: k for k, v in R_X86_64.items()}
R_AARCH64_RELATIVE, R_AARCH64_GLOB_DAT, R_AARCH64_JUMP_SLOT, R_AARCH64_ABS64 = 1027, 1025, 1026, 257
EM_X86_64, EM_AARCH64, EM_RISCV = 62, 183, 243


class ElfError(Exception):
    pass


class Section:
    __slots__ = ("index", "name_off", "name", "type", "flags", "addr", "offset", "size", "link", "info",
                 "addralign", "entsize")

    def __repr__(self):
        return f"<Sec {self.index} {self.name} type={self.type:#x} flags={self.flags:#x} addr={self.addr:#x} off={self.offset:#x} size={self.size:#x}>"

    @property
    def alloc(self):
        return bool(self.flags & SHF_ALLOC)

    @property
    def nobits(self):
        return self.type == SHT_NOBITS

    @property
    def filesize(self):
        return 0 if self.type == SHT_NOBITS else self.size


class Segment:
    __slots__ = ("index", "type", "flags", "offset", "vaddr", "paddr", "filesz", "memsz", "align")

    def __repr__(self):
        return f"<Seg {self.index} type={self.type:#x} flags={self.flags} off={self.offset:#x} va={self.vaddr:#x} fsz={self.filesz:#x} msz={self.memsz:#x} al={self.align:#x}>"


class Symbol:
    __slots__ = ("index", "name", "value", "size", "info", "other", "shndx", "version", "hidden_version")

    @property
    def bind(self):
        return self.info >> 4

    @property
    def type(self):
        return self.info & 0xf

    @property
    def vis(self):
        return self.other & 3

    @property
    def defined(self):
        return self.shndx != SHN_UNDEF

    def __repr__(self):
        return f"<Sym {self.index} {self.name} val={self.value:#x} size={self.size} bind={self.bind} type={self.type} vis={self.vis} shndx={self.shndx:#x}>"


class Rela:
    __slots__ = ("offset", "type", "sym", "addend")

    def __repr__(self):
        return f"<Rela off={self.offset:#x} type={self.type} sym={self.sym} add={self.addend:#x}>"


def cstr(data, off):
    end = data.find(b"\0", off)
    if end < 0:
        raise ElfError("unterminated string")
    return data[off:end].decode("utf-8", "replace")


class Elf:
    def __init__(self, data, path=None):
        if isinstance(data, str):
            path = data
            with open(data, "rb") as f:
                data = f.read()
        self.data = data
        self.path = path
        d = data
        if len(d) < 64 or d[:4] != b"\x7fELF":
            raise ElfError("not an ELF file")
        if d[4] != 2 or d[5] != 1:
            raise ElfError("only ELF64 LE supported")
        (self.e_type, self.e_machine, self.e_version, self.e_entry, self.e_phoff, self.e_shoff, self.e_flags,
         self.e_ehsize, self.e_phentsize, self.e_phnum, self.e_shentsize, self.e_shnum,
         self.e_shstrndx) = struct.unpack_from("<HHIQQQIHHHHHH", d, 16)
        self.sections = []
        self.segments = []
        shnum = self.e_shnum
        shstrndx = self.e_shstrndx
        if self.e_shoff:
            if self.e_shoff + 64 > len(d):
                raise ElfError("e_shoff out of range")
            if shnum == 0:
                shnum = struct.unpack_from("<Q", d, self.e_shoff + 32)[0]
            if shstrndx == SHN_XINDEX:
                shstrndx = struct.unpack_from("<I", d, self.e_shoff + 40)[0]
            if self.e_shoff + shnum * 64 > len(d):
                raise ElfError("section headers out of range")
            for i in range(shnum):
                s = Section()
                (s.name_off, s.type, s.flags, s.addr, s.offset, s.size, s.link, s.info, s.addralign,
                 s.entsize) = struct.unpack_from("<IIQQQQIIQQ", d, self.e_shoff + i * 64)
                s.index = i
                s.name = ""
                self.sections.append(s)
            if shstrndx < len(self.sections):
                st = self.sections[shstrndx]
                for s in self.sections:
                    try:
                        s.name = cstr(d, st.offset + s.name_off) if st.offset + s.name_off < len(d) else ""
                    except ElfError:
                        s.name = ""
        self.shstrndx = shstrndx
        if self.e_phoff:
            if self.e_phoff + self.e_phnum * 56 > len(d):
                raise ElfError("program headers out of range")
            for i in range(self.e_phnum):
                p = Segment()
                (p.type, p.flags, p.offset, p.vaddr, p.paddr, p.filesz, p.memsz,
                 p.align) = struct.unpack_from("<IIQQQQQQ", d, self.e_phoff + i * 56)
                p.index = i
                self.segments.append(p)
        self._symcache = {}

    # ---- basic accessors ----------------------------------------------------------------------
    def section(self, name):
        for s in self.sections:
            if s.name == name:
                return s
        return None

    def sections_named(self, name):
        return [s for s in self.sections if s.name == name]

    def section_by_type(self, t):
        for s in self.sections:
            if s.type == t:
                return s
        return None

    def sec_data(self, s):
        if s.type == SHT_NOBITS:
            return b""
        return self.data[s.offset:s.offset + s.size]

    def segs(self, t):
        return [p for p in self.segments if p.type == t]

    def loads(self):
        return self.segs(PT_LOAD)

    def vaddr_to_off(self, va):
        for p in self.loads():
            if p.vaddr <= va < p.vaddr + p.filesz:
                return p.offset + (va - p.vaddr)
        return None

    def read_va(self, va, n):
        """Bytes at virtual address (zero-fill for the bss part of a segment); None if unmapped."""
        for p in self.loads():
            if p.vaddr <= va and va + n <= p.vaddr + p.memsz:
                off = p.offset + (va - p.vaddr)
                avail = max(0, min(n, p.vaddr + p.filesz - va))
                b = self.data[off:off + avail]
                return b + b"\0" * (n - len(b))
        return None

    def u64_at(self, va):
        b = self.read_va(va, 8)
        return None if b is None else struct.unpack("<Q", b)[0]

    def u32_at(self, va):
        b = self.read_va(va, 4)
        return None if b is None else struct.unpack("<I", b)[0]

    def section_at(self, va, alloc_only=True):
        for s in self.sections:
            if alloc_only and not s.alloc:
                continue
            if s.addr <= va < s.addr + max(s.size, 1):
                return s
        return None

    # ---- symbols ------------------------------------------------------------------------------
    def symbols(self, sec):
        """Symbols of a SHT_SYMTAB / SHT_DYNSYM section (object or name)."""
        if isinstance(sec, str):
            sec = self.section(sec)
        if sec is None:
            return []
        if sec.index in self._symcache:
            return self._symcache[sec.index]
        if sec.link >= len(self.sections):
            raise ElfError("symtab sh_link out of range")
        strs = self.sections[sec.link]
        sd = self.data[strs.offset:strs.offset + strs.size]
        out = []
        n = sec.size // 24
        shndx_tab = None
        for s in self.sections:
            if s.type == SHT_SYMTAB_SHNDX and s.link == sec.index:
                shndx_tab = s
        for i in range(n):
            sy = Symbol()
            (name_off, sy.info, sy.other, sy.shndx, sy.value, sy.size) = struct.unpack_from(
                "<IBBHQQ", self.data, sec.offset + i * 24)
            if sy.shndx == SHN_XINDEX and shndx_tab is not None:
                sy.shndx = struct.unpack_from("<I", self.data, shndx_tab.offset + 4 * i)[0]
            sy.index = i
            sy.version = None
            sy.hidden_version = False
            end = sd.find(b"\0", name_off)
            sy.name = sd[name_off:end].decode("utf-8", "replace") if 0 <= name_off < len(sd) and end >= 0 else ""
            out.append(sy)
        self._symcache[sec.index] = out
        return out

    def symtab(self):
        s = self.section_by_type(SHT_SYMTAB)
        return self.symbols(s) if s else []

    def dynsym(self):
        s = self.section_by_type(SHT_DYNSYM)
        return self.symbols(s) if s else []

    def sym_by_name(self, name, table=None):
        for sy in (table if table is not None else self.symtab()):
            if sy.name == name and sy.type != STT_SECTION:
                return sy
        return None

    def global_defs(self, table=None):
        """name -> Symbol for defined non-local symbols."""
        out = {}
        for sy in (table if table is not None else self.symtab()):
            if sy.bind != STB_LOCAL and sy.defined and sy.name:
                out.setdefault(sy.name, sy)
        return out

    # ---- relocations --------------------------------------------------------------------------
    def relas(self, sec):
        if isinstance(sec, str):
            sec = self.section(sec)
        if sec is None:
            return []
        out = []
        for i in range(sec.size // 24):
            r = Rela()
            off, info, add = struct.unpack_from("<QQq", self.data, sec.offset + i * 24)
            r.offset, r.type, r.sym, r.addend = off, info & 0xffffffff, info >> 32, add
            out.append(r)
        return out

    def rela_sections(self):
        return [s for s in self.sections if s.type == SHT_RELA]

    def relr_addrs(self, sec=None):
        """Decodes a SHT_RELR section into the list of relocated addresses."""
        if sec is None:
            sec = self.section_by_type(SHT_RELR)
        if sec is None:
            return []
        out = []
        base = None
        for i in range(sec.size // 8):
            e = struct.unpack_from("<Q", self.data, sec.offset + i * 8)[0]
            if e & 1 == 0:
                out.append(e)
                base = e + 8
            else:
                if base is None:
                    raise ElfError("RELR bitmap before address entry")
                bits = e >> 1
                j = 0
                while bits:
                    if bits & 1:
                        out.append(base + 8 * j)
                    bits >>= 1
                    j += 1
                base += 8 * 63
        return out

    # ---- dynamic ------------------------------------------------------------------------------
    def dynamic(self):
        """List of (tag, value) up to DT_NULL."""
        sec = self.section_by_type(SHT_DYNAMIC)
        if sec is not None:
            off, size = sec.offset, sec.size
        else:
            seg = self.segs(PT_DYNAMIC)
            if not seg:
                return []
            off, size = seg[0].offset, seg[0].filesz
        out = []
        for i in range(size // 16):
            tag, val = struct.unpack_from("<qQ", self.data, off + 16 * i)
            if tag == 0:
                break
            out.append((tag, val))
        return out

    def dyn(self, tagname):
        t = DT[tagname]
        return [v for (k, v) in self.dynamic() if k == t]

    def dynstr(self, off):
        st = self.dyn("STRTAB")
        if not st:
            return None
        fo = self.vaddr_to_off(st[0])
        return cstr(self.data, fo + off)

    def needed(self):
        return [self.dynstr(v) for v in self.dyn("NEEDED")]

    def soname(self):
        v = self.dyn("SONAME")
        return self.dynstr(v[0]) if v else None

    # ---- notes --------------------------------------------------------------------------------
    def notes(self, blob, align=4):
        out = []
        off = 0
        while off + 12 <= len(blob):
            namesz, descsz, ntype = struct.unpack_from("<III", blob, off)
            off += 12
            name = blob[off:off + namesz]
            off += (namesz + 3) & ~3
            desc = blob[off:off + descsz]
            off += (descsz + align - 1) & ~(align - 1)
            out.append((name.rstrip(b"\0").decode("latin1"), ntype, desc))
        return out

    def gnu_properties(self):
        """Returns dict pr_type -> bytes from .note.gnu.property (first note)."""
        s = self.section(".note.gnu.property")
        if s is None:
            return None
        props = {}
        for name, ntype, desc in self.notes(self.sec_data(s), 8):
            if name == "GNU" and ntype == 5:
                off = 0
                while off + 8 <= len(desc):
                    pt, sz = struct.unpack_from("<II", desc, off)
                    off += 8
                    props[pt] = desc[off:off + sz]
                    off += (sz + 7) & ~7
        return props

    # ---- versions -----------------------------------------------------------------------------
    def versym(self):
        s = self.section_by_type(SHT_GNU_VERSYM)
        if s is None:
            return None
        return list(struct.unpack_from(f"<{s.size // 2}H", self.data, s.offset))

    def verdefs(self):
        """List of dicts: ndx, flags, hash, names (first is the node name, rest are parents)."""
        s = self.section_by_type(SHT_GNU_VERDEF)
        if s is None:
            return []
        strs = self.sections[s.link]
        out = []
        off = s.offset
        for _ in range(s.info if s.info else 1 << 16):
            ver, flags, ndx, cnt, h, aux, nxt = struct.unpack_from("<HHHHIII", self.data, off)
            names = []
            aoff = off + aux
            for _ in range(cnt):
                nm, anext = struct.unpack_from("<II", self.data, aoff)
                names.append(cstr(self.data, strs.offset + nm))
                if anext == 0:
                    break
                aoff += anext
            out.append(dict(version=ver, flags=flags, ndx=ndx, cnt=cnt, hash=h, names=names, next=nxt))
            if nxt == 0:
                break
            off += nxt
        return out

    def verneeds(self):
        s = self.section_by_type(SHT_GNU_VERNEED)
        if s is None:
            return []
        strs = self.sections[s.link]
        out = []
        off = s.offset
        for _ in range(s.info if s.info else 1 << 16):
            ver, cnt, file_, aux, nxt = struct.unpack_from("<HHIII", self.data, off)
            auxs = []
            aoff = off + aux
            for _ in range(cnt):
                h, flags, other, nm, anext = struct.unpack_from("<IHHII", self.data, aoff)
                auxs.append(dict(hash=h, flags=flags, other=other, name=cstr(self.data, strs.offset + nm)))
                if anext == 0:
                    break
                aoff += anext
            out.append(dict(version=ver, file=cstr(self.data, strs.offset + file_), aux=auxs, next=nxt))
            if nxt == 0:
                break
            off += nxt
        return out


def elf_hash(name):
    h = 0
    for c in name.encode():
        h = ((h << 4) + c) & 0xffffffff
        g = h & 0xf0000000
        if g:
            h ^= g >> 24
        h &= ~g & 0xffffffff
    return h


def gnu_hash(name):
    h = 5381
    for c in name.encode():
        h = (h * 33 + c) & 0xffffffff
    return h


# ---- archives ----------------------------------------------------------------------------------

def ar_members(path):
    """Yields (name, offset, size, is_thin_ref) for a regular or thin archive."""
    with open(path, "rb") as f:
        data = f.read()
    thin = data.startswith(b"!<thin>\n")
    if not (thin or data.startswith(b"!<arch>\n")):
        raise ElfError("not an archive")
    off = 8
    longnames = b""
    out = []
    while off + 60 <= len(data):
        hdr = data[off:off + 60]
        name = hdr[:16].decode("latin1").rstrip()
        try:
            size = int(hdr[48:58].decode().strip())
        except ValueError:
            raise ElfError("bad archive member size")
        body = off + 60
        special = name in ("/", "//", "/SYM64/")
        if name == "//":
            longnames = data[body:body + size]
        elif not special:
            if name.startswith("/") and name[1:].isdigit():
                o = int(name[1:])
                end = longnames.find(b"\n", o)
                name = longnames[o:end].decode().rstrip("/")
            else:
                name = name.rstrip("/")
            out.append((name, body, size, thin))
        if thin and not special:
            off = body
        else:
            off = body + size
        off += off & 1
    return out
