"""Independent section-reachability model over the INPUT objects of a link (C05, also used by C10).

Nothing here looks at the linker's output except the list of loaded files (`.layout` names the
objects / archive members that took part in the link, in command-line order).

    files = load_files(layout)                 # list[InFile] (regular objects only, in link order)
    m = Model(files, roots=Roots(...))         # symbol resolution + relocation graph
    m.closure()                                # {(file index, section index): Reason}
    m.lost(layout)                             # closure members without a placement

Edge kinds:  reloc-global, reloc-weak, reloc-local-symbol, reloc-section-symbol, reloc-none,
             start-stop-symbol, eh-frame-lsda, eh-frame-personality
Root kinds:  entry, undefined-option, exported-symbol, referenced-by-shared-object, retain-flag, note,
             init-array, fini-array, preinit-array, ctors, dtors, init-fini-section, script-keep
"""
import fnmatch
import re

from . import elf as E
from . import ehframe

C_IDENT = re.compile(r"^[A-Za-z_][A-Za-z0-9_]*$")
GRP_COMDAT = 1


class InFile:
    def __init__(self, path, member, elf, index):
        self.path, self.member, self.elf, self.index = path, member, elf, index
        self.syms = elf.symtab()
        self.discarded = set()      # section indices in COMDAT groups that lost
        self.relas = {}             # target section index -> list of Rela

    @property
    def label(self):
        import os
        b = os.path.basename(self.path)
        return f"{b}({self.member})" if self.member else b


_file_cache = {}


def _read(path):
    d = _file_cache.get(path)
    if d is None:
        with open(path, "rb") as f:
            d = f.read()
        if len(_file_cache) > 64:
            _file_cache.clear()
        _file_cache[path] = d
    return d


def load_files(layout, cwd=None):
    """InFile list from a parsed `.layout` (regular objects and loaded archive members)."""
    import os
    out = []
    for i, f in enumerate(layout["files"]):
        data = _read(os.path.join(cwd, f["path"]) if cwd else f["path"])
        if f["member_range"] is not None:
            s, e = f["member_range"]
            data = data[s:e]
        try:
            el = E.Elf(bytes(data), path=f["path"])
        except E.ElfError:
            out.append(None)
            continue
        if el.e_type != E.ET_REL:
            out.append(None)
            continue
        out.append(InFile(f["path"], f["member"], el, i))
    return out


class Roots:
    def __init__(self, entry="_start", undefined=(), export_all=False, export_names=(), keep_patterns=None,
                 default_script=True, shared_undefs=()):
        self.entry = entry
        self.undefined = list(undefined)
        self.export_all = export_all
        self.export_names = set(export_names)
        self.keep_patterns = keep_patterns or []     # section-name globs under KEEP in a user script
        self.default_script = default_script         # GNU ld's built-in script (its KEEPs apply)
        self.shared_undefs = set(shared_undefs)      # names left undefined by input shared objects


# what GNU ld's default script keeps (section name -> root kind)
def _default_keep_kind(name, typ):
    if typ == E.SHT_INIT_ARRAY or name == ".init_array" or name.startswith(".init_array."):
        return "init-array"
    if typ == E.SHT_FINI_ARRAY or name == ".fini_array" or name.startswith(".fini_array."):
        return "fini-array"
    if typ == E.SHT_PREINIT_ARRAY or name == ".preinit_array":
        return "preinit-array"
    if name == ".ctors" or name.startswith(".ctors."):
        return "ctors"
    if name == ".dtors" or name.startswith(".dtors."):
        return "dtors"
    if name in (".init", ".fini"):
        return "init-fini-section"
    return None


PLAIN = ("reloc-global", "reloc-weak", "reloc-local-symbol", "reloc-section-symbol")


class Model:
    def __init__(self, files, roots):
        self.files = [f for f in files]
        self.roots = roots
        self.notes = {}
        self._resolve_groups()
        self._resolve_symbols()
        self._index_relocs()
        self._eh_edges = None

    # ---- COMDAT: the first group with a given signature wins -------------------------------------
    def _resolve_groups(self):
        seen = {}
        for f in self.files:
            if f is None:
                continue
            e = f.elf
            for s in e.sections:
                if s.type != E.SHT_GROUP:
                    continue
                d = e.sec_data(s)
                if len(d) < 4:
                    continue
                import struct
                words = struct.unpack_from(f"<{len(d) // 4}I", d)
                if not words[0] & GRP_COMDAT:
                    continue
                sig = f.syms[s.info].name if s.info < len(f.syms) else ""
                if f.syms[s.info].type == E.STT_SECTION and s.info < len(f.syms):
                    shx = f.syms[s.info].shndx
                    sig = e.sections[shx].name if shx < len(e.sections) else sig
                if sig in seen:
                    f.discarded.update(words[1:])
                    f.discarded.add(s.index)
                else:
                    seen[sig] = f.index

    def _resolve_symbols(self):
        """name -> (file, Symbol) by ELF rules over the loaded regular objects: first strong
        definition, else first weak one. Also the merged visibility of every name."""
        self.defs = {}
        self.vis = {}
        for f in self.files:
            if f is None:
                continue
            for sy in f.syms:
                if sy.bind == E.STB_LOCAL or not sy.name:
                    continue
                v = sy.vis
                if v != E.STV_DEFAULT:
                    old = self.vis.get(sy.name, E.STV_DEFAULT)
                    # hidden/internal beat protected beat default
                    rank = {E.STV_DEFAULT: 0, E.STV_PROTECTED: 1, E.STV_HIDDEN: 2, E.STV_INTERNAL: 3}
                    if rank[v] > rank[old]:
                        self.vis[sy.name] = v
                if sy.shndx in (E.SHN_UNDEF, E.SHN_COMMON):
                    continue
                if sy.shndx != E.SHN_ABS and sy.shndx in f.discarded:
                    continue
                cur = self.defs.get(sy.name)
                strong = sy.bind in (E.STB_GLOBAL, E.STB_GNU_UNIQUE)
                if cur is None or (strong and cur[1].bind == E.STB_WEAK):
                    self.defs[sy.name] = (f, sy)

    def _index_relocs(self):
        for f in self.files:
            if f is None:
                continue
            for rs in f.elf.rela_sections():
                f.relas.setdefault(rs.info, []).extend(f.elf.relas(rs))

    # ---- graph ---------------------------------------------------------------------------------------
    def is_node(self, f, idx):
        if idx >= len(f.elf.sections) or idx in f.discarded:
            return False
        s = f.elf.sections[idx]
        if not s.alloc or s.type in (E.SHT_GROUP, E.SHT_RELA, E.SHT_NULL):
            return False
        return True

    def sections_named(self, name):
        out = []
        for f in self.files:
            if f is None:
                continue
            for s in f.elf.sections:
                if s.name == name and self.is_node(f, s.index):
                    out.append((f.index, s.index))
        return out

    def sym_target(self, f, sy):
        """-> list of (edge kind, (file index, section index)) for a reference to symbol `sy` made
        from file f."""
        if sy.bind == E.STB_LOCAL:
            if sy.shndx in (E.SHN_UNDEF, E.SHN_ABS, E.SHN_COMMON) or sy.shndx >= len(f.elf.sections):
                return []
            kind = "reloc-section-symbol" if sy.type == E.STT_SECTION else "reloc-local-symbol"
            return [(kind, (f.index, sy.shndx))]
        d = self.defs.get(sy.name)
        if d is not None:
            df, ds = d
            if ds.shndx == E.SHN_ABS:
                return []
            return [("reloc-weak" if ds.bind == E.STB_WEAK else "reloc-global", (df.index, ds.shndx))]
        for pre in ("__start_", "__stop_"):
            if sy.name.startswith(pre) and C_IDENT.match(sy.name[len(pre):]):
                return [("start-stop-symbol", t) for t in self.sections_named(sy.name[len(pre):])]
        return []

    def eh_edges(self):
        """(file index, function section) -> list of (kind, target)."""
        if self._eh_edges is not None:
            return self._eh_edges
        out = {}
        for f in self.files:
            if f is None:
                continue
            if not any(s.name == ".eh_frame" for s in f.elf.sections):
                continue
            fdes, _p = ehframe.input_eh(f.elf)
            for x in fdes:
                if x.sec is None:
                    continue
                key = (f.index, x.sec)
                for kind, t in (("eh-frame-lsda", x.lsda), ("eh-frame-personality", x.cie.pers if x.cie else None)):
                    if t is None:
                        continue
                    if t[0] == "sec":
                        out.setdefault(key, []).append((kind, (f.index, t[1])))
                    else:
                        d = self.defs.get(t[1])
                        if d is not None and d[1].shndx != E.SHN_ABS:
                            out.setdefault(key, []).append((kind, (d[0].index, d[1].shndx)))
        self._eh_edges = out
        return out

    def out_edges(self, node):
        fi, si = node
        f = self.files[fi]
        out = []
        for r in f.relas.get(si, ()):
            if r.sym >= len(f.syms) or r.sym == 0:
                continue
            for kind, t in self.sym_target(f, f.syms[r.sym]):
                if r.type == 0 and kind in PLAIN:
                    kind = "reloc-none"
                out.append((kind, t))
        out += self.eh_edges().get(node, [])
        return out

    def root_nodes(self):
        """-> list of (root kind, node)."""
        R = self.roots
        out = []

        def by_name(name, kind):
            d = self.defs.get(name)
            if d is not None and d[1].shndx != E.SHN_ABS:
                out.append((kind, (d[0].index, d[1].shndx)))
        if R.entry:
            by_name(R.entry, "entry")
        for u in R.undefined:
            by_name(u, "undefined-option")
        for n in sorted(R.shared_undefs):
            if self.vis.get(n, E.STV_DEFAULT) in (E.STV_DEFAULT, E.STV_PROTECTED):
                by_name(n, "referenced-by-shared-object")
        if R.export_all or R.export_names:
            for name, (df, ds) in self.defs.items():
                if self.vis.get(name, E.STV_DEFAULT) not in (E.STV_DEFAULT, E.STV_PROTECTED):
                    continue
                if R.export_all or name in R.export_names:
                    if ds.shndx != E.SHN_ABS:
                        out.append(("exported-symbol", (df.index, ds.shndx)))
        for f in self.files:
            if f is None:
                continue
            for s in f.elf.sections:
                if not self.is_node(f, s.index):
                    continue
                node = (f.index, s.index)
                if s.flags & E.SHF_GNU_RETAIN:
                    out.append(("retain-flag", node))
                if s.type == E.SHT_NOTE and not (s.flags & (E.SHF_GROUP | E.SHF_LINK_ORDER)):
                    out.append(("note", node))
                if R.default_script:
                    k = _default_keep_kind(s.name, s.type)
                    if k:
                        out.append((k, node))
                for pat in R.keep_patterns:
                    if fnmatch.fnmatchcase(s.name, pat):
                        out.append(("script-keep", node))
                        break
        return out

    def closure(self):
        """node -> (via kind, predecessor node or None). Plain relocation edges are explored first so
        that a node reachable both plainly and through an exotic edge is attributed to the plain
        one (BFS in two priority classes)."""
        reach = {}
        from collections import deque
        q = deque()
        for kind, n in sorted(self.root_nodes(), key=lambda t: (t[0] != "entry", t[0], t[1])):
            if not self.is_node(self.files[n[0]], n[1]):
                continue
            if n not in reach:
                reach[n] = (kind, None)
                q.append(n)
        deferred = deque()
        while q or deferred:
            if q:
                n = q.popleft()
            else:
                kind, src, n = deferred.popleft()
                if n in reach:
                    continue
                reach[n] = (kind, src)
            for kind, t in self.out_edges(n):
                if t in reach or not self.is_node(self.files[t[0]], t[1]):
                    continue
                if kind in PLAIN:
                    reach[t] = (kind, n)
                    q.append(t)
                else:
                    deferred.append((kind, n, t))
        return reach

    # ---- comparison with what a linker kept ------------------------------------------------------
    def must_place(self, node):
        """Whether a closure member has to show up with a placement in `.layout` (wild reports
        loaded, allocated, non-empty, non-merged sections)."""
        f = self.files[node[0]]
        s = f.elf.sections[node[1]]
        if s.size == 0 or not s.alloc:
            return False
        if s.flags & E.SHF_MERGE:
            return False
        if s.name in (".eh_frame", ".note.gnu.property", ".note.GNU-stack") or s.type == E.SHT_X86_64_UNWIND:
            return False
        return True

    def name(self, node):
        f = self.files[node[0]]
        return f"{f.label}:{f.elf.sections[node[1]].name}"

    def first_lost(self, reach, placed):
        """Closure members that are not placed although their predecessor is (or they are roots):
        list of (node, via kind, predecessor)."""
        out = []
        for n, (kind, src) in reach.items():
            if not self.must_place(n) or placed(n):
                continue
            if src is None or placed(src) or not self.must_place(src):
                out.append((n, kind, src))
        return out

    def all_in_kinds(self, reach, placed, node):
        """Kinds of all edges into `node` from placed closure members, plus its root kinds."""
        kinds = set(k for k, n in self.root_nodes() if n == node)
        for src in reach:
            if src == node or not (placed(src) or not self.must_place(src)):
                continue
            for k, t in self.out_edges(src):
                if t == node:
                    kinds.add(k)
        return kinds


def placed_fn(layout):
    fl = layout["files"]

    def placed(node):
        secs = fl[node[0]]["sections"]
        return node[1] < len(secs) and secs[node[1]] is not None
    return placed


def shared_object_undefs(paths):
    """Names that input shared objects leave undefined (they may bind to the executable)."""
    out = set()
    for p in paths:
        try:
            e = E.Elf(p)
        except (E.ElfError, OSError):
            continue
        for sy in e.dynsym():
            if sy.name and sy.shndx == E.SHN_UNDEF and sy.bind != E.STB_LOCAL:
                out.add(sy.name)
    return out


_LD_RM = re.compile(r"removing unused section '([^']*)' in file '([^']*)'")


def ld_removed(stderr_text):
    """Set of (file label, section name) GNU ld --print-gc-sections reported as removed. The file
    label is the basename, `lib.a(member.o)` for archive members."""
    import os
    out = set()
    for m in _LD_RM.finditer(stderr_text):
        sec, fn = m.group(1), m.group(2)
        mm = re.match(r"^(.*)\(([^()]*)\)$", fn)
        if mm:
            fn = os.path.basename(mm.group(1)) + "(" + mm.group(2) + ")"
        else:
            fn = os.path.basename(fn)
        out.add((fn, sec))
    return out
