"""Shared oracle pieces for the transcript-based properties (C27, C28, C23, ...): classification of a
failed link/run/transcript into a narrow, seed-independent signature, option factors, delta search
for the option that makes the difference."""
import re
import threading

from . import elf
from .common import strip_ansi
from .proggen import diff_transcripts, KNOWN_KINDS

# stderr texts of wild's own size-accounting checks (C23)
ALLOC_RE = re.compile(r"Insufficient|Allocated too much space|Inconsistent allocation detected|"
                      r"verify_resolution_allocation|Didn't use up all allocated|validate_empty failed|"
                      r"Unexpected .*allocation|was not fully (used|written)|"
                      r"Section `[^`]*` (is|was) too (small|big)")


def norm_err(text, keep=110):
    """First error line of a linker's stderr with paths, numbers and quoted names of generated
    files removed, so that the same failure reads the same at every seed."""
    text = strip_ansi(text or "")
    lines = [ln.strip() for ln in text.splitlines() if ln.strip()]
    pick = None
    for ln in lines:
        if "error:" in ln or "rror" in ln or "panicked" in ln:
            pick = ln
            break
    if pick is None:
        pick = lines[0] if lines else "no-message"
    if "panicked at" in pick:
        m = re.search(r"panicked at ([^:]+):", pick)
        return "panic@" + (m.group(1) if m else "?")
    pick = re.sub(r"^.*?error:\s*", "", pick)
    pick = re.sub(r"(?<![\w.>])(/[\w.+-]+)+", "<path>", pick)
    pick = re.sub(r"0x[0-9a-fA-F]+", "<hex>", pick)
    pick = re.sub(r"\b(u\d+|exe|lib)_[A-Za-z0-9_]+", "<sym>", pick)
    pick = re.sub(r"\d+", "<n>", pick)
    pick = re.sub(r"\s+", " ", pick)
    return pick[:keep].strip()


def alloc_error(text):
    """The wild size-accounting message in `text` (normalised), or None."""
    lines = [ln for ln in strip_ansi(text or "").splitlines() if ALLOC_RE.search(ln)]
    specific = [ln for ln in lines if "validate_empty failed" not in ln]
    for ln in (specific or lines):
        if True:
            ln = re.sub(r"^.*?error:\s*", "", ln.strip())
            ln = re.sub(r"\. Setting WILD_VERIFY_ALLOCATIONS.*$", "", ln)
            ln = re.sub(r"(?<![\w.>])(/[\w.+-]+)+", "<path>", ln)
            ln = re.sub(r"\b(u\d+|exe|lib)_[A-Za-z0-9_]+", "<sym>", ln)
            ln = re.sub(r"\d+", "<n>", ln)
            return ln.strip()[:120]
    return None


def structural_causes(path, kind):
    """Cheap structural diagnoses of an output that explain a whole family of transcript
    differences with one cause (each must be false on GNU ld's output: callers calibrate)."""
    out = []
    try:
        e = elf.Elf(path)
    except Exception:
        return out
    if kind in ("static", "static-pie"):
        # static glibc places the TLS image at tp - roundup(memsz, align) and ignores p_vaddr % p_align
        # (the dynamic loader honours it), so such a segment breaks every TLS offset of a static program
        for s in e.segments:
            if s.type == elf.PT_TLS and s.align > 1 and s.vaddr % s.align:
                out.append("pt_tls-vaddr-not-congruent-to-align")
    return out


# probe kinds that exercise the same mechanism are reported under one family name
PROBE_FAMILY = {"fnptr_code": "fnptr", "addr_code": "addr", "addr_deref": "addr", "cxx_inline": "cxx", "cxx_exc": "cxx",
                "cxx_virt": "cxx", "dtor": "ctor"}


def first_diff(ref, got):
    """(probe kind, id, ref value, got value) of the first differing line, or None."""
    d = diff_transcripts(ref, got)
    return d[0] if d else None


def outcome(lr, ref_transcript, kind):
    """Classifies a proggen LinkRun against the reference transcript.
    -> (cls, detail) with cls in {"same", "link-failed", "run-timeout", "run-crash", "transcript-diff"}."""
    if lr.lib_link is not None and not lr.lib_link.ok:
        if lr.lib_link.timed_out:
            return "link-timeout", "lib"
        return "link-failed", "lib:" + norm_err(lr.lib_link.errtext())
    if lr.link is None or not lr.link.ok:
        if lr.link is not None and lr.link.timed_out:
            return "link-timeout", "exe"
        return "link-failed", norm_err(lr.link.errtext() if lr.link else "")
    if lr.run is None:
        return "not-run", ""
    if lr.run.timed_out:
        return "run-timeout", ""
    causes = []
    if lr.run.rc != 0 or lr.transcript != ref_transcript:
        causes = structural_causes(lr.out, kind)
    if lr.run.rc != 0:
        last = lr.transcript.strip().splitlines()[-1].split(" ")[0] if lr.transcript.strip() else ""
        where = "before-main" if not last else ("after:" + PROBE_FAMILY.get(last, last) if last in KNOWN_KINDS
                                                else "after:garbled-output")
        det = f"rc={lr.run.rc if lr.run.rc >= 0 else 'signal' + str(-lr.run.rc)}:{where}"
        if lr.run.rc > 0:
            det += ":" + norm_err(lr.run.errtext(), 80)
        if causes:
            det = "cause=" + "+".join(causes)
        return "run-crash", det
    if lr.transcript != ref_transcript:
        if causes:
            return "transcript-diff", "cause=" + "+".join(causes)
        d = first_diff(ref_transcript, lr.transcript)
        return "transcript-diff", "probe=" + (PROBE_FAMILY.get(d[0], d[0]) if d else "?")
    return "same", ""


class Once:
    """Thread-safe 'first time this key is seen'."""

    def __init__(self):
        self._s = set()
        self._l = threading.Lock()

    def first(self, key):
        with self._l:
            if key in self._s:
                return False
            self._s.add(key)
            return True
