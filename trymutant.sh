#!/bin/bash
# Usage: trymutant.sh <name> <patch.diff> <Cxx> [tier] [seed...]
# Applies a seeded change to a scratch worktree of /repo (never to /repo itself), builds it into a
# separate target dir and runs the given check against it with evidence/replays redirected.
set -u
name=$1; patch=$2; prop=$3; tier=${4:-quick}; shift 4 2>/dev/null || shift 3
seeds=${*:-0}
wt=/tmp/mutwt-$name
if [ ! -d $wt ]; then git -C /repo worktree add --detach $wt HEAD >/dev/null 2>&1 || exit 3; (cd $wt && git apply "$patch") || { echo "patch does not apply"; exit 3; }; fi
out=/verif/.scratch/mutout-$name; mkdir -p $out
for sd in $seeds; do
  VERIF_SEED=$sd VERIF_REPO=$wt VERIF_BUILD_DIR=/verif/.build-mut/$name VERIF_OUT_DIR=$out /verif/check $prop --tier $tier > $out/$prop-$tier-$sd.log 2>&1
  rc=$?
  echo "mutant=$name prop=$prop tier=$tier seed=$sd rc=$rc :: $(grep -c '^VIOLATION' $out/$prop-$tier-$sd.log) violations; $(grep -o 'signature=[^ ]*' $out/$prop-$tier-$sd.log | sort -u | head -4 | tr '\n' ' ')"
done
