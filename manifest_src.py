# Registry of claimed checks. reg(id, level category, level text, level note, technique)
reg("C16", "exploration",
    "Thousands of random expression trees per run are evaluated by the real wild binary through ASSERT commands and compared with a big-int model that GNU ld has first confirmed on the same script; failures are minimised to the smallest mis-evaluated sub-tree. Evidence about the expressions actually generated, not a proof over all trees.",
    "Trusts GNU ld 2.40 as arbiter and the Python model only where ld agrees with it; division by zero and constructs ld rejects are excluded and counted.",
    "runtime differential monitor: generated ASSERT scripts through the CLI, model + GNU ld oracle")
