# Registry of claimed checks. reg(id, level category, level text, level note, technique)
reg("C16", "exploration",
    "Thousands of random expression trees per run are evaluated by the real wild binary through ASSERT commands and compared with a big-int model that GNU ld has first confirmed on the same script; failures are minimised to the smallest mis-evaluated sub-tree. Evidence about the expressions actually generated, not a proof over all trees.",
    "Trusts GNU ld 2.40 as arbiter and the Python model only where ld agrees with it; division by zero and constructs ld rejects are excluded and counted.",
    "runtime differential monitor: generated ASSERT scripts through the CLI, model + GNU ld oracle")
reg("C17", "fault_enumeration",
    "For each link and mode (fork/no-fork, mmap/no-mmap) the phase log of an undisturbed run enumerates every phase boundary; one run per (boundary, fault kind in panic/abort/SIGKILL/SIGSEGV/allocation failure) checks 'exit 0 implies output byte-identical to the undisturbed output'; natural failures must exit non-zero. The finite matrix is enumerated completely per link; faults strictly between boundaries are not explored.",
    "Trusts the H1 hook to raise the fault where the log says; 'complete output' is defined by the undisturbed run (relies on C06).",
    "runtime fault injection at hooked phase boundaries + exit-status/output-hash monitor")
reg("C18", "fault_enumeration",
    "Failure causes that strike before, during and after output creation (parse error, undefined/duplicate symbol, relocation overflow, ASSERT, version-script error, RLIMIT_FSIZE write error) x prior output states (absent, regular, read-only, executing, hard-linked, symlink) x write modes x threads x fork are enumerated; after each non-zero exit the output path must be absent or the untouched prior file (inode, size, mtime, sha256).",
    "Crashes/signals are outside the property's quantifier and only reported; the snapshot compares metadata and content hash.",
    "runtime file-system snapshot monitor over an enumerated failure matrix")
reg("C20", "fault_enumeration",
    "With the H1 pause hook the link is stopped at every phase boundary after its inputs were opened; at that instant one input of each kind (object, archive, thin-archive index and member, linker script, INPUT() object) is modified in each way (rewrite, append, rename-replace, touch) and the link resumed; the exit status must be non-zero. Thorough enumerates boundary x kind x modification completely for one link, under three thread/fork settings.",
    "Instants after the start of wild's final check are reported, not judged; mtime-preserving modifications are not in the property's list.",
    "runtime pause-point injection (hook) + exit-status monitor")
reg("C39", "exploration",
    "Each real multi-group link is run under a seeded schedule perturbation (yields/sleeps at task starts and in the two hand-off windows) with the slot-protocol event log on; the log (push/take/park logged under the slot lock) is replayed against a sequential model: every pushed item handled exactly once by its group, never before its push, no overlapping handling of one group, lost-wake-up patterns, all groups parked with empty slots at the end; output bytes equal the single-thread link; hangs are decided from quiescence plus an unhandled item. Evidence reports events, distinct interleaving fingerprints and how often a push hit a parked / running / not-yet-started worker. Thorough adds a ThreadSanitizer build.",
    "Trusts that the hook events are emitted where the code comments say (under the slot lock); liveness is restated as termination of every observed execution; interleavings are sampled, not enumerated.",
    "runtime trace monitor: hooked event log checked offline against a sequential slot model, under seeded schedule perturbation; TSan in thorough")
reg("C40", "exploration",
    "Each real string-merge (G up to thousands of input groups x 16 buckets, forced by --wild-experiments) is run under seeded perturbation (including the load-to-CAS window of the reservation and the slot-swap/bucket-park windows) with the slot/reservation event log on; the log is replayed against a sequential model of the slot matrix: per bucket the groups are taken 0..G-1 once each and in order, legal slot transitions, every group processed once, every bucket finished, reservations conserved; merged bytes equal the single-thread result and do not depend on the partitioning parameters. Thorough adds a ThreadSanitizer build.",
    "Reservation events are not atomic with the counter, so only conservation and per-event sanity are checked for the pool; liveness is restated as termination of every observed merge.",
    "runtime trace monitor: hooked event log checked offline against a sequential model, under seeded schedule perturbation; TSan in thorough")
reg("C06", "exploration",
    "A diverse set of real links (many-object graphs with merged strings, static-PIE and dynamic glibc programs, a shared object with thousands of dynamic symbols, C++ COMDAT/eh_frame, regular and thin archives) is re-run under random configurations of thread count, files-per-group, --wild-experiments partitioning, seeded schedule perturbation, fork/no-fork, mmap/no-mmap, prior output state (absent, shorter, longer, random bytes, executing, read-only) and write mode; the sha256 must equal the canonical single-thread run. A difference is located to output sections/header fields for the signature. Evidence counts distinct schedule fingerprints actually observed.",
    "Determinism is sampled over configurations, not proved; links that legitimately refuse to overwrite a busy/read-only file give no bytes and are inconclusive.",
    "runtime differential monitor: output hash under perturbed schedules, partitionings and prior output states")
reg("C26", "exploration",
    "Generated failing and warning-only links with 2-8 independent problems spread over different objects (undefined symbols, duplicate strong symbols, relocation overflows, unterminated merge strings, mixtures, --warn-unresolved-symbols) are each re-run under ~17 (quick) / ~60 (thorough) schedules: thread counts 1/2/4/16, files-per-group settings and seeded perturbation; within one partitioning setting the error text must be identical and the warning set equal. Differences that vanish when internal numeric ids are masked are classified separately.",
    "Compares real stderr; paths normalised; runs are only compared within the same files-per-group setting because the statement quantifies over thread counts and schedules.",
    "runtime differential monitor: diagnostics under varied thread counts and perturbed schedules")
reg("C35", "fault_enumeration",
    "The harness acts as the GNU make jobserver (FIFO preloaded with N distinguishable tokens, N in 0..32), runs the real wild under it for every outcome class (success, natural error, panic injected at phase boundaries via the H1 hook) x fork/no-fork x with/without a competing token consumer, waits on an inherited liveness pipe until every descendant has exited, and counts the tokens back (conservation, exactly the same bytes). The hook event POOL and an strace of clone calls bound pool size and created threads by tokens acquired + 1.",
    "Explicit --threads is outside the quantifier; SIGKILL is not judged; panics are injected only at hooked phase boundaries.",
    "runtime conservation monitor: harness-as-jobserver token accounting + hook event + strace, over an enumerated outcome matrix")
reg("C21", "exploration",
    "A real victim process executes (static, PIE, non-PIE dynamic) or maps (dlopen, DT_NEEDED) wild's output version A, reports a checksum of its read-only mappings and blocks; the same path is relinked by wild with default options from different code; the victim then touches pages it had not faulted in, re-checksums and must still be entirely version A; the path must then hold version B under a new inode (checked by a fresh start), or the relink failed leaving the old inode. Scenarios x eager/lazy page touching x threads x fork.",
    "Kernel page-cache semantics are the oracle: the victim itself observes its mappings; only default options are in scope.",
    "runtime monitor: live victim process observing its own mappings across a relink")
reg("C04", "exploration",
    "Every output of a random (program family, output kind, option set, generated linker script) case is checked against structural rules written from the gABI and the statement (header ranges, section overlap in memory and file, one PT_LOAD per allocated section with matching offset and permissions, no W+X, offset/vaddr congruence, alignments, TLS/RELRO/DYNAMIC/INTERP/PHDR/EH_FRAME/NOTE segments equal what they describe, DT_* entries equal their sections, entry in executable memory), `readelf -a` must be silent, and executables must load and run. The same case is linked by GNU ld and lld and a rule a reference output breaks is not applied to that case.",
    "Rules are the checker's reading of the gABI; calibration on reference outputs guards against over-strict rules; only options and script forms wild documents as supported are generated.",
    "runtime structural monitor over generated links, calibrated on reference linkers, plus the kernel/glibc loader as consumer")
reg("C29", "exploration",
    "The real alignment functions are called in-process through libwild::verif_api on all 17 alignments x ~340 boundary values (squared for align_modulo), Alignment::new exhaustively to 2^17+2 plus 2^k+-1/3*2^k, and 10^7 (quick) / 10^8 (thorough) random pairs, against 128-bit reference arithmetic; cases whose true result is not representable in 64 bits are excluded and counted. Four compiled-in mutants must be detected on every run.",
    "The 2^64 x 2^64 space cannot be enumerated: boundary classes are covered completely, the rest randomly.",
    "in-process runtime oracle (u128 reference) over boundary-complete and random inputs")
reg("C13", "exploration",
    "25 instruction encoders and 133 relocation types are driven in-process (RelocationKindInfo::write_to_buffer and write_to_value) with fields <=16 bits enumerated exhaustively (<=21 in thorough) x real-opcode initial words x field pre-filled with zeros/ones/random bits; an independent per-ISA bit-segment table decides locality, independence from the previous field content and decode(write(v)) == v; the AArch64 and RISC-V tables are re-validated against llvm-mc --show-encoding on every run; pinned AArch64 end-to-end links confirm in the output file.",
    "LoongArch tables come from the ISA manual alone (no LLVM 14 backend); large fields are covered at boundaries plus randomly.",
    "in-process runtime oracle with independently written encoding tables calibrated against llvm-mc")
reg("C12", "exploration",
    "Two layers: in-process, every relocation type wild knows x boundary and random values through write_to_buffer against an independently written psABI range table; end-to-end, one-relocation objects whose value is set by --defsym/addends are linked by wild, GNU ld and ld.lld (x86-64) or wild, lld and the table (AArch64): both references accept => wild must accept and write identical field bytes; both reject => wild must reject; references disagree => inconclusive.",
    "GNU ld 2.40 and lld 14 are the arbiters; types that relaxation or thunks interfere with are excluded end-to-end and covered in-process only.",
    "runtime differential monitor (three linkers) + in-process boundary oracle")
reg("C07", "exploration",
    "Generated merge-string sections with known literals (1- and 4-byte characters, alignment 8, duplicates across objects, shared suffixes, empty strings, strings straddling 256-byte blocks, >12 strings per block, sizes up to MiBs) and references by named symbol + addend and by section symbol + mid-string offset; for every reference the output bytes up to the terminator must equal the input bytes, every distinct string must occur in the output section, also with --no-string-merge, under tiny split groups, thread counts and perturbation; the oracle is first run on GNU ld's output; an unterminated final string must give a diagnostic or correct output.",
    "Static non-PIE freestanding links so data pointers are final in the file; presence = the string's bytes with terminator occur in the output section.",
    "runtime content monitor over generated merge sections, calibrated on GNU ld")
reg("C09", "exploration",
    "Generated pointer-slot layouts with marker symbols (long runs, sparse, packed/odd addresses, >63-word gaps, odd-address sections) linked as PIE or shared with and without -z pack-relative-relocs; from the output's .rela.dyn/.relr.dyn each slot must be covered by exactly one dynamic relocation whose effect at base B is B+S+A, every RELATIVE/RELR entry must land on a slot or a linker-made pointer table, no overlaps or duplicates, DT_RELR* consistent; glibc PIE and static-PIE self-checking programs are run at six load bases (ASLR on and off). Rules that GNU ld's output breaks are dropped for that case.",
    "Freestanding outputs make the set of address-holding places known; x86-64 only.",
    "runtime relocation-table monitor with generator ground truth + execution at several load bases")
reg("C08", "exploration",
    "Shared objects and -E executables with 0..5000 exported symbols whose names are drawn to collide (same bucket, same GNU hash, same SysV hash, shared prefixes, versioned duplicates) for --hash-style gnu/sysv/both; a Python re-implementation of glibc's GNU-hash (bloom, bucket, chain) and SysV lookups must find every defined dynamic symbol and reject absent names in bounded steps, structural table checks, and the real consumer (dlopen/dlsym of every name, calling it) must agree. Output corruptions injected by the driver are detected on demand.",
    "The lookup re-implementation follows glibc 2.36's do_lookup_x; glibc itself is the second consumer.",
    "runtime table monitor (re-implemented loader lookups) + real dlopen/dlsym consumer")
reg("C32", "exploration",
    "Generated version scripts (nodes, dependency chains, exact names, globs, local patterns, extern C++, anonymous node, .symver symbols, layout variants) over generated symbol sets; the map name -> (version node, hidden bit) from wild's .gnu.version/.gnu.version_d/_r must equal GNU ld's, the tables must be internally consistent (hashes, indices, counts), and a dlvsym consumer must resolve every (name, node) ld exports.",
    "GNU ld 2.40 is the arbiter (lld consulted for information); scripts wild rejects with a clean error are inconclusive.",
    "runtime differential monitor (version tables vs GNU ld) + dlvsym consumer")
reg("C36", "exploration",
    "Asm objects with .note.GNU-stack present/absent/executable and hand-encoded .note.gnu.property notes (AND-, OR- and OR_AND-class x86 properties, several per note, 4- and 8-byte alignment), 1-6 inputs in random order, archives, shared inputs, -z execstack/noexecstack and -z x86-64-vN; PT_GNU_STACK flags and the output property words are compared with GNU ld and with the statement's model; a difference counts only when ld agrees with the model.",
    "GNU ld 2.40 is the arbiter; cases where wild refuses an executable-stack note produce no output and are inconclusive.",
    "runtime differential monitor (notes vs GNU ld and a model)")
reg("C37", "exploration",
    "Generated link lines over 2-6 shared libraries (with/without sonames, repeated, -l vs path, weak-only and GC'd-only references) with random --as-needed/--no-as-needed/--push-state/--pop-state regions for executables and shared outputs; wild's ordered DT_NEEDED list must equal the statement's model, which is calibrated against GNU ld on every case.",
    "Cases where ld differs from the model are inconclusive; input libraries are built with GNU ld.",
    "runtime differential monitor (DT_NEEDED vs model calibrated on GNU ld)")
reg("C11", "exploration",
    "clang-assembled AArch64 objects with multi-MiB functions so the image spans 200-520 MiB, calls forward/backward/to both ends/to 64 KiB-aligned callees, conditional branches, and PLT calls in PIE links; every generated branch site (marker symbol, known target) is decoded in wild's output and followed through at most one thunk or PLT stub (ADRP+ADD+BR, ADRP+LDR+BR decoded); it must arrive at the target symbol's address or at a GOT slot bound to the target; a range failure that ld.lld does not have is a violation.",
    "No AArch64 execution is possible in this sandbox: control flow is decoded statically; ld.lld 14 is the accept/reject reference.",
    "runtime output monitor: static control-flow decoding of generated long-branch programs")
reg("C14", "exploration",
    "The CPU is the oracle: generated assembly executes each relaxable form (mov/add/sub/and/or/xor/cmp/test/adc/sbb sym@GOTPCREL(%rip),%reg for 14 registers in 64- and 32-bit operand sizes, call/jmp/push through GOTPCREL, TLS GD/LD/IE/IE-add/TLSDESC) on symbols of every class (local, hidden, global, preemptible in shared outputs, undefined weak, absolute at boundary values) and compares the destination register and CF/PF/ZF/SF/OF with the same operation on an unrelaxable witness slot, in static, static-PIE, PIE and shared outputs, with and without --no-relax; a case counts only when GNU ld's link of the same objects passes the self-check.",
    "APX (REX2/EVEX) forms cannot be assembled or executed here and are not covered; absolute symbols are only used in static links because GNU ld is not a consistent arbiter for them in PIE.",
    "runtime self-checking execution: relaxed instruction vs unrelaxable witness on the real CPU")
reg("C01", "exploration",
    "Two oracles over generated programs. relcheck: for generated x86-64 and AArch64 assembly programs the psABI value (S, A, P, TP recomputed from the INPUT relocation tables, wild's .layout placement and the output symbol table) of every modelled relocation site (absolute 8/16/32/32S/64, PC-relative, PLT/CALL26/JUMP26 followed through thunks, CONDBR19/TSTBR14, ADRP/ADD/LDST lo12, MOVW, TLS LE) is compared with the field decoded from the output. Execution: proggen multi-object C/C++/asm programs (calls, data and function pointers, TLS in every model incl. TLSDESC, ifunc, weak/common/hidden/protected, copy relocations, shared library) are linked by wild in each output kind their code model allows, run, and their self-describing transcript must equal that of the same objects linked by GNU ld.",
    "Relocation kinds relcheck does not model and relaxed instructions are counted as unobserved; AArch64 cannot be executed here; links wild rejects are outside the property's quantifier and counted.",
    "runtime monitors: static psABI recomputation over outputs + differential execution against GNU ld")
reg("C02", "exploration",
    "Generated sets of objects, archive members and shared libraries defining/declaring the same names with random strength (strong, weak, common with sizes, GNU-unique), visibility and kind in random command-line order; the running program reports which definition each file's view binds to; an executable model of the statement's rules, first confirmed on GNU ld (and lld), decides; accept/reject (duplicate strong, undefined non-weak) is compared too; wild is run single-threaded and with 16 threads under schedule perturbation.",
    "Cases where GNU ld deviates from the model are inconclusive; references undefined only from a shared library are excluded.",
    "runtime differential monitor: self-reporting programs vs a resolution model calibrated on GNU ld/lld")
reg("C03", "exploration",
    "Random archive reference graphs (regular, thin and --start-lib archives, whole-archive regions, weak references, cycles, duplicate-only members) are linked in every rotation of the archive positions under three (quick) to six (thorough) schedules; the loaded member set is observed three ways (constructor ids printed at run time, members listed in .layout, FILE_TAKE hook events: none twice, same count across schedules) and must equal a fixpoint model calibrated on ld.lld for every rotation and on GNU ld with --start-group.",
    "Names defined both in archives and in plain objects are avoided (order-sensitive in lld itself).",
    "runtime monitor: member-set observation (run time, layout file, hook events) vs fixpoint model, under schedule perturbation")
reg("C30", "exploration",
    "2-10 units with constructors/destructors of every flavour (attribute priorities, hand-written .init_array[.N]/.fini_array[.N]/.ctors[.N]/.dtors[.N]/.preinit_array at alignment 8 or 1, archives) in two command-line orders and five output kinds; the run-time order transcript and the arrays decoded to symbol names must equal GNU ld's; mismatches are classified by the discordant pair and a causal probe.",
    "GNU ld 2.40 is the arbiter.",
    "runtime differential monitor: constructor order at run time and in the output arrays vs GNU ld")
reg("C33", "exploration",
    "Generated programs with 1-3 wrapped functions or data symbols defined in objects, archive members or shared libraries and referenced from everywhere, with and without __wrap_S/__real_S, weak references, and -r --wrap partial links; each function prints a unique id and the transcript must equal GNU ld's and the statement's model.",
    "GNU ld 2.40 is the arbiter; its loaded members are read from its -Map file.",
    "runtime differential monitor: --wrap binding transcript vs GNU ld and a model")
reg("C38", "exploration",
    "Self-checking programs share data, bss, weak aliases, functions, ifuncs and TLS between an executable and 1-3 libraries in both directions (non-PIE with copy relocations and canonical PLT, PIE, -z nocopyreloc); every module reports the address it sees, initial value, store visibility and calls through pointers; all views must agree; the wild link is the executable or one of the libraries; calibrated on GNU ld.",
    "Cases GNU ld itself fails are inconclusive.",
    "runtime self-checking execution across modules, calibrated on GNU ld")
reg("C15", "exploration",
    "Random SECTIONS scripts (2-8 input-section descriptions with exact, prefix, leading-wildcard, short, ?, class, negated class, escaped, quoted and file patterns, KEEP, overlapping rules in different orders) over 5-30 custom sections in 1-3 objects are linked by wild and GNU ld with --gc-sections; a marker symbol per input section tells which output section it landed in; wild must equal ld, with a POSIX-fnmatch model as second opinion (model != ld => inconclusive); every difference is re-tested in isolation and the pattern reduced token by token to a class.",
    "GNU ld 2.40 is the arbiter.",
    "runtime differential monitor: section placement under generated linker scripts vs GNU ld")
reg("C19", "exploration",
    "Each link runs in a sandbox directory with up to 15 decoy siblings (<stem>.delete, <out>.tmp, <out>.layout, ...); a before/after snapshot (name, type, inode, size, mtime, hash) plus an strace of every path opened for writing, created, truncated, renamed, unlinked, chmod-ed or linked is compared with the allowed set computed from the command line (output, dependency file, layout/trace, gc-stats, save dir); output kinds, write modes, threads, prior outputs and 2-3 concurrent links with colliding stems are varied.",
    "strace is the ground truth for transient effects; the allowed set is derived from the documented side files.",
    "runtime file-system monitor: snapshot diff + syscall trace against an allowed set")
reg("C22", "exploration",
    "Twelve valid base links (objects, archives, thin archives, shared objects, linker/version scripts, export lists, response files) are mutated structure-aware (ELF header, section headers, symbols, relocations, groups, notes, .eh_frame lengths, dynamic/version tables, archive headers; text mutations; odd argument lists), ~3000 links per quick run under RUST_BACKTRACE=1, with an 8 GiB address-space cap; any signal, panic, abort or reproducible hang is a violation keyed by the first in-repo frame; every known site has a minimised pinned reproducer replayed on each run.",
    "The coverage-guided cargo-fuzz/ASan tier was not built; hangs need three reproductions past a 60 s watchdog.",
    "runtime crash monitor over structure-aware mutated inputs")
reg("C23", "exploration",
    "proggen programs x random subsets of 27 options that change generated-section sizes (pack-relative-relocs, hash styles, build-id modes, eh-frame-hdr, strip, relax, -E, --got-plt-syms, version scripts, -z now, string merging, output kinds, files-per-group) plus ~260 generated freestanding asm cases (pointers at every alignment, TLS forms, ifunc, weak undefined, copy relocations, COMDAT, absolute symbols); a violation is wild failing with one of its own size-accounting messages on an input GNU ld links; the failing option set is reduced to the necessary options.",
    "Only failures whose text is one of wild's accounting diagnostics count; other rejections are inconclusive.",
    "runtime monitor: accounting diagnostics over an option matrix, calibrated on GNU ld")
reg("C24", "exploration",
    "A grid of 17 command-line positions x 23 character classes (space, quotes, $, \\, ;, &, |, parentheses, redirections, backtick, braces, glob characters, #, ~, !, leading dash, UTF-8, newline) in file names, directories, -L/-l, option values, response files (nested), linker scripts and thin archives: each case links normally, links again with WILD_SAVE_DIR, runs run-with from another directory and compares the replayed output byte for byte with the original.",
    "Relies on C06 for byte equality to be meaningful.",
    "runtime round-trip monitor: save-dir replay vs original output")
reg("C25", "exploration",
    "Random link lines mixing objects, archives, thin archives and their members, -l/-L libraries, linker scripts (-T and implicit) with INPUT() files, version scripts, dynamic/export lists and response files; the set of sandbox files the link actually read is observed with strace (opened read-only then read or mapped) and must equal the parsed dependency file (each once, target = output); GNU ld's --dependency-file on the same command calibrates.",
    "Files both linkers omit (response files, --retain-symbols-file) are not judged.",
    "runtime monitor: syscall-observed read set vs dependency file")
reg("C27", "exploration",
    "proggen programs are partitioned randomly into 1-4 wild -r groups (half with a nested partial link), the relocatable outputs are checked structurally (rules calibrated on ld -r outputs) and linked finally by wild and by GNU ld in 2-4 output kinds; the transcript must equal GNU ld's direct link; after a defect in one feature the program is regenerated without it so exploration continues.",
    "Transcripts never print addresses; ld -r and wild's own direct link calibrate.",
    "runtime differential monitor: transcripts of partial-link pipelines vs direct links")
reg("C28", "exploration",
    "Each proggen program is linked by wild in every output kind its code model allows under pairwise-covering option vectors (relax, string merge, pack-relative-relocs, hash style, build-id, -z now, gc) and its transcript compared with GNU ld's default link of the same objects (lld must agree with ld first; ld under the same options must still print the expected transcript); a delta search names the responsible option.",
    "GNU ld is the arbiter with lld as cross-check.",
    "runtime differential monitor: program transcripts across an option matrix")
reg("C05", "exploration",
    "Two oracles: freestanding asm node graphs (cycles, references only through section symbols, __start_/__stop_ sets, exported symbols, .init_array entries, SHF_GNU_RETAIN, notes, KEEP scripts, -u) and proggen programs compiled with -ffunction-sections/-fdata-sections are linked with --gc-sections under threads {1,16}, files-per-group and schedule perturbation; an independent reachability closure over the INPUT objects (own COMDAT/weak resolution, roots from the statement) must be a subset of the sections placed in .layout, and the program's output must equal the --no-gc-sections and GNU ld links; ld --print-gc-sections calibrates the closure.",
    "Over-retention is legal (closure is a subset of kept); PIE/shared graphs are checked statically only.",
    "runtime monitor: independent reachability model vs layout side file + behavioural differential")
reg("C10", "exploration",
    "An independent .eh_frame/.eh_frame_hdr parser checks on wild's output: table count == number of FDEs, sorted, each entry points at an FDE starting there, every FDE has an entry, the set of output FDEs equals the input FDEs whose function section was placed (none for GC'd or COMDAT-loser functions, none missing), per-FDE ranges/CIE/LSDA/personality; the same oracle runs first on GNU ld's output; the real consumer (libgcc _Unwind_Find_FDE on the first and last byte of every function, C++ exceptions thrown through 3-9 frames across objects, archives, libraries) confirms; proggen and generated exception-chain programs, all output kinds, threads and perturbation.",
    "x86-64 only; check classes GNU ld's output fails are dropped per case.",
    "runtime table monitor (independent parser) + libgcc unwinder as consumer")
reg("C31", "exploration",
    "Generated freestanding programs (symbol kinds x bindings x four visibilities x shapes: weak+strong, commons, archives, imports, references carrying visibility) x output kinds x export options (-E, export lists, dynamic lists, --exclude-libs, version scripts, -s/-S/-x/-X, --retain-symbols-file): wild's .symtab/.dynsym must satisfy the statement's invariants (sh_info, locals first, unique globals, value inside its section and equal to layout placement + input value, type/size/binding/visibility from a resolution model over the inputs, required <= dynsym <= allowed), each rule calibrated on GNU ld's output, plus a per-name differential with GNU ld (lld as tie-breaker).",
    "Attributes where ld and lld disagree are counted as open, not judged; addresses are never compared.",
    "runtime table monitor with a resolution model + differential vs GNU ld/lld")
reg("C34", "exploration",
    "Quiet: wild outputs (with .layout/.trace) of proggen and freestanding programs are compared by the real linker-diff with themselves and with byte-identical copies, with and without --wild-defaults: no report allowed. Catches: for (GNU ld reference, wild under test) pairs whose unmodified comparison is clean, one relocated reference at a time (call/jmp rel32, RIP-relative lea/mov, GOT slot, data/.init_array pointer incl. RELATIVE addend) is redirected to another symbol in a copy of wild's output; every corruption must make linker-diff exit non-zero. Sites come from the input relocation tables, the layout and the output symtab and are verified before patching.",
    "Only program shapes whose clean comparison is clean can be corrupted (mostly freestanding asm).",
    "runtime monitor: real linker-diff on identical pairs and on single-site corruptions")
