# Registry of claimed checks. reg(id, level category, level text, level note, technique)
reg("C16", "exploration",
    "Thousands of random expression trees per run are evaluated by the real wild binary through ASSERT commands and compared with a big-int model that GNU ld has first confirmed on the same script; failures are minimised to the smallest mis-evaluated sub-tree. Evidence about the expressions actually generated, not a proof over all trees.",
    "Trusts GNU ld 2.40 as arbiter and the Python model only where ld agrees with it; division by zero and constructs ld rejects are excluded and counted.",
    "runtime differential monitor: generated ASSERT scripts through the CLI, model + GNU ld oracle")
reg("C17", "fault_enumeration",
    "For each link and mode (fork/no-fork, mmap/no-mmap) the phase log of an undisturbed run enumerates every phase boundary; one run per (boundary, fault kind in panic/abort/SIGKILL/SIGSEGV/allocation failure) checks 'exit 0 implies output byte-identical to the undisturbed output'; natural failures must exit non-zero. The finite matrix is enumerated completely per link; faults strictly between boundaries are not explored.",
    "Trusts the H1 hook to raise the fault where the log says; 'complete output' is defined by the undisturbed run (relies on C06).",
    "runtime fault injection at hooked phase boundaries + exit-status/output-hash monitor")
reg("C18", "fault_enumeration",
    "Failure causes that strike before, during and after output creation (parse error, undefined/duplicate symbol, relocation overflow, ASSERT, version-script error, RLIMIT_FSIZE write error) x prior output states (absent, regular, read-only, executing, hard-linked, symlink) x write modes x threads x fork are enumerated; after each non-zero exit the output path must be absent or the untouched prior file (inode, size, mtime, sha256).",
    "Crashes/signals are outside the property's quantifier and only reported; the snapshot compares metadata and content hash.",
    "runtime file-system snapshot monitor over an enumerated failure matrix")
reg("C20", "fault_enumeration",
    "With the H1 pause hook the link is stopped at every phase boundary after its inputs were opened; at that instant one input of each kind (object, archive, thin-archive index and member, linker script, INPUT() object) is modified in each way (rewrite, append, rename-replace, touch) and the link resumed; the exit status must be non-zero. Thorough enumerates boundary x kind x modification completely for one link, under three thread/fork settings.",
    "Instants after the start of wild's final check are reported, not judged; mtime-preserving modifications are not in the property's list.",
    "runtime pause-point injection (hook) + exit-status monitor")
