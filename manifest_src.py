# Registry of claimed checks. reg(id, level category, level text, level note, technique)
reg("C16", "exploration",
    "Thousands of random expression trees per run are evaluated by the real wild binary through ASSERT commands and compared with a big-int model that GNU ld has first confirmed on the same script; failures are minimised to the smallest mis-evaluated sub-tree. Evidence about the expressions actually generated, not a proof over all trees.",
    "Trusts GNU ld 2.40 as arbiter and the Python model only where ld agrees with it; division by zero and constructs ld rejects are excluded and counted.",
    "runtime differential monitor: generated ASSERT scripts through the CLI, model + GNU ld oracle")
reg("C17", "fault_enumeration",
    "For each link and mode (fork/no-fork, mmap/no-mmap) the phase log of an undisturbed run enumerates every phase boundary; one run per (boundary, fault kind in panic/abort/SIGKILL/SIGSEGV/allocation failure) checks 'exit 0 implies output byte-identical to the undisturbed output'; natural failures must exit non-zero. The finite matrix is enumerated completely per link; faults strictly between boundaries are not explored.",
    "Trusts the H1 hook to raise the fault where the log says; 'complete output' is defined by the undisturbed run (relies on C06).",
    "runtime fault injection at hooked phase boundaries + exit-status/output-hash monitor")
reg("C18", "fault_enumeration",
    "Failure causes that strike before, during and after output creation (parse error, undefined/duplicate symbol, relocation overflow, ASSERT, version-script error, RLIMIT_FSIZE write error) x prior output states (absent, regular, read-only, executing, hard-linked, symlink) x write modes x threads x fork are enumerated; after each non-zero exit the output path must be absent or the untouched prior file (inode, size, mtime, sha256).",
    "Crashes/signals are outside the property's quantifier and only reported; the snapshot compares metadata and content hash.",
    "runtime file-system snapshot monitor over an enumerated failure matrix")
reg("C20", "fault_enumeration",
    "With the H1 pause hook the link is stopped at every phase boundary after its inputs were opened; at that instant one input of each kind (object, archive, thin-archive index and member, linker script, INPUT() object) is modified in each way (rewrite, append, rename-replace, touch) and the link resumed; the exit status must be non-zero. Thorough enumerates boundary x kind x modification completely for one link, under three thread/fork settings.",
    "Instants after the start of wild's final check are reported, not judged; mtime-preserving modifications are not in the property's list.",
    "runtime pause-point injection (hook) + exit-status monitor")
reg("C39", "exploration",
    "Each real multi-group link is run under a seeded schedule perturbation (yields/sleeps at task starts and in the two hand-off windows) with the slot-protocol event log on; the log (push/take/park logged under the slot lock) is replayed against a sequential model: every pushed item handled exactly once by its group, never before its push, no overlapping handling of one group, lost-wake-up patterns, all groups parked with empty slots at the end; output bytes equal the single-thread link; hangs are decided from quiescence plus an unhandled item. Evidence reports events, distinct interleaving fingerprints and how often a push hit a parked / running / not-yet-started worker. Thorough adds a ThreadSanitizer build.",
    "Trusts that the hook events are emitted where the code comments say (under the slot lock); liveness is restated as termination of every observed execution; interleavings are sampled, not enumerated.",
    "runtime trace monitor: hooked event log checked offline against a sequential slot model, under seeded schedule perturbation; TSan in thorough")
reg("C40", "exploration",
    "Each real string-merge (G up to thousands of input groups x 16 buckets, forced by --wild-experiments) is run under seeded perturbation (including the load-to-CAS window of the reservation and the slot-swap/bucket-park windows) with the slot/reservation event log on; the log is replayed against a sequential model of the slot matrix: per bucket the groups are taken 0..G-1 once each and in order, legal slot transitions, every group processed once, every bucket finished, reservations conserved; merged bytes equal the single-thread result and do not depend on the partitioning parameters. Thorough adds a ThreadSanitizer build.",
    "Reservation events are not atomic with the counter, so only conservation and per-event sanity are checked for the pool; liveness is restated as termination of every observed merge.",
    "runtime trace monitor: hooked event log checked offline against a sequential model, under seeded schedule perturbation; TSan in thorough")
