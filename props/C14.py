"""C14 x86-64 GOT and TLS relaxations preserve instruction semantics.

Oracle: the CPU. Generated assembly executes every relaxable form - mov/add/sub/and/or/xor/cmp/
test/adc/sbb sym@GOTPCREL(%rip),%reg for every register with 64- and 32-bit operand sizes,
call/jmp *sym@GOTPCREL(%rip), push sym@GOTPCREL(%rip), TLS GD/LD/IE/TLSDESC sequences - captures
the destination register and the arithmetic flags, and compares them with the same operation
performed on a witness value loaded from an unrelaxable `.quad sym` slot (or, for TLS, with the
address the C compiler computes). The same objects are linked with --no-relax and by GNU ld and
must print the same transcript. Symbol kinds: local, hidden, global, preemptible (shared output),
absolute at boundary values (--defsym), undefined weak; output kinds: static, static-PIE, PIE,
shared (+driver).
"""
import os

from vlib import tools
from vlib.common import pmap, rng, run

LEVEL = "exploration"

REGS64 = ["rax", "rcx", "rdx", "rbx", "rbp", "rsi", "rdi", "r8", "r9", "r10", "r12", "r13", "r14", "r15"]
R32 = {"rax": "eax", "rcx": "ecx", "rdx": "edx", "rbx": "ebx", "rbp": "ebp", "rsi": "esi", "rdi": "edi",
       "r8": "r8d", "r9": "r9d", "r10": "r10d", "r12": "r12d", "r13": "r13d", "r14": "r14d", "r15": "r15d"}
CALLEE_SAVED = {"rbx", "rbp", "r12", "r13", "r14", "r15"}
OPS = ["mov", "add", "sub", "and", "or", "xor", "cmp", "test", "adc", "sbb"]
FLAGMASK = 0x8c5     # CF, PF, ZF, SF, OF (AF left out: not needed by any relaxed form's users)
ABS_VALUES = [0, 1, 0x7fffffff, 0x80000000, 0xffffffff, 0x100000000, 0x7fffffffffff, 0xffffffff80000000, 0xffffffffffffffff]


def vclass(v):
    if v < 1 << 31:
        return "below-2^31"
    if v < 1 << 32:
        return "2^31..2^32"
    if v >= 0xffffffff80000000:
        return "negative-32bit"
    return "above-2^32"


def gen_tests(r, kind, n):
    """Returns (asm text, list of test descriptors, defsyms)."""
    syms = []      # (name, class)
    asm = [".text\n"]
    data = ['.data\n.p2align 3\n']
    # data symbols of several classes
    for cls in ("local", "hidden", "global"):
        for j in range(2):
            nm = f"d_{cls}_{j}"
            if cls != "local":
                data.append(f".globl {nm}\n")
            if cls == "hidden":
                data.append(f".hidden {nm}\n")
            data.append(f".type {nm},@object\n{nm}: .quad {r.getrandbits(60)}\n")
            syms.append((nm, cls, "data"))
    # functions returning an id
    for cls in ("local", "hidden", "global"):
        nm = f"fn_{cls}"
        if cls != "local":
            asm.append(f".globl {nm}\n")
        if cls == "hidden":
            asm.append(f".hidden {nm}\n")
        asm.append(f".type {nm},@function\n{nm}: mov ${r.randrange(1000, 9999)}, %eax\n ret\n")
        syms.append((nm, cls, "func"))
    defsyms = []
    # absolute symbols only in non-PIC static links: in PIE outputs GNU ld itself treats --defsym
    # symbols inconsistently between GOT entries and data words (seen during bring-up), so there is
    # no arbiter there
    if kind == "static":
        for j, v in enumerate(r.sample(ABS_VALUES, 4)):
            nm = f"abs_{j}"
            defsyms.append(f"--defsym={nm}={v:#x}")
            syms.append((nm, "absolute=" + vclass(v), "data"))
    asm.append(".weak undef_weak\n")
    syms.append(("undef_weak", "undef-weak", "data"))
    # witness slots
    for nm, cls, _ in syms:
        data.append(f"w_{nm}: .quad {nm}\n")
    tests = []
    k = 0
    for _ in range(n):
        nm, cls, what = r.choice(syms)
        reg = r.choice(REGS64)
        if what == "func" and r.random() < 0.6:
            form = r.choice(["call", "jmp"])
        else:
            form = r.choice(OPS + ["mov", "mov", "push"])
        wide = r.random() < 0.6
        inp = r.choice([0, 1, 0x7fffffff, 0x80000000, 0xffffffffffffffff, r.getrandbits(64), r.getrandbits(31)])
        carry = r.random() < 0.5
        for variant in ("t", "e"):
            lab = f"{variant}_{k}"
            a = [f".globl {lab}\n.type {lab},@function\n{lab}:\n"]
            if form in ("call", "jmp"):
                a.append("    sub $8,%rsp\n")
                if form == "call":
                    a.append(f"    call *{nm}@GOTPCREL(%rip)\n" if variant == "t" else f"    call *w_{nm}(%rip)\n")
                    a.append("    add $8,%rsp\n    xor %edx,%edx\n    ret\n")
                else:
                    a.append("    add $8,%rsp\n")
                    a.append(f"    xor %edx,%edx\n    jmp *{nm}@GOTPCREL(%rip)\n" if variant == "t" else f"    xor %edx,%edx\n    jmp *w_{nm}(%rip)\n")
            elif form == "push":
                a.append(f"    push {nm}@GOTPCREL(%rip)\n" if variant == "t" else f"    push w_{nm}(%rip)\n")
                a.append("    pop %rax\n    xor %edx,%edx\n    ret\n")
            else:
                if reg in CALLEE_SAVED:
                    a.append(f"    push %{reg}\n")
                a.append(f"    movabs ${inp:#x},%{reg}\n")
                a.append("    stc\n" if carry else "    clc\n")
                dst = reg if wide else R32[reg]
                if variant == "t":
                    a.append(f"    {form} {nm}@GOTPCREL(%rip),%{dst}\n")
                else:
                    a.append(f"    mov w_{nm}(%rip),%r11\n")        # mov does not touch flags
                    a.append(f"    {form} %{'r11' if wide else 'r11d'},%{dst}\n")
                a.append(f"    pushfq\n    mov %{reg},%rax\n    pop %rdx\n    and ${FLAGMASK:#x},%edx\n")
                if form == "mov":
                    a.append("    xor %edx,%edx\n")                  # mov leaves flags alone: not part of the comparison
                if reg in CALLEE_SAVED:
                    a.append(f"    pop %{reg}\n")
                a.append("    ret\n")
            asm.append("".join(a))
        tests.append(dict(k=k, form=form, sym=nm, cls=cls, reg=reg if form in OPS else "-", wide=wide))
        k += 1
    return "".join(asm) + "".join(data), tests, defsyms


TLS_ASM = r"""
.text
.globl tls_ie
tls_ie:  mov tv_%(n)s@gottpoff(%%rip),%%rax
         add %%fs:0,%%rax
         ret
.globl tls_ie_add
tls_ie_add: mov %%fs:0,%%rax
         add tv_%(n)s@gottpoff(%%rip),%%rax
         ret
.globl tls_gd
tls_gd:  sub $8,%%rsp
         .byte 0x66
         leaq tv_%(n)s@tlsgd(%%rip),%%rdi
         .word 0x6666
         rex64
         call __tls_get_addr@PLT
         add $8,%%rsp
         ret
.globl tls_ld
tls_ld:  sub $8,%%rsp
         leaq tv_%(n)s@tlsld(%%rip),%%rdi
         call __tls_get_addr@PLT
         leaq tv_%(n)s@dtpoff(%%rax),%%rax
         add $8,%%rsp
         ret
.globl tls_desc
tls_desc: sub $8,%%rsp
         leaq tv_%(n)s@tlsdesc(%%rip),%%rax
         call *tv_%(n)s@tlscall(%%rax)
         add %%fs:0,%%rax
         add $8,%%rsp
         ret
.section .note.GNU-stack,"",@progbits
"""

# large code model (-mcmodel=large -fPIC) general-/local-dynamic sequences: __tls_get_addr is called
# through its PLT offset from the GOT base held in %%rbx
TLS_ASM_LARGE = r"""
.text
.globl tls_gd_large
tls_gd_large: push %%rbx
         lea _GLOBAL_OFFSET_TABLE_(%%rip),%%rbx
         leaq tv_%(n)s@tlsgd(%%rip),%%rdi
         movabsq $__tls_get_addr@pltoff,%%rax
         addq %%rbx,%%rax
         call *%%rax
         pop %%rbx
         ret
.globl tls_ld_large
tls_ld_large: push %%rbx
         lea _GLOBAL_OFFSET_TABLE_(%%rip),%%rbx
         leaq tv_%(n)s@tlsld(%%rip),%%rdi
         movabsq $__tls_get_addr@pltoff,%%rax
         addq %%rbx,%%rax
         call *%%rax
         leaq tv_%(n)s@dtpoff(%%rax),%%rax
         pop %%rbx
         ret
.section .note.GNU-stack,"",@progbits
"""

C_MAIN = r"""
#include <stdio.h>
struct res { unsigned long v, f; };
typedef struct res (*tf)(void);
extern tf t_tab[], e_tab[]; extern int n_tests;
extern void *tls_ie(void), *tls_ie_add(void), *tls_gd(void), *tls_ld(void), *tls_desc(void);
extern void *tls_gd_large(void) __attribute__((weak)), *tls_ld_large(void) __attribute__((weak));
extern __thread long tv_a; __thread long tv_a = 77; __thread long tv_pad[3];
extern void *addr_of_tv(void);
int run_all(void) {
  int bad = 0;
  for (int i = 0; i < n_tests; i++) {
    struct res a = t_tab[i](), b = e_tab[i]();
    if (a.v != b.v || a.f != b.f) { printf("MISMATCH %d got=%lx/%lx want=%lx/%lx\n", i, a.v, a.f, b.v, b.f); bad++; }
  }
  void *w = addr_of_tv();
  if (tls_ie() != w) { printf("MISMATCH tls_ie\n"); bad++; }
  if (tls_ie_add() != w) { printf("MISMATCH tls_ie_add\n"); bad++; }
  if (tls_gd() != w) { printf("MISMATCH tls_gd\n"); bad++; }
  if (tls_ld() != w) { printf("MISMATCH tls_ld\n"); bad++; }
  if (tls_desc() != w) { printf("MISMATCH tls_desc\n"); bad++; }
  if (tls_gd_large && tls_gd_large() != w) { printf("MISMATCH tls_gd_large\n"); bad++; }
  if (tls_ld_large && tls_ld_large() != w) { printf("MISMATCH tls_ld_large\n"); bad++; }
  printf("checked %d bad %d\n", n_tests + 5, bad);
  return bad;
}
"""
C_ADDR = "extern __thread long tv_a; void *addr_of_tv(void) { return &tv_a; }\n"
C_DRV = "extern int run_all(void); int main(void) { return run_all() ? 1 : 0; }\n"


def one(ctx, ci):
    if ctx.replay is not None and str(ctx.replay.get("case")) != str(ci):
        return
    r = rng("C14", ctx.seed, ci)
    kind = r.choice(["static", "static-pie", "pie", "shared"])
    n = ctx.pick(60, 150)
    asm, tests, defsyms = gen_tests(r, kind, n)
    tab = ".data\n.globl t_tab, e_tab, n_tests\nt_tab:\n" + "".join(f" .quad t_{t['k']}\n" for t in tests) + \
          "e_tab:\n" + "".join(f" .quad e_{t['k']}\n" for t in tests) + f"n_tests: .long {len(tests)}\n" + \
          '.section .note.GNU-stack,"",@progbits\n'
    pic = {"static": ["-fno-pie"], "static-pie": ["-fPIE"], "pie": ["-fPIE"], "shared": ["-fPIC"]}[kind]
    o_asm = tools.assemble(ctx, asm + tab, name=f"c14-{ci}")
    o_tls = tools.assemble(ctx, TLS_ASM % {"n": "a"}, name="c14-tls")
    o_main = tools.compile_c(ctx, C_MAIN, ["-O1", *pic], name="c14-main" + pic[0])
    o_addr = tools.compile_c(ctx, C_ADDR, ["-O1", *pic], name="c14-addr" + pic[0])
    o_drv = tools.compile_c(ctx, C_DRV, ["-O1", *pic], name="c14-drv" + pic[0])
    wd = ctx.scratch.dir("c", ci)
    objs = [o_asm, o_tls, o_main, o_addr]
    if kind != "shared" and r.random() < 0.7:
        objs.append(tools.assemble(ctx, TLS_ASM_LARGE % {"n": "a"}, name="c14-tls-large"))
        ctx.note("tls-large-model-forms")
    kf = {"static": ["-static", "-no-pie"], "static-pie": ["-static-pie"], "pie": ["-pie"], "shared": ["-shared"]}[kind]
    dsl = [f"-Wl,{d}" for d in defsyms]

    def build_and_run(linker, extra, tag):
        if kind == "shared":
            so = os.path.join(wd, f"libt-{tag}.so")
            rl = tools.gcc_link(ctx, linker, [*objs, *kf, *extra, *dsl], so)
            if not rl.ok:
                return rl, None
            exe = os.path.join(wd, f"drv-{tag}")
            rd = tools.gcc_link(ctx, "ld", [o_drv, so, f"-Wl,-rpath,{wd}"], exe)
            if not rd.ok:
                return rd, None
        else:
            exe = os.path.join(wd, f"exe-{tag}")
            rl = tools.gcc_link(ctx, linker, [*objs, o_drv, *kf, *extra, *dsl], exe)
            if not rl.ok:
                return rl, None
        return rl, run([exe], timeout=60)
    lref, rref = build_and_run("ld", [], "ld")
    if rref is None or rref.rc != 0 or "bad 0" not in rref.outtext():
        ctx.inconclusive("reference link/run does not pass the self-check: " + ((lref.errtext() if rref is None else rref.outtext() + rref.errtext()).strip()[-100:]))
        return
    outs = {}
    for tag, extra in (("relax", []), ("norelax", ["-Wl,--no-relax"])):
        lw, rw = build_and_run("wild", extra, tag)
        if rw is None:
            msg = lw.errtext()
            if "panicked" in msg:
                ctx.violation(f"panic:{kind}:{tag}", msg[:300], case=ci, files={"t.s": asm + tab})
            elif tag == "norelax" and "Undefined symbol __tls_get_addr" in msg and "c14-tls-large" in msg:
                # with --no-relax wild keeps the large-model call sequence, and a static link has no
                # __tls_get_addr to call: nothing was relaxed, so there is no relaxation to judge
                ctx.note("info:large-model-tls-unrelaxed-needs-__tls_get_addr:" + kind)
                continue
            else:
                sig = "link-rejected"
                # attribute to a symbol class if the message names a symbol
                for t in tests:
                    if f"`{t['sym']}`" in msg:
                        sig = f"link-rejected:sym-class={t['cls']}"
                        break
                ctx.violation(f"{sig}:{kind}:{tag}", f"wild fails on inputs GNU ld links and runs: {msg.strip()[-300:]}", case=ci,
                              files={"t.s": asm + tab, "defsyms.txt": " ".join(defsyms)})
            return
        outs[tag] = rw
        if rw.timed_out:
            ctx.inconclusive("program watchdog fired")
            return
        if rw.rc != 0 or "bad 0" not in rw.outtext():
            bad = [ln for ln in rw.outtext().splitlines() if ln.startswith("MISMATCH")]
            sigs = set()
            for ln in bad[:8]:
                parts = ln.split()
                if parts[1].isdigit():
                    t = tests[int(parts[1])]
                    sigs.add((f"semantics:form={t['form']}:{'64' if t['wide'] else '32'}:sym-class={t['cls']}", f"{ln} :: test {t}"))
                else:
                    sigs.add((f"semantics:{parts[1]}", ln))
            if not bad:
                sigs.add((f"crash:rc={rw.rc}", (rw.outtext() + rw.errtext())[-200:]))
            for sig, msg in sorted(sigs)[:4]:
                ctx.violation(f"{sig}:{kind}:{tag}", msg, case=ci, files={"t.s": asm + tab, "defsyms.txt": " ".join(defsyms)})
            return
    for t in tests:
        ctx.note(f"form:{t['form']}")
        ctx.note(f"symclass:{t['cls']}")
    ctx.note(f"kind:{kind}")
    ctx.held(fingerprint=f"{ci}:{kind}:{len(tests)}", nontrivial=len(tests) >= 20,
             sample={"case": ci, "kind": kind, "tests": len(tests) + 5, "defsyms": defsyms} if ci < 4 else None)


PINNED_ABS = r"""
.text
.globl t_0
t_0: mov abs_p@GOTPCREL(%rip),%rax
     xor %edx,%edx
     ret
.globl e_0
e_0: mov w_abs(%rip),%rax
     xor %edx,%edx
     ret
.data
w_abs: .quad abs_p
.globl t_tab, e_tab, n_tests
t_tab: .quad t_0
e_tab: .quad e_0
n_tests: .long 1
.section .note.GNU-stack,"",@progbits
"""


def pinned(ctx):
    """REX.W mov of an absolute symbol in [2^31, 2^32): the known sign-extension case."""
    cid = "pinned-abs-2^31"
    if ctx.replay is not None and ctx.replay.get("case") != cid:
        return
    pic = ["-fno-pie"]
    o_asm = tools.assemble(ctx, PINNED_ABS, name="c14-pinned")
    o_tls = tools.assemble(ctx, TLS_ASM % {"n": "a"}, name="c14-tls")
    objs = [o_asm, o_tls, tools.compile_c(ctx, C_MAIN, ["-O1", *pic], name="c14-main" + pic[0]),
            tools.compile_c(ctx, C_ADDR, ["-O1", *pic], name="c14-addr" + pic[0]), tools.compile_c(ctx, C_DRV, ["-O1", *pic], name="c14-drv" + pic[0])]
    wd = ctx.scratch.dir("pinned")
    for v in (0x80000000, 0xffffffff, 0x100000000, 0xffffffff80000000):
        exe = os.path.join(wd, f"p{v:x}")
        lr = tools.gcc_link(ctx, "ld", [*objs, "-static", "-no-pie", f"-Wl,--defsym=abs_p={v:#x}"], exe + ".ld")
        rr = run([exe + ".ld"], timeout=30) if lr.ok else None
        if rr is None or "bad 0" not in rr.outtext():
            ctx.inconclusive("pinned: reference fails")
            continue
        lw = tools.gcc_link(ctx, "wild", [*objs, "-static", "-no-pie", f"-Wl,--defsym=abs_p={v:#x}"], exe)
        if not lw.ok:
            ctx.violation(f"link-rejected:sym-class=absolute={vclass(v)}:static:relax", lw.errtext()[-200:], case=cid)
            continue
        rw = run([exe], timeout=30)
        if "bad 0" not in rw.outtext():
            ctx.violation(f"semantics:form=mov:64:sym-class=absolute={vclass(v)}:static:relax", f"abs_p={v:#x}: {rw.outtext().strip()[:200]}", case=cid,
                          files={"t.s": PINNED_ABS})
        else:
            ctx.held(fingerprint=f"{cid}:{v:x}")


def main(ctx):
    ctx.rule = ("one case = one generated object with 60-150 instruction instances (form x symbol class x register x operand size x "
                "input value x carry) + 5 TLS sequences, linked as static/static-PIE/PIE/shared with and without --no-relax; "
                "non-trivial = GNU ld's link of the same objects passes the self-check, so every instance was executed and compared; "
                "distinct = (case, kind, instances)")
    ctx.assumptions = ["the CPU is the oracle: the relaxed instruction's register and flag effects are compared with the same "
                       "operation on an unrelaxable witness slot", "APX (REX2/EVEX) forms cannot be assembled or executed here and are not covered"]
    tools.wild()
    pinned(ctx)
    pmap(lambda i: one(ctx, i), range(ctx.pick(24, 300)), workers=8)
