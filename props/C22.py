"""C22 Malformed input produces a diagnostic, never a crash (CLI structure-aware mutation tier).

Oracle (process level): wild ends with status 0, or with a non-zero status and a `wild: error` line.
Never a signal, `panicked at` (status 101), an abort, a silent non-zero exit, or a hang (60 s watchdog,
re-run 3x; a single timeout is inconclusive). Runs use RUST_BACKTRACE=1 --no-fork under RLIMIT_AS=8GiB
(a sample also in fork mode); a panic is keyed by (file, function) of the first in-repo frame.
Workload: valid objects (C, C++ COMDAT, asm), archives, thin archives, shared objects, linker /
version scripts, export lists and response files are mutated at ELF header / section header /
symbol / relocation / group / note / .eh_frame / dynamic / archive-header fields, plus grammar-made
texts and odd argument lists. Reproducers pinned under props/C22_pinned are replayed on every run.
"""
import json
import os
import re
import shutil
import struct
import threading

from vlib import tools
from vlib.common import VERIF, HarnessError, log, pmap, rng, run, write, read
from vlib.elf import Elf, ElfError

LEVEL = "exploration"
PINDIR = os.path.join(VERIF, "props", "C22_pinned")
PRLIMIT = shutil.which("prlimit")
MEMLIMIT = 8 << 30
ENV = {"RUST_BACKTRACE": "1"}
_lock = threading.Lock()
SEEN = {}          # signature -> count in this run
IN_REPO = ("libwild::", "linker_utils::", "wild::", "linker_layout::", "linker_trace::", "linker_diff::")

# ---------------------------------------------------------------------------------------------
# base corpus

C1 = r"""
__thread int tls_a = 5; __thread int tls_b;
int data_a = 7; int bss_a; const char *str_a = "hello merge"; const char *str_b = "merge";
static int helper(int x) { return x * 3 + tls_a; }
int f1(int x) { return helper(x) + data_a; }
int f2(int x) { bss_a += x; tls_b = x; return bss_a + (str_a[0] == str_b[0]); }
__attribute__((weak)) int weak_fn(void);
int f3(void) { return weak_fn ? weak_fn() : 1; }
__attribute__((constructor)) static void ctor(void) { bss_a = 1; }
int main_like(void) { return f1(1) + f2(2) + f3(); }
"""
CPP1 = r"""
template <typename T> struct Box { T v; T get() const { return v + 1; } static int count; };
template <typename T> int Box<T>::count = 3;
inline int inl(int x) { static int calls; return x + ++calls; }
extern "C" int cpp_entry(int x) { Box<int> b{x}; return b.get() + inl(x) + Box<int>::count; }
extern "C" int cpp_entry2(int x) { Box<long> b{x}; return (int)b.get() + inl(x); }
"""
CPP2 = r"""
template <typename T> struct Box { T v; T get() const { return v + 1; } static int count; };
template <typename T> int Box<T>::count = 3;
inline int inl(int x) { static int calls; return x + ++calls; }
extern "C" int cpp_other(int x) { Box<int> b{x}; return b.get() + inl(x) + Box<int>::count; }
"""
START = r"""
.globl _start
.text
_start:
    call main_like
    call cpp_entry
    call cpp_other
    call lib_fn
    mov %eax,%edi
    mov $60,%eax
    syscall
.section .note.GNU-stack,"",@progbits
"""
LIB = "int lib_data = 9; int lib_fn(void) { return lib_data; } int lib_unused(void) { return 2; }\n"
LIB2 = "int lib2_fn(void) { return 4; }\n"
LDS = """ENTRY(_start)
SECTIONS {
  . = 0x400000;
  .text : { *(.text .text.*) }
  .rodata : { *(.rodata .rodata.*) }
  . = ALIGN(4096);
  .data : { *(.data .data.*) KEEP(*(.init_array)) }
  .bss : { *(.bss .bss.*) }
}
"""
VER = "V1 { global: f1; f2; extern \"C++\" { \"inl(int)\"; }; local: *; };\nV2 { global: cpp_*; } V1;\n"
EXP = "{ f1; f2; cpp_entry; \"lib_fn\"; };\n"
FLAGS = ("-O1", "-ffunction-sections", "-fdata-sections", "-fasynchronous-unwind-tables", "-fcf-protection", "-fPIC")


def build_corpus(ctx):
    d = ctx.scratch.dir("base")
    def cp(src, name):
        shutil.copy(src, os.path.join(d, name))
    cp(tools.compile_c(ctx, C1, FLAGS), "c1.o")
    cp(tools.compile_c(ctx, CPP1, FLAGS + ("-fno-exceptions", "-fno-rtti"), lang="c++"), "cpp1.o")
    cp(tools.compile_c(ctx, CPP2, FLAGS + ("-fno-exceptions", "-fno-rtti"), lang="c++"), "cpp2.o")
    cp(tools.assemble(ctx, START), "start.o")
    cp(tools.compile_c(ctx, LIB, FLAGS), "lib.o")
    cp(tools.compile_c(ctx, LIB2, FLAGS), "lib2.o")
    r0 = run(["ar", "rcs", "libz.a", "lib.o", "lib2.o"], cwd=d)
    r1 = run(["ar", "rcsT", "libt.a", "lib.o", "lib2.o"], cwd=d)
    write(os.path.join(d, "libver.map"), "LIBV { global: lib_*; lib2_fn; local: *; };\n")
    r2 = tools.link("ld", ["-shared", "lib.o", "lib2.o", "-o", "libs.so", "-soname", "libs.so", "--hash-style=both",
                           "--version-script=libver.map"], cwd=d)
    if not (r0.ok and r1.ok and r2.ok):
        raise HarnessError("corpus build failed: " + r0.errtext() + r1.errtext() + r2.errtext())
    write(os.path.join(d, "s.lds"), LDS)
    write(os.path.join(d, "v.ver"), VER)
    write(os.path.join(d, "e.lst"), EXP)
    write(os.path.join(d, "in.lds"), "INPUT(lib.o)\nGROUP(lib2.o)\n")
    write(os.path.join(d, "a.rsp"), "start.o c1.o\n'cpp1.o' \"cpp2.o\"\n@b.rsp\n")
    write(os.path.join(d, "b.rsp"), "lib.o --gc-sections\n")
    cmds = {
        "exe-obj": ["start.o", "c1.o", "cpp1.o", "cpp2.o", "lib.o"],
        "exe-archive": ["start.o", "c1.o", "cpp1.o", "cpp2.o", "libz.a"],
        "exe-thin": ["start.o", "c1.o", "cpp1.o", "cpp2.o", "libt.a"],
        "exe-so": ["start.o", "c1.o", "cpp1.o", "cpp2.o", "libs.so"],
        "pie-so": ["-pie", "start.o", "c1.o", "cpp1.o", "cpp2.o", "libs.so", "-z", "now"],
        "shared": ["-shared", "c1.o", "cpp1.o", "cpp2.o", "lib.o", "--version-script=v.ver"],
        "shared-exp": ["-shared", "c1.o", "cpp1.o", "cpp2.o", "lib.o", "--export-dynamic-symbol-list=e.lst", "--hash-style=both"],
        "exe-script": ["start.o", "c1.o", "cpp1.o", "cpp2.o", "lib.o", "-T", "s.lds"],
        "exe-implicit-script": ["start.o", "c1.o", "cpp1.o", "cpp2.o", "in.lds"],
        "exe-rsp": ["@a.rsp"],
        "relocatable": ["-r", "c1.o", "cpp1.o", "cpp2.o"],
        "exe-nogc": ["start.o", "c1.o", "cpp1.o", "cpp2.o", "lib.o", "--no-gc-sections", "--build-id=sha1", "--eh-frame-hdr"],
    }
    ok = {}
    for k, a in cmds.items():
        r = run_wild(d, a + ["-o", "base-" + k + ".out"], fork=False)
        if classify(r)[0] != "ok" or r.rc != 0:
            ctx.note("base-link-does-not-succeed:" + k)
            log(f"[C22] base link {k} does not succeed: {r.errtext().strip()[:200]}")
        else:
            ok[k] = a
    if len(ok) < 8:
        raise HarnessError("too few base links succeed")
    return d, ok


# ---------------------------------------------------------------------------------------------
# running and classifying

def run_wild(cwd, args, fork=False, timeout=60, threads=None):
    a = list(args)
    if not fork:
        a.append("--no-fork")
    if threads:
        a.append(f"--threads={threads}")
    cmd = [tools.wild(), *a]
    if PRLIMIT:
        cmd = [PRLIMIT, f"--as={MEMLIMIT}", "--core=0", *cmd]
    return run(cmd, cwd=cwd, timeout=timeout, extra_env=ENV)


def frame_to_file_fn(sym):
    """`libwild::layout_rules::SectionRules::from_rules` -> (libwild/src/layout_rules.rs, from_rules)."""
    s = sym.strip()
    m = re.match(r"^<(.+?) as .+?>::(.+)$", s)
    if m:
        s = m.group(1) + "::" + m.group(2)
    s = re.sub(r"<[^<>]*>", "", s)
    s = re.sub(r"<[^<>]*>", "", s)
    parts = [p for p in s.split("::") if p and not p.startswith("{") and not re.fullmatch(r"h[0-9a-f]{16}", p)]
    crate = parts[0]
    cdir = crate.replace("_", "-")
    mods = [p for p in parts[1:-1] if p[:1].islower() or p[:1] == "_"]
    fn = parts[-1]
    src = os.path.join("/repo", cdir, "src")
    path = None
    for n in range(len(mods), 0, -1):
        for cand in ("/".join(mods[:n]) + ".rs", "/".join(mods[:n]) + "/mod.rs"):
            if os.path.exists(os.path.join(src, cand)):
                path = f"{cdir}/src/{cand}"
                break
        if path:
            break
    if path is None:
        path = f"{cdir}/src/{'lib.rs' if os.path.exists(os.path.join(src, 'lib.rs')) else 'main.rs'}"
    return path, fn


def classify(res):
    """-> (verdict, signature or None, detail). verdict: ok / violation / timeout."""
    if res.timed_out:
        return "timeout", None, "watchdog"
    err = res.errtext()
    if "panicked at" in err:
        loc = re.search(r"panicked at ([^\s:]+):(\d+)", err)
        frames = re.findall(r"^\s*\d+:\s+(.+)$", err, re.M)
        first = next((f for f in frames if f.lstrip("<").startswith(IN_REPO)), None)
        if first:
            path, fn = frame_to_file_fn(first)
            if loc and not loc.group(1).startswith("/") and os.path.exists(os.path.join("/repo", loc.group(1))):
                path = loc.group(1)
            return "violation", f"panic@{path}::{fn}", err
        if loc:
            return "violation", f"panic@{loc.group(1).split('/src/')[-1] if loc.group(1).startswith('/') else loc.group(1)}::unknown", err
        return "violation", "panic@unknown", err
    if res.signal is not None or res.rc in (134, 139, 135, 136, 132):
        sig = res.signal if res.signal is not None else res.rc - 128
        name = {6: "SIGABRT", 11: "SIGSEGV", 7: "SIGBUS", 8: "SIGFPE", 4: "SIGILL", 9: "SIGKILL"}.get(sig, f"signal{sig}")
        if "memory allocation of" in err:
            frames = re.findall(r"^\s*\d+:\s+(.+)$", err, re.M)
            first = next((f for f in frames if f.lstrip("<").startswith(IN_REPO)), None)
            if first:
                path, fn = frame_to_file_fn(first)
                return "violation", f"abort:alloc@{path}::{fn}", err
            return "violation", "abort:alloc", err
        if "stack overflow" in err:
            return "violation", "abort:stack-overflow", err
        return "violation", f"signal:{name}", err
    if res.rc == 0:
        return "ok", None, ""
    if re.search(r"^wild: error", err, re.M) or "error:" in err:
        return "ok", None, "error"
    return "violation", f"silent-failure:rc={res.rc}", err


# ---------------------------------------------------------------------------------------------
# mutators: each returns (list of (offset, bytes) patches | new bytes, mutation class)

def interesting(r, width, cur, data_len, elf=None):
    mx = (1 << (8 * width)) - 1
    pool = [0, 1, 2, 3, 7, 8, 0x7f, 0x80, 0xff, 0xffff, 0xfff0, mx, mx - 1, mx >> 1, (mx >> 1) + 1, data_len, data_len - 1,
            data_len + 1, data_len // 2, cur + 1, cur - 1 if cur else 1, cur * 2, cur | (1 << (8 * width - 1)), cur ^ 1,
            cur + 8, cur + 24, cur + 64, r.getrandbits(8 * width), r.getrandbits(8), r.getrandbits(16)]
    if elf is not None:
        pool += [len(elf.sections), len(elf.sections) - 1, len(elf.sections) + 1, elf.e_shoff, elf.shstrndx]
    return r.choice(pool) & mx


FMT = {1: "<B", 2: "<H", 4: "<I", 8: "<Q"}


def field_patch(r, data, off, width, elf=None):
    cur = struct.unpack_from(FMT[width], data, off)[0]
    for _ in range(8):
        v = interesting(r, width, cur, len(data), elf)
        if v != cur:
            break
    return (off, struct.pack(FMT[width], v))


EHDR = [("e_type", 16, 2), ("e_machine", 18, 2), ("e_version", 20, 4), ("e_entry", 24, 8), ("e_phoff", 32, 8), ("e_shoff", 40, 8),
        ("e_flags", 48, 4), ("e_ehsize", 52, 2), ("e_phentsize", 54, 2), ("e_phnum", 56, 2), ("e_shentsize", 58, 2),
        ("e_shnum", 60, 2), ("e_shstrndx", 62, 2), ("ei_class", 4, 1), ("ei_data", 5, 1), ("ei_version", 6, 1), ("ei_osabi", 7, 1)]
SHDR = [("sh_name", 0, 4), ("sh_type", 4, 4), ("sh_flags", 8, 8), ("sh_addr", 16, 8), ("sh_offset", 24, 8), ("sh_size", 32, 8),
        ("sh_link", 40, 4), ("sh_info", 44, 4), ("sh_addralign", 48, 8), ("sh_entsize", 56, 8)]
SYM = [("st_name", 0, 4), ("st_info", 4, 1), ("st_other", 5, 1), ("st_shndx", 6, 2), ("st_value", 8, 8), ("st_size", 16, 8)]
PHDR = [("p_type", 0, 4), ("p_flags", 4, 4), ("p_offset", 8, 8), ("p_vaddr", 16, 8), ("p_filesz", 32, 8), ("p_memsz", 40, 8),
        ("p_align", 48, 8)]
SHT_NAMES = {0: "NULL", 1: "PROGBITS", 2: "SYMTAB", 3: "STRTAB", 4: "RELA", 5: "HASH", 6: "DYNAMIC", 7: "NOTE", 8: "NOBITS", 9: "REL",
             11: "DYNSYM", 14: "INIT_ARRAY", 15: "FINI_ARRAY", 17: "GROUP", 18: "SYMTAB_SHNDX", 0x6ffffff6: "GNU_HASH",
             0x6ffffffd: "VERDEF", 0x6ffffffe: "VERNEED", 0x6fffffff: "VERSYM", 0x70000001: "X86_64_UNWIND"}


def sec_kind(s):
    if s.name in (".eh_frame", ".note.gnu.property", ".note.GNU-stack", ".comment", ".gcc_except_table"):
        return s.name
    if s.name.startswith(".rodata.str") or s.name.startswith(".debug"):
        return s.name.split(".")[1] + "*"
    return SHT_NAMES.get(s.type, hex(s.type))


def mutate_elf(r, data, base_off=0):
    """Structure-aware patches for an ELF image located at base_off inside data. -> (patches, class)."""
    img = data[base_off:]
    try:
        e = Elf(bytes(img))
    except ElfError:
        return [(base_off + r.randrange(min(64, len(img))), bytes([r.getrandbits(8)]))], "elf:unparsable"
    secs = e.sections
    choice = r.random()

    def P(off, width):
        o, b = field_patch(r, img, off, width, e)
        return (base_off + o, b)
    if choice < 0.10:
        name, off, w = r.choice(EHDR)
        return [P(off, w)], f"ehdr.{name}"
    if choice < 0.38 and secs:
        s = r.choice(secs[1:] if len(secs) > 1 else secs)
        name, off, w = r.choice(SHDR)
        return [P(e.e_shoff + 64 * s.index + off, w)], f"shdr.{name}:{sec_kind(s)}"
    symtabs = [s for s in secs if s.type in (2, 11) and s.size >= 24]
    relas = [s for s in secs if s.type == 4 and s.size >= 24]
    if choice < 0.55 and symtabs:
        s = r.choice(symtabs)
        i = r.randrange(s.size // 24)
        name, off, w = r.choice(SYM)
        return [P(s.offset + 24 * i + off, w)], f"sym.{name}:{SHT_NAMES[s.type]}"
    if choice < 0.70 and relas:
        s = r.choice(relas)
        i = r.randrange(s.size // 24)
        which = r.choice(["r_offset", "r_type", "r_sym", "r_addend"])
        base = s.offset + 24 * i
        tgt = secs[s.info].name if s.info < len(secs) else "?"
        cls = f"rela.{which}:{'.eh_frame' if tgt == '.eh_frame' else 'dyn' if not tgt or e.e_type == 3 else 'sec'}"
        if which == "r_offset":
            return [P(base, 8)], cls
        if which == "r_type":
            return [P(base + 8, 4)], cls
        if which == "r_sym":
            return [P(base + 12, 4)], cls
        return [P(base + 16, 8)], cls
    groups = [s for s in secs if s.type == 17 and s.size >= 8]
    if choice < 0.76 and groups:
        s = r.choice(groups)
        i = r.randrange(s.size // 4)
        return [P(s.offset + 4 * i, 4)], "group.word" + ("0" if i == 0 else "")
    notes = [s for s in secs if s.type == 7 and s.size >= 12]
    if choice < 0.81 and notes:
        s = r.choice(notes)
        i = r.randrange(min(s.size // 4, 8))
        return [P(s.offset + 4 * i, 4)], f"note.word{i}:{s.name}"
    ehs = [s for s in secs if s.name == ".eh_frame" and s.size >= 8]
    if choice < 0.87 and ehs:
        s = r.choice(ehs)
        # walk CIE/FDE records: mutate a length or id or a byte inside
        offs = []
        o = 0
        blob = img[s.offset:s.offset + s.size]
        while o + 8 <= len(blob):
            ln = struct.unpack_from("<I", blob, o)[0]
            offs.append(o)
            if ln == 0 or ln == 0xffffffff:
                break
            o += 4 + ln
        o = r.choice(offs) if offs else 0
        k = r.choice(["length", "id", "byte"])
        if k == "length":
            return [P(s.offset + o, 4)], "eh_frame.length"
        if k == "id":
            return [P(s.offset + o + 4, 4)], "eh_frame.cie_id"
        return [P(s.offset + o + 8 + r.randrange(12), 1)], "eh_frame.body"
    dyn = [s for s in secs if s.type == 6 and s.size >= 16]
    if choice < 0.92 and dyn:
        s = r.choice(dyn)
        i = r.randrange(s.size // 16)
        return [P(s.offset + 16 * i + r.choice([0, 8]), 8)], "dynamic.entry"
    vers = [s for s in secs if s.type in (0x6ffffffd, 0x6ffffffe, 0x6fffffff, 0x6ffffff6, 5) and s.size >= 4]
    if choice < 0.95 and vers:
        s = r.choice(vers)
        w = 2 if s.type == 0x6fffffff else 4
        return [P(s.offset + w * r.randrange(s.size // w), w)], f"{SHT_NAMES[s.type].lower()}.word"
    if choice < 0.97 and e.segments:
        seg = r.choice(e.segments)
        name, off, w = r.choice(PHDR)
        return [P(e.e_phoff + 56 * seg.index + off, w)], f"phdr.{name}"
    # raw bytes in a random section's content or string table
    cands = [s for s in secs if s.type != 8 and s.size > 0 and s.offset + s.size <= len(img)]
    if cands:
        s = r.choice(cands)
        o = s.offset + r.randrange(s.size)
        return [(base_off + o, bytes([r.choice([0, 0xff, r.getrandbits(8)])]))], f"bytes:{sec_kind(s)}"
    return [(base_off + r.randrange(len(img)), b"\xff")], "bytes:any"


def ar_members(data):
    """-> list of (header offset, data offset, size, name)."""
    out = []
    o = 8
    while o + 60 <= len(data):
        name = data[o:o + 16].decode("latin1")
        try:
            size = int(data[o + 48:o + 58].decode("latin1").strip() or "0")
        except ValueError:
            break
        thin_member = data[:8] == b"!<thin>\n" and not name.startswith("/")
        out.append((o, o + 60, size, name.strip()))
        o += 60 + (0 if thin_member else size + (size & 1))
    return out


def mutate_archive(r, data):
    mem = ar_members(data)
    c = r.random()
    if c < 0.08:
        return [(r.randrange(8), bytes([r.getrandbits(8)]))], "ar.magic"
    if c < 0.12:
        cut = r.choice([8, 9, 60, 67, 68, len(data) - 1, len(data) // 2, r.randrange(8, len(data))])
        return bytes(data[:cut]), "ar.truncate"
    if not mem:
        return [(r.randrange(len(data)), b"\xff")], "ar.bytes"
    h, d, size, name = r.choice(mem)
    if c < 0.40:
        vals = [b"0", b"1", b"59", b"-1", b"9999999999", b"4294967296", str(size + 1).encode(), str(size - 1).encode(),
                str(len(data)).encode(), b"abc", b"", b"1e9", b"0x10", str(size * 2).encode(), b"18446744073"]
        v = r.choice(vals)[:10].ljust(10)
        return [(h + 48, v)], "ar.hdr.size:" + ("symtab" if name == "/" else "names" if name == "//" else "member")
    if c < 0.55:
        vals = [b"/", b"//", b"/0", b"/1", b"/99999", b"/-1", b"/abc", b"", b"a" * 16, b"x.o/", b"/4294967296", b"/SYM64/", b"#1/20"]
        return [(h, r.choice(vals)[:16].ljust(16))], "ar.hdr.name"
    if c < 0.60:
        return [(h + 58, bytes([r.getrandbits(8), r.getrandbits(8)]))], "ar.hdr.fmag"
    if c < 0.75 and name in ("/", "//") and size:
        if name == "/" and size >= 4:
            k = r.randrange(min(size // 4, 6))
            return [(d + 4 * k, struct.pack(">I", r.choice([0, 1, 7, 8, 0xffffffff, len(data), len(data) + 1, 0x7fffffff, h + 1])))], \
                "ar.symtab.word" + ("0" if k == 0 else "")
        return [(d + r.randrange(size), bytes([r.choice([0, 10, 47, 255])]))], "ar.longnames.byte"
    if data[d:d + 4] == b"\x7fELF":
        p, cls = mutate_elf_sub(r, data, d, size)
        return p, "ar.member:" + cls
    return [(d + r.randrange(max(size, 1)) if size else h, b"\xff")], "ar.bytes"


def mutate_elf_sub(r, data, off, size):
    sub = bytes(data[off:off + size])
    p, cls = mutate_elf(r, sub)
    return [(off + o, b) for o, b in p], cls


TOKENS_LDS = ["SECTIONS", "{", "}", "(", ")", ":", ";", ".", "=", "*", "KEEP", "ENTRY", "_start", "INPUT", "GROUP", "AS_NEEDED",
              "OUTPUT_FORMAT", "ALIGN", "PROVIDE", "PROVIDE_HIDDEN", "ASSERT", "MEMORY", "PHDRS", "VERSION", "ORIGIN", "LENGTH",
              ".text", ".data", "*(.text)", "0x400000", "18446744073709551616", "-1", "0", "\"", "/*", "*/", "#", ",", "+", "-",
              "/", "<<", ">>", "==", "&&", "||", "!", "~", "MAX", "MIN", "SIZEOF", "ADDR", ">", "AT", "NOLOAD", "lib.o", "-lz",
              "rwx", "ram", "0x", "1K", "1M", "99999999999999999999999M", "\\", "\n", "\t", "\x00", "\xff", "é"]
TOKENS_VER = ["{", "}", ";", ":", "global", "local", "*", "extern", "\"C++\"", "\"C\"", "V1", "V2", "f1", "f?", "[a-z]*", "\"", "#",
              "/*", "*/", "\n", "cpp_*", "}", "};", "\x00", "(", ")", "é"]


EXPR_CONSTS = ["0", "1", "2", "-1", "~0", "(1 << 63)", "0x8000000000000000", "0x7fffffffffffffff", "0xffffffffffffffff",
               "(0 - 1)", "63", "64", "65", "0x100000000", "-0x8000000000000000", "9223372036854775808", "1K", "4096M"]
EXPR_OPS = ["/", "/", "%", "*", "+", "-", "<<", ">>", "&", "|", "==", "<", ">="]


def hostile_expr(r, depth=0):
    """Arithmetic at the edges of 64-bit signed/unsigned ranges: division and remainder by 0 and -1 of the
    most negative value, shifts by 63/64/65, products that overflow, alignment to odd or huge values."""
    if depth >= 0 and (depth >= 3 or r.random() < 0.3):
        return r.choice(EXPR_CONSTS)
    c = r.random()
    if c < 0.3 or depth < 0:
        # directed edge pairs
        mn = r.choice(["(1 << 63)", "0x8000000000000000", "-0x8000000000000000", "(0 - 0x8000000000000000)", "(~0 << 63)"])
        m1 = r.choice(["-1", "~0", "(0 - 1)", "0xffffffffffffffff"])
        x = r.choice(EXPR_CONSTS[:15] if depth < 0 else EXPR_CONSTS)
        forms = [f"({mn} / {m1})", f"({mn} / {m1})", f"({x} / 0)", f"({x} << 64)", f"({x} >> 65)", f"({mn} * {m1})", f"(-{mn})",
                 f"({mn} - 1)", f"(0x7fffffffffffffff + {x})", f"({x} / {m1})", f"({mn} / {x})"]
        if depth >= 0:      # forms wild's grammar may not have: only inside larger random expressions
            forms += [f"({mn} % {m1})", f"({x} % 0)", f"ALIGN({x}, 0)", f"ALIGN({x}, 3)", f"ALIGN({mn}, {mn})"]
        return r.choice(forms)
    if c < 0.65:
        return f"({hostile_expr(r, depth + 1)} {r.choice(EXPR_OPS)} {hostile_expr(r, depth + 1)})"
    if c < 0.8:
        return f"{r.choice(['ALIGN', 'MAX', 'MIN'])}({hostile_expr(r, depth + 1)}, {hostile_expr(r, depth + 1)})"
    if c < 0.9:
        return f"{r.choice(['-', '~', '!'])}{hostile_expr(r, depth + 1)}"
    return f"({hostile_expr(r, depth + 1)} ? {hostile_expr(r, depth + 1)} : {hostile_expr(r, depth + 1)})"


def mutate_text(r, text, tokens, kind):
    c = r.random()
    b = text
    if kind == "linker-script" and r.random() < 0.2:
        # half of them: one directed edge pair on its own (nothing else in the expression that a parser might reject)
        e = hostile_expr(r, depth=-1) if r.random() < 0.5 else hostile_expr(r)
        # wild evaluates general expressions in ASSERT only (assignments and `. =` take restricted forms)
        if r.random() < 0.7:
            return f'ASSERT({e} != 12345, "m")\n', f"text.{kind}:hostile-expression"
        return r.choice([f'ASSERT({e} != 12345, "m")\n', f"sym_x = {e};\n",
                         f"SECTIONS {{ . = {e}; .text : {{ *(.text .text.*) }} }}\n",
                         f"SECTIONS {{ .text : {{ *(.text .text.*) }} . = ALIGN({e}); .data : {{ *(.data) }} }}\n"]), \
            f"text.{kind}:hostile-expression"
    if c < 0.25:
        # token soup
        n = r.randint(1, 40)
        return " ".join(r.choice(tokens) for _ in range(n)), f"text.{kind}:token-soup"
    toks = re.findall(r"\s+|[A-Za-z_.0-9*]+|.", b)
    if not toks:
        return r.choice(tokens), f"text.{kind}:empty"
    if c < 0.45:
        i = r.randrange(len(toks))
        del toks[i:i + r.randint(1, 3)]
        return "".join(toks), f"text.{kind}:delete-tokens"
    if c < 0.60:
        i = r.randrange(len(toks))
        toks[i:i] = [r.choice(tokens)] * r.choice([1, 1, 2, 50])
        return "".join(toks), f"text.{kind}:insert-token"
    if c < 0.70:
        i = r.randrange(len(toks))
        toks[i] = r.choice(tokens)
        return "".join(toks), f"text.{kind}:replace-token"
    if c < 0.78:
        cut = r.randrange(len(b) + 1)
        return b[:cut], f"text.{kind}:truncate"
    if c < 0.86:
        depth = r.choice([10, 200, 5000, 100000])
        op, cl = r.choice([("(", ")"), ("{", "}"), ("KEEP(", ")"), ("AS_NEEDED(", ")"), ("-(", ")"), ("!", ""), ("~", "")])
        body = op * depth + "1" + cl * (depth if r.random() < 0.7 else 0)
        if kind == "linker-script":
            return r.choice(["ASSERT(" + body + ", \"m\")\n", "SECTIONS { .x : " + body + " }\n", "INPUT" + body + "\n",
                             "x = " + body + ";\n"]), f"text.{kind}:deep-nesting"
        return body, f"text.{kind}:deep-nesting"
    if c < 0.93:
        i = r.randrange(len(b) + 1)
        return b[:i] + r.choice(["\x00", "\xff\xfe", "\"", "'", "/*", "\\", "\r\n"]) + b[i:], f"text.{kind}:insert-byte"
    return b * r.choice([2, 50, 2000]), f"text.{kind}:repeat"


def mutate_args(r, base_args, options):
    c = r.random()
    a = list(base_args)
    if c < 0.3:
        name, takes = r.choice(options)
        vals = ["", "0", "-1", "99999999999999999999", "0x", "abc", "=", "é", "a=b=c", "@", "/", ".", "\x01", "none", "sha1", "uuid",
                "0x" + "f" * 17, "1e9", " ", "--", "-"]
        form = r.random()
        if not takes:
            a.insert(r.randrange(len(a) + 1), name + ("=" + r.choice(vals) if form < 0.3 else ""))
            return a, "args:flag" + ("-with-value" if form < 0.3 else "")
        if form < 0.35:
            a.append(name)                                  # value missing at the end
            return a, "args:missing-value"
        if name.startswith("--") and form < 0.7:
            a.insert(r.randrange(len(a) + 1), name + "=" + r.choice(vals))
        else:
            i = r.randrange(len(a) + 1)
            a[i:i] = [name, r.choice(vals)]
        return a, "args:odd-value"
    if c < 0.42:
        k = r.choice(["-z", "-m", "--hash-style=", "--build-id=", "--icf=", "--compress-debug-sections=", "--sort-section=",
                      "--unresolved-symbols=", "--orphan-handling=", "-plugin-opt=", "--wild-experiments=", "--threads=",
                      "--defsym=", "-Ttext=", "--image-base=", "--section-start=", "-u", "--wrap=", "--entry=", "-e",
                      "--sysroot=", "--exclude-libs=", "-rpath=", "--soname=", "-l", "-l:", "-L", "-y", "--undefined-glob=",
                      "--version-script=", "--dynamic-list=", "--retain-symbols-file=", "--dependency-file=", "--Map=",
                      "--write-gc-stats=", "--push-state", "--pop-state", "--start-lib", "--end-lib", "--start-group", "--end-group"])
        v = r.choice(["", "x", "0", "max-page-size=0", "max-page-size=3", "max-page-size=18446744073709551615", "stack-size=-1",
                      "a=", "=1", "a=b+", "a=0x" + "f" * 20, ".text=", ".text=zz", "1,2,3,4,5", ",,,", "99999999999", "-5",
                      "/nonexistent/x", ".", "/", "/dev/null", "é", "a" * 5000])
        if k.endswith("=") or k in ("-l", "-l:", "-L"):
            a.insert(r.randrange(len(a) + 1), k + v)
        elif k in ("--push-state", "--pop-state", "--start-lib", "--end-lib", "--start-group", "--end-group"):
            for _ in range(r.choice([1, 2, 50])):
                a.insert(r.randrange(len(a) + 1), k)
        else:
            i = r.randrange(len(a) + 1)
            a[i:i] = [k, v]
        return a, "args:keyword-option"
    if c < 0.52:
        return [x for x in a if r.random() < 0.7], "args:drop-some"
    if c < 0.62:
        return a + a, "args:duplicate-inputs"
    if c < 0.70:
        return a + ["-o"], "args:dangling-o"
    if c < 0.78:
        return ["@self.rsp"], "args:recursive-response-file"
    if c < 0.84:
        return ["@" + r.choice(["/", ".", "/dev/null", "/nonexistent", "", "a.rsp/x"])] + a, "args:odd-response-file"
    if c < 0.9:
        r.shuffle(a)
        return a, "args:shuffle"
    if c < 0.95:
        return a + [r.choice(["/dev/null", ".", "/", "s.lds", "v.ver", "base-exe-obj.out", "a.rsp", "libs.so", "libs.so"])], \
            "args:odd-input-file"
    return [], "args:empty"


def apply(data, mut):
    if isinstance(mut, tuple) and mut and mut[0] == "truncate":
        return bytes(data[:mut[1]])
    if isinstance(mut, (bytes, bytearray)):
        return bytes(mut)
    b = bytearray(data)
    for off, val in mut:
        if 0 <= off and off + len(val) <= len(b):
            b[off:off + len(val)] = val
    return bytes(b)


# ---------------------------------------------------------------------------------------------
# one case

TARGETS = {   # command -> files that may be mutated (file, kind)
    "exe-obj": [("c1.o", "obj"), ("cpp1.o", "obj"), ("start.o", "obj"), ("lib.o", "obj"), ("cpp2.o", "obj")],
    "exe-archive": [("libz.a", "ar"), ("c1.o", "obj")],
    "exe-thin": [("libt.a", "ar"), ("lib.o", "obj")],
    "exe-so": [("libs.so", "so")],
    "pie-so": [("libs.so", "so"), ("c1.o", "obj")],
    "shared": [("v.ver", "ver"), ("c1.o", "obj"), ("cpp1.o", "obj")],
    "shared-exp": [("e.lst", "exp"), ("cpp1.o", "obj")],
    "exe-script": [("s.lds", "lds"), ("c1.o", "obj")],
    "exe-implicit-script": [("in.lds", "lds")],
    "exe-rsp": [("a.rsp", "rsp"), ("b.rsp", "rsp")],
    "relocatable": [("c1.o", "obj"), ("cpp1.o", "obj")],
    "exe-nogc": [("c1.o", "obj"), ("cpp1.o", "obj"), ("lib.o", "obj")],
}


def gen_case(r, base, cmds, options):
    """-> dict(cmd, args, files{name: bytes}, cls)."""
    cname = r.choice(sorted(cmds))
    args = list(cmds[cname])
    if r.random() < 0.12:
        a2, cls = mutate_args(r, args, options)
        files = {}
        if cls == "args:recursive-response-file":
            files["self.rsp"] = ("start.o @self.rsp\n" if r.random() < 0.5 else "@self.rsp").encode()
        return dict(cmd=cname, args=a2, files=files, cls=cls)
    fname, kind = r.choice(TARGETS[cname])
    data = read(os.path.join(base, fname))
    nmut = r.choice([1, 1, 1, 2, 3])
    muts = []
    cur = data
    for _ in range(nmut):
        if kind in ("obj", "so"):
            m, cls = mutate_elf(r, cur)
        elif kind == "ar":
            m, cls = mutate_archive(r, cur)
        else:
            text = cur.decode("latin1")
            toks = TOKENS_LDS if kind in ("lds", "rsp") else TOKENS_VER
            t, cls = mutate_text(r, text, toks, {"lds": "linker-script", "ver": "version-script", "exp": "export-list",
                                                  "rsp": "response-file"}[kind])
            m = t.encode("latin1", "replace")
        cur = apply(cur, m)
        muts.append((m, ("so:" if kind == "so" else "") + cls))
    if r.random() < 0.1 and kind in ("obj", "so", "ar"):
        cut = r.randrange(len(cur))
        muts.append((("truncate", cut), "truncate"))
        cur = apply(cur, ("truncate", cut))
    extra = []
    if r.random() < 0.3:
        extra = [r.choice(["--gc-sections", "--no-gc-sections", "-s", "--strip-debug", "--build-id=sha1", "--eh-frame-hdr",
                           "-z now", "--hash-style=both", "--icf=all", "--no-string-merge", "-z pack-relative-relocs",
                           "--export-dynamic", "--as-needed", "-Bsymbolic", "--emit-relocs", "--relax"])]
        extra = extra[0].split(" ")
    return dict(cmd=cname, args=args + extra, files={fname: cur}, cls="+".join(sorted(set(c for _, c in muts))), orig=data,
                fname=fname, muts=muts)


def rebuild(case, muts):
    cur = case["orig"]
    for m, _ in muts:
        cur = apply(cur, m)
    return dict(case, muts=muts, files={case["fname"]: cur}, cls="+".join(sorted(set(c for _, c in muts))))


def materialise(ctx, base, case, tag):
    d = ctx.scratch.dir("w", tag)
    for n in os.listdir(base):
        if n.startswith("base-"):
            continue
        src = os.path.join(base, n)
        if n not in case["files"]:
            os.link(src, os.path.join(d, n))
    for n, b in case["files"].items():
        write(os.path.join(d, n), b)
    return d


HANG_CONFIRMED = set()
HANG_PRESEEDED = set()


def run_and_classify(d, args, fork=False, threads=1, kind="input", pinned=False):
    tools.fresh(os.path.join(d, "out.bin"))
    res = run_wild(d, list(args) + ["-o", "out.bin"], fork=fork, threads=threads)
    v, sig, detail = classify(res)
    if v == "timeout":
        hsig = "hang:" + kind
        if hsig in HANG_CONFIRMED or (hsig in HANG_PRESEEDED and not pinned):
            return ("inconclusive", None, "timeout of a kind already confirmed as a hang in this run (not re-run)"), res
        # two more runs (in parallel, separate output names); all three must exceed the watchdog
        outs = [None, None]
        if pinned:
            HANG_CONFIRMED.discard(hsig)

        def again(k):
            outs[k] = run_wild(d, list(args) + ["-o", f"out{k}.bin"], fork=fork, threads=threads)
        ts = [threading.Thread(target=again, args=(k,)) for k in range(2)]
        for t in ts:
            t.start()
        for t in ts:
            t.join()
        if all(o.timed_out for o in outs):
            HANG_CONFIRMED.add(hsig)
            return ("violation", hsig, "3 runs exceeded the 60 s watchdog (input < 1 MB)"), res
        return ("inconclusive", None, "single timeout"), res
    return (v, sig, detail), res


def minimise(ctx, base, case, sig, tag):
    """Drops arguments and mutations while the signature persists. Returns the reduced case."""
    best = dict(case)
    n = [0]
    hang = sig.startswith("hang:")

    def still(c):
        n[0] += 1
        d = materialise(ctx, base, c, f"{tag}-m{n[0]}")
        if hang:
            res = run_wild(d, list(c["args"]) + ["-o", "out.bin"], timeout=20, threads=1)
            ok = res.timed_out
        else:
            (v, s, _), _ = run_and_classify(d, c["args"])
            ok = s == sig
        shutil.rmtree(d, ignore_errors=True)
        return ok
    # 1. fewer mutations
    muts = list(best.get("muts") or [])
    i = 0
    while len(muts) > 1 and i < len(muts):
        trial = muts[:i] + muts[i + 1:]
        c = rebuild(best, trial)
        if still(c):
            muts = trial
            best = c
        else:
            i += 1
    # 2. fewer arguments
    args = list(best["args"])
    i = 0
    while i < len(args) and n[0] < (14 if hang else 40):
        trial = args[:i] + args[i + 1:]
        c = dict(best, args=trial)
        if trial and still(c):
            args = trial
            best = c
        else:
            i += 1
    return best


def hang_class(cls):
    """Coarse structure name for hang signatures (which record of the file was damaged)."""
    c = cls.split("+")[0]
    for pre in ("so:", "ar.member:"):
        if c.startswith(pre):
            c = c[len(pre):]
    if c.startswith("bytes:"):
        return {"RELA": "rela", "SYMTAB": "sym", "DYNSYM": "sym", "STRTAB": "strtab", "GROUP": "group"}.get(c[6:], "bytes")
    return c.split(".")[0].split(":")[0]


def pin(case, sig, detail):
    """Stores a reproducer under props/C22_pinned (only when VERIF_C22_PIN=1)."""
    name = re.sub(r"[^A-Za-z0-9_.-]+", "_", sig)[:80]
    d = os.path.join(PINDIR, name)
    if os.path.exists(d):
        return
    os.makedirs(d)
    for n, b in case["files"].items():
        write(os.path.join(d, n), b)
    json.dump({"args": case["args"], "expect": sig, "mutation": case["cls"], "base": case["cmd"],
               "kind": sig.split(":", 1)[1] if sig.startswith("hang:") else "input",
               "stderr_head": detail[:600]}, open(os.path.join(d, "args.json"), "w"), indent=1)


def report(ctx, base, case, sig, detail, cid, d):
    with _lock:
        SEEN[sig] = SEEN.get(sig, 0) + 1
        first = SEEN[sig] == 1
    ctx.note("crash:" + sig)
    ctx.note_set("crash-classes:" + sig, case["cls"])
    if not first:
        return
    small = minimise(ctx, base, case, sig, cid)
    md = materialise(ctx, base, small, f"{cid}-final")
    if sig.startswith("hang:"):
        det2 = detail
        if small.get("muts") and not small["cls"].startswith("text."):
            sig = sig + ":" + hang_class(small["cls"])
    else:
        (v, s2, det2), res = run_and_classify(md, small["args"])
        if s2 != sig:
            small, md, det2 = case, d, detail
    if os.environ.get("VERIF_C22_PIN") == "1":
        pin(small, sig, det2)
    head = "\n".join(det2.strip().split("\n")[:3])[:300]
    ctx.violation(sig, f"mutation {small['cls']} on base link `{small['cmd']}`: {head}", case=cid,
                  files={"dir": md, "args.json": json.dumps({"args": small["args"] + ["-o", "out.bin", "--no-fork"],
                                                            "env": ENV, "cwd": "dir"}), "stderr.txt": det2[:20000]},
                  info={"mutation": small["cls"], "base": small["cmd"], "args": small["args"]})


def one_case(ctx, base, cmds, options, i):
    r = rng("C22", ctx.seed, i)
    case = None
    for _ in range(5):
        try:
            case = gen_case(r, base, cmds, options)
            break
        except (ValueError, IndexError, struct.error):
            ctx.note("generator-retry")
    if case is None:
        ctx.inconclusive("generator could not produce a case")
        return
    d = materialise(ctx, base, case, i)
    fork = r.random() < 0.1
    threads = r.choice([2, 2, 2, 1, None])
    kind = case["cls"].split("+")[0].split(":")[0].replace("text.", "")
    kind = {"args": "arguments"}.get(kind, kind if kind in ("version-script", "linker-script", "export-list", "response-file")
                                     else "archive" if kind.startswith("ar.") else "shared-object" if kind == "so" else "object")
    (v, sig, detail), res = run_and_classify(d, case["args"], fork=fork, threads=threads, kind=kind)
    ctx.note("mutation:" + case["cls"].split(":")[0].split("+")[0])
    ctx.note("mode:" + ("fork" if fork else "no-fork"))
    if v == "inconclusive":
        ctx.inconclusive(detail)
    elif v == "violation":
        # canonical identity: single-threaded, no fork (several threads can panic at different sites)
        (v1, sig1, detail1), _ = (v, sig, detail), None
        if not sig.startswith("hang:"):
            (v1, sig1, detail1), _ = run_and_classify(d, case["args"], kind=kind)
        if v1 == "violation":
            sig, detail = sig1, detail1
        else:
            # keep the identity observed in the original mode (the re-run may have been disturbed)
            ctx.note("canonical-rerun-did-not-reproduce:" + ("fork" if fork else f"threads={threads}"))
        report(ctx, base, case, sig, detail, i, d)
    else:
        ctx.note("outcome:" + ("linked" if res.rc == 0 else "diagnosed"))
        ctx.held(fingerprint=f"{case['cmd']}|{case['cls']}|{res.rc}", nontrivial=True,
                 sample={"base": case["cmd"], "mutation": case["cls"], "rc": res.rc,
                         "stderr": res.errtext().strip().split("\n")[0][:120]} if i < 3 else None)
    if not (v == "violation" and SEEN.get(sig) == 1):
        shutil.rmtree(d, ignore_errors=True)


def replay_pinned(ctx, base, name):
    pd = os.path.join(PINDIR, name)
    try:
        meta = json.load(open(os.path.join(pd, "args.json")))
    except (OSError, ValueError):
        return
    files = {n: read(os.path.join(pd, n)) for n in os.listdir(pd) if n != "args.json"}
    case = dict(cmd=meta.get("base", "?"), args=meta["args"], files=files, cls=meta.get("mutation", "pinned"))
    d = materialise(ctx, base, case, "pin-" + name)
    (v, sig, detail), res = run_and_classify(d, case["args"], kind=meta.get("kind", "input"), pinned=True)
    ctx.note("pinned-replayed")
    if v == "violation":
        with _lock:
            SEEN[sig] = SEEN.get(sig, 0) + 1
        ctx.note("crash:" + sig)
        if sig.startswith("hang:") and str(meta.get("expect", "")).startswith(sig):
            sig = meta["expect"]
        if sig != meta.get("expect"):
            ctx.note(f"pinned-signature-changed:{meta.get('expect')}->{sig}")
        head = "\n".join(detail.strip().split("\n")[:3])[:300]
        ctx.violation(sig, f"pinned reproducer {name} ({case['cls']} on `{case['cmd']}`): {head}", case="pinned-" + name,
                      files={"dir": d, "args.json": json.dumps({"args": case["args"] + ["-o", "out.bin", "--no-fork"], "env": ENV}),
                             "stderr.txt": detail[:20000]}, info={"pinned": name})
    elif v == "inconclusive":
        ctx.inconclusive("single timeout")
    else:
        ctx.note("pinned-no-longer-crashes:" + meta.get("expect", name))
        ctx.held(fingerprint="pinned|" + name, nontrivial=True)


def parse_options():
    """(name, takes_value) from `wild --help`."""
    r = run([tools.wild(), "--help"], timeout=30)
    opts = []
    for line in r.outtext().split("\n") + r.errtext().split("\n"):
        m = re.match(r"^    (-{1,2}[A-Za-z][\w-]*)(=<VALUE>| <VALUE>)?", line)
        if m:
            opts.append((m.group(1), bool(m.group(2))))
        for alt in re.findall(r", (-{1,2}[A-Za-z][\w-]*)(=<VALUE>| <VALUE>)?", line[:80]) if line.startswith("    -") else []:
            opts.append((alt[0], bool(alt[1])))
    if len(opts) < 50:
        raise HarnessError("could not parse wild --help")
    return opts


def main(ctx):
    ctx.rule = ("12 valid base links (objects from C/C++/asm, archive, thin archive, shared object, -T and implicit linker "
                "scripts, version script, export list, nested response files, -r, -pie, -shared); each case mutates one input "
                "(1-3 structure-aware field patches, text mutations) or the argument list; a case counts when wild ended "
                "cleanly (0 or diagnosed); distinct = (base link, mutation class, exit status)")
    ctx.assumptions = ["status 0 or (non-zero and an `error` line) is the only acceptable ending", "RLIMIT_AS=8GiB per process",
                       "panic identity = first in-repo frame of RUST_BACKTRACE=1 (symbol names; the build has no line tables)"]
    tools.wild()
    base, cmds = build_corpus(ctx)
    options = parse_options()
    pins = sorted(os.listdir(PINDIR)) if os.path.isdir(PINDIR) else []
    n = int(os.environ.get("VERIF_C22_N") or ctx.pick(3000, 10000))
    jobs = [("p", p) for p in pins] + [("c", i) for i in range(n)]
    if ctx.replay is not None:
        c = str(ctx.replay.get("case"))
        jobs = [("p", c[7:])] if c.startswith("pinned-") else [("c", int(c))]

    def go(j):
        if j[0] == "p":
            replay_pinned(ctx, base, j[1])
        else:
            one_case(ctx, base, cmds, options, j[1])
    # Pinned hangs are re-observed in this very run (3 x 60 s); their kinds are pre-registered so that random
    # cases which time out in the same way are not each re-run three times (they are counted inconclusive).
    for j in jobs:
        if j[0] == "p" and j[1].startswith("hang_"):
            try:
                HANG_PRESEEDED.add("hang:" + json.load(open(os.path.join(PINDIR, j[1], "args.json")))["kind"])
            except (OSError, ValueError, KeyError):
                pass
    pmap(go, jobs)
    ctx.extra["distinct_crash_signatures"] = sorted(SEEN)
