"""C04 Output ELF files are structurally well-formed.

Oracle: vlib/mon/structure.py (rules written from the gABI and the statement) over every output;
`readelf -a` must print no warning/error; executables must load and run. Each case is also linked
by GNU ld (and lld) and a rule that a reference output breaks is not applied to wild for that case.
Workload: C / C++ / asm programs x output kinds (static, static-PIE, PIE, dynamic, shared,
relocatable) x -z max-page-size x -z norelro/now x section-start x generated linker scripts x TLS
x eh-frame-hdr / build-id / hash styles.
"""
import os

from vlib import elf, tools
from vlib.common import pmap, rng, run, write
from vlib.mon import structure

LEVEL = "exploration"

C_MAIN = r"""
#include <stdio.h>
#include <string.h>
__thread int tls_init = 41; __thread int tls_zero; __thread char tls_buf[100];
static const char *const ro_ptrs[] = {"one", "two", "three"};
int data_rw = 7; int bss_var[1000];
extern int helper(int); extern const char *helper_name(void);
__attribute__((constructor)) static void ctor(void) { data_rw++; }
__attribute__((weak)) extern int not_defined_anywhere;
int main(void) {
  tls_zero = tls_init + 1; tls_buf[5] = 1; bss_var[3] = 4;
  printf("%d %d %s %s %d %d\n", data_rw, tls_zero, ro_ptrs[1], helper_name(), helper(3), &not_defined_anywhere ? 1 : 0);
  return 0; }
"""
C_HELP = r"""
__thread long helper_tls = 9;
static int counter;
int helper(int x) { counter += x; return counter + (int)helper_tls; }
const char *helper_name(void) { return "helper"; }
"""
EXPECT = "8 42 two helper 12 0\n"

ASM_START = r"""
.globl _start
.text
_start:
    mov $tls_a@tpoff, %rax
    lea msg(%rip), %rsi
    mov $60, %eax
    xor %edi, %edi
    syscall
.section .rodata
msg: .ascii "hi\n"
.data
ptr: .quad msg
.section .tdata,"awT",@progbits
.globl tls_a
tls_a: .long 5
.section .tbss,"awT",@nobits
.globl tls_b
tls_b: .zero 64
.section .mysec,"aw",@progbits
.quad 1,2,3
.section .myro,"a",@progbits
.long 9
.bss
.zero 5000
"""


def gen_script(r):
    base = r.choice([0x400000, 0x10000, 0x200000, 0x7000000])
    # only forms LINKER_SCRIPT_SUPPORT.md documents as supported: `. = 0xHEX;` and `. = ALIGN(n);`
    # between output sections
    parts = [f"SECTIONS {{\n  . = {base + 0x1000:#x};\n"]
    parts.append("  .text : { *(.text .text.*) }\n")
    if r.random() < 0.5:
        parts.append(f"  . = ALIGN({r.choice([16, 4096, 0x10000])});\n")
    parts.append("  .rodata : { *(.rodata .rodata.*) }\n")
    if r.random() < 0.7:
        parts.append("  .myro : { *(.myro) }\n")
    if r.random() < 0.5:
        parts.append(f"  . = ALIGN({r.choice([4096, 0x10000, 0x200000])});\n")
    else:
        parts.append(f"  . = {base + r.choice([0x100000, 0x300000, 0x1000000]):#x};\n")
    parts.append("  .tdata : { *(.tdata .tdata.*) }\n  .tbss : { *(.tbss .tbss.*) }\n")
    parts.append("  .data : { *(.data .data.*) }\n")
    if r.random() < 0.7:
        parts.append("  .mysec : { *(.mysec) }\n")
    parts.append("  .bss : { *(.bss .bss.*) }\n}\n")
    return "".join(parts)


def tls_align_obj(ctx, r, pic):
    """An object with a small initialised TLS variable followed by an over-aligned zero-initialised one
    (alignment from 64 bytes to 64 KiB, i.e. also above the page size); a constructor checks the
    alignment the program actually observes."""
    al = r.choice([64, 512, 4096, 0x2000, 0x8000, 0x10000])
    src = (f"__thread int tls_al_init = 3;\n__thread char tls_al_big[{r.choice([8, 100, 5000])}] __attribute__((aligned({al})));\n"
           f"__attribute__((constructor)) static void tls_al_chk(void) {{\n"
           f"  if ((unsigned long)tls_al_big % {al} || tls_al_init != 3 || tls_al_big[1]) __builtin_trap();\n  tls_al_big[1] = 1;\n}}\n")
    return tools.compile_c(ctx, src, ["-O1", *pic], name=f"c04tls{al}" + pic[0]), al


def make_case(ctx, r, i):
    """Returns dict(kind, driver, args, run, expect)."""
    fam = r.choice(["c", "c", "c", "asm", "asm-script", "shared", "reloc"])
    opts = []
    ps = r.choice([None, None, 0x1000, 0x10000, 0x200000])
    if ps:
        opts += ["-z", f"max-page-size={ps:#x}"]
    if r.random() < 0.25:
        opts += ["-z", "norelro"]
    if r.random() < 0.3:
        opts += ["-z", "now"]
    if r.random() < 0.5:
        opts += [f"--hash-style={r.choice(['gnu', 'sysv', 'both'])}"]
    if r.random() < 0.4:
        opts += [f"--build-id={r.choice(['fast', 'sha1', 'md5', '0x1234abcd']) if False else r.choice(['sha1', 'md5', '0x1234abcd'])}"]
    if r.random() < 0.2:
        opts += ["--no-eh-frame-hdr"]
    elif r.random() < 0.5:
        opts += ["--eh-frame-hdr"]
    if r.random() < 0.3:
        opts += ["-z", "pack-relative-relocs"]
    gc = r.choice(["--gc-sections", "--no-gc-sections"])
    opts.append(gc)
    if fam == "c":
        kind = r.choice(["static", "static-pie", "pie", "dynamic-nopie"])
        pic = ["-fno-pie"] if kind in ("static", "dynamic-nopie") else ["-fPIE"]
        a = tools.compile_c(ctx, C_MAIN, ["-O1", *pic], name="c04m" + pic[0])
        b = tools.compile_c(ctx, C_HELP, ["-O1", *pic], name="c04h" + pic[0])
        kf = {"static": ["-static", "-no-pie"], "static-pie": ["-static-pie"], "pie": ["-pie"], "dynamic-nopie": ["-no-pie"]}[kind]
        o = [x for x in opts if "pack-relative" not in x or kind in ("pie", "static-pie")]
        if "-z" in o and "pack-relative-relocs" not in o:
            pass
        if kind not in ("pie", "static-pie"):
            o = _drop_pack(o)
        if r.random() < 0.2 and kind in ("static", "dynamic-nopie"):
            o += [f"-Ttext-segment={r.choice([0x600000, 0x10000000]):#x}"] if False else []
        extra = []
        if r.random() < 0.5:
            t, al = tls_align_obj(ctx, r, pic)
            extra = [t]
            ctx.note(f"tls-alignment:{al:#x}")
        return dict(kind=kind, driver="gcc", args=[a, b, *extra, *kf], wl=o, run=True, expect=EXPECT)
    if fam == "shared":
        a = tools.compile_c(ctx, C_HELP + "\nint extra_fn(void){ return helper(2);}\n__thread int big_tls[100];\n", ["-O1", "-fPIC"], name="c04so")
        extra = []
        if r.random() < 0.5:
            t, al = tls_align_obj(ctx, r, ["-fPIC"])
            extra = [t]
            ctx.note(f"tls-alignment:{al:#x}")
        return dict(kind="shared", driver="gcc", args=[a, *extra, "-shared"], wl=opts, run=False, expect=None)
    obj = tools.assemble(ctx, ASM_START, name="c04asm")
    if fam == "reloc":
        obj2 = tools.assemble(ctx, ".globl other\n.text\nother: ret\n.data\n.quad other\n", name="c04asm2")
        return dict(kind="relocatable", driver="direct", args=[obj, obj2, "-r"], wl=[], run=False, expect=None)
    if fam == "asm-script":
        d = ctx.scratch.dir("scripts")
        sp = write(os.path.join(d, f"s{i}.lds"), gen_script(r))
        o = _drop_pack([x for x in opts if not x.startswith("--hash-style") and not x.startswith("--build-id")])
        return dict(kind="script", driver="direct", args=[obj, "-T", sp], wl=o, run=True, expect=None)
    kind = r.choice(["static", "pie"])
    o = list(opts)
    if kind == "static":
        o = _drop_pack(o)
        if r.random() < 0.5:
            o += [f"--section-start=.mysec={r.choice([0x12340000, 0x20000000, 0x7fff0000]):#x}"]
        if r.random() < 0.3:
            o += [f"--section-start=.text={r.choice([0x5000000, 0x2000000]):#x}"]
        return dict(kind="asm-static", driver="direct", args=[obj], wl=o, run=True, expect=None)
    return dict(kind="asm-pie", driver="direct", args=[obj, "-pie", "--no-dynamic-linker"], wl=o, run=True, expect=None)


def _drop_pack(o):
    out = []
    skip = False
    for j, x in enumerate(o):
        if skip:
            skip = False
            continue
        if x == "-z" and j + 1 < len(o) and o[j + 1] == "pack-relative-relocs":
            skip = True
            continue
        out.append(x)
    return out


def do_link(ctx, case, linker, out):
    tools.fresh(out)
    if case["driver"] == "direct":
        return tools.link(linker, [*case["args"], *case["wl"], "-o", out], timeout=120)
    xl = []
    for w in case["wl"]:
        xl += ["-Xlinker", w]
    return tools.gcc_link(ctx, linker, [*case["args"], *xl], out, timeout=180)


def analyse(path, relocatable):
    e = elf.Elf(path)
    V = structure.check(e, relocatable=relocatable)
    rr = run(["readelf", "-a", "-W", path], timeout=60)
    for ln in rr.errtext().splitlines():
        if "arning" in ln or "rror" in ln:
            import re
            msg = re.sub(r"\d+", "N", re.sub(r"^readelf: ", "", ln.strip()))[:70]
            V.append(("readelf:" + msg.replace(" ", "_"), ln.strip()[:200]))
            break
    return V


def one(ctx, i):
    if ctx.replay is not None and str(ctx.replay.get("case")) != str(i):
        return
    r = rng("C04", ctx.seed, i)
    case = make_case(ctx, r, i)
    wd = ctx.scratch.dir("c", i)
    wout = os.path.join(wd, "wild.out")
    rw = do_link(ctx, case, "wild", wout)
    if rw.timed_out:
        ctx.inconclusive("watchdog fired")
        return
    if not rw.ok:
        ctx.inconclusive(f"wild rejected the case ({case['kind']}): {rw.errtext().strip()[:80]}")
        return
    relocatable = case["kind"] == "relocatable"
    try:
        Vw = analyse(wout, relocatable)
    except elf.ElfError as ex:
        Vw = [("unparseable", str(ex))]
    # calibration on reference outputs
    dropped = set()
    refs = 0
    for ref in ("ld", "lld"):
        rout = os.path.join(wd, ref + ".out")
        rr = do_link(ctx, case, ref, rout)
        if rr.ok:
            refs += 1
            try:
                for rule, _ in analyse(rout, relocatable):
                    dropped.add(rule)
            except elf.ElfError:
                pass
    if refs == 0:
        ctx.inconclusive("no reference linker accepted the case")
        return
    for rule in dropped:
        ctx.note("rule_dropped_by_calibration:" + rule)
    real = [(rule, msg) for rule, msg in Vw if rule not in dropped]
    cmd = f"kind={case['kind']} args={' '.join(case['args'])} {' '.join(case['wl'])}"
    inputs = {"inputs/" + os.path.basename(a): a for a in case["args"] if os.path.isabs(a) and os.path.exists(a)}
    for rule, msg in real[:3]:
        ctx.violation(f"structure:{rule}:kind={case['kind']}", f"{msg} ({cmd})", case=i, files={"wild.out": wout, "cmd.txt": cmd, **inputs})
    if real:
        return
    if case["run"]:
        rx = run([wout], timeout=30)
        if rx.timed_out:
            ctx.inconclusive("program watchdog fired")
            return
        if rx.rc != 0 or (case["expect"] is not None and rx.outtext() != case["expect"]):
            # does the reference-linked program run?
            refok = False
            for ref in ("ld", "lld"):
                rp = os.path.join(wd, ref + ".out")
                if os.path.exists(rp):
                    ry = run([rp], timeout=30)
                    if ry.rc == 0 and (case["expect"] is None or ry.outtext() == case["expect"]):
                        refok = True
            if refok:
                ctx.violation(f"loader:program-does-not-run:kind={case['kind']}", f"rc={rx.rc} out={rx.outtext()[:60]!r} ({cmd})",
                              case=i, files={"wild.out": wout, "cmd.txt": cmd, **inputs})
            else:
                ctx.inconclusive("program does not run with the reference linkers either")
            return
        ctx.note("programs_executed")
    e = elf.Elf(wout)
    ctx.note(f"kind:{case['kind']}")
    ctx.note("sections_checked", len(e.sections))
    ctx.note("segments_checked", len(e.segments))
    fp = f"{case['kind']}|{' '.join(case['wl'])}|{len(e.sections)}|{len(e.segments)}"
    ctx.held(fingerprint=fp, nontrivial=len(e.sections) > 3,
             sample={"kind": case["kind"], "options": case["wl"], "sections": len(e.sections), "segments": len(e.segments)} if i % 25 == 0 else None)


def main(ctx):
    ctx.rule = ("random (program family, output kind, option set, generated linker script); non-trivial = wild and at least one "
                "reference accepted the case and every rule not broken by a reference output was evaluated; distinct = "
                "(kind, options, section count, segment count)")
    ctx.assumptions = ["a rule that GNU ld's or lld's output of the same inputs breaks is not applied to that case (counted)",
                       "readelf -a must not warn; executables must run under the kernel and glibc"]
    tools.wild()
    n = ctx.pick(120, 2000)
    pmap(lambda i: one(ctx, i), range(n), workers=10)
