"""C06 Output bytes are deterministic.

Oracle: sha256 of the output equals the canonical run's (threads=1, no perturbation, fresh path).
Workload: a diverse set of links (many-object graphs with merged strings and start/stop sections,
static glibc program, PIE with thousands of dynamic relocations, shared object with many dynamic
symbols, C++ COMDAT/eh_frame, thin archives) each re-run under thread counts, files-per-group and
--wild-experiments partitioning, H2 schedule perturbation, fork/no-fork, mmap/no-mmap, and prior
output states (absent, shorter, longer, random bytes, executing, read-only) x write modes.
"""
import os
import shutil
import subprocess
import time

from vlib import manyobj, tools
from vlib.common import file_sha, pmap, rng, run, write
from vlib.mon import slottrace

LEVEL = "exploration"


C_PROG = r"""
#include <stdio.h>
#include <string.h>
#include <stdlib.h>
__thread int tls_a = 5; __thread int tls_b;
const char *names[] = {"alpha","beta","gamma","delta","alpha","omega"};
extern int helper(int); extern const char *hname(int);
__attribute__((weak)) int maybe(void);
int main(int argc, char **argv) {
  int s = 0; for (int i = 0; i < 6; i++) s += strlen(names[i]) + helper(i);
  tls_b = s; printf("%d %d %s %p\n", s, tls_a + tls_b, hname(2), (void*)(maybe ? 1 : 0));
  return 0; }
"""
C_HELPER = r"""
#include <string.h>
static const char *tbl[] = {"zero","one","two","three","alpha","beta"};
int helper(int i) { return (int)strlen(tbl[i % 6]) * 3; }
const char *hname(int i) { return tbl[i % 6]; }
"""
CXX_PROG = r"""
#include <cstdio>
#include <string>
#include <vector>
#include <stdexcept>
template <class T> inline T twice(T v) { return v + v; }
struct Base { virtual ~Base() {} virtual int f() { return 1; } };
struct D : Base { int f() override { return twice(21); } };
extern int other(int);
int main() { std::vector<std::string> v; v.push_back("x"); Base *b = new D;
  try { if (other(b->f()) > 1000) throw std::runtime_error("big"); } catch (std::exception &e) { std::puts(e.what()); }
  std::printf("%d %zu\n", b->f(), v.size()); delete b; return 0; }
"""
CXX_OTHER = r"""
#include <string>
template <class T> inline T twice(T v) { return v + v; }
int other(int x) { std::string s(3, 'a'); return twice(x) + (int)s.size() + 2000; }
"""


def build_links(ctx):
    """Returns list of (name, driver, args) where driver is 'direct' (tools.link) or 'gcc'."""
    links = []
    r = rng("C06", ctx.seed, "gen")
    n = ctx.pick(120, 1000)
    objs = manyobj.build(ctx, r, n, "many", fns_per_obj=3, fanout=3)
    links.append(("manyobj", "direct", [*objs, "--gc-sections"]))
    links.append(("manyobj-pie-nogc-buildid", "direct", [*objs, "-pie", "--no-dynamic-linker", "--no-gc-sections", "--build-id=fast", "-z", "pack-relative-relocs"]))
    # shared object with many dynamic symbols + version script
    nsyms = ctx.pick(600, 4000)
    src = "".join(f"int exp_{i}(void) {{ return {i}; }}\n" for i in range(nsyms)) + "int *ptrs[] = {" + ",".join("(int*)exp_%d" % i for i in range(0, nsyms, 7)) + "};\n"
    so = tools.compile_c(ctx, src, ["-fPIC", "-O0"], name="manysyms")
    links.append(("shared-manysyms", "direct", [so, "-shared", "--hash-style=both", "--build-id=sha1", "-soname=libm.so"]))
    # glibc programs through the gcc driver
    a = tools.compile_c(ctx, C_PROG, ["-O1", "-fPIE"], name="cprog")
    b = tools.compile_c(ctx, C_HELPER, ["-O1", "-fPIE"], name="chelp")
    links.append(("glibc-static-pie", "gcc", [a, b, "-static-pie"]))
    links.append(("glibc-dynamic-pie", "gcc", [a, b, "-pie", "-Wl,--build-id=fast", "-Wl,--hash-style=gnu"]))
    if not ctx.quick:
        links.append(("glibc-static", "gcc", [tools.compile_c(ctx, C_PROG, ["-O1", "-fno-pie"], name="cprog-np"),
                                              tools.compile_c(ctx, C_HELPER, ["-O1", "-fno-pie"], name="chelp-np"), "-static", "-no-pie"]))
    ca = tools.compile_c(ctx, CXX_PROG, ["-O1", "-fPIE"], lang="c++", name="cxxprog")
    cb = tools.compile_c(ctx, CXX_OTHER, ["-O1", "-fPIE"], lang="c++", name="cxxother")
    links.append(("cxx-dynamic", "g++", [ca, cb, "-pie"]))
    if not ctx.quick:
        links.append(("cxx-static", "g++", [ca, cb, "-static-pie"]))
    # symbols that become dynamic only because shared libraries on the command line reference them
    # (their order in .dynsym/.gnu.hash is decided late and from several threads)
    nglob = ctx.pick(1200, 4000)
    d2 = ctx.scratch.dir("dynrefs")
    defs = ["".join(f".globl dr{i}\n.type dr{i},@function\ndr{i}: ret\n" for i in range(k, nglob, 2)) for k in (0, 1)]
    dobjs = [tools.assemble(ctx, ".text\n" + t, name=f"dynref-def{k}") for k, t in enumerate(defs)]
    sos = []
    for k in range(4):
        refs = "".join(f"    .quad dr{i}\n" for i in range(k, nglob, 4))
        ro = tools.assemble(ctx, f".data\n.globl tab{k}\ntab{k}:\n" + refs, name=f"dynref-so{k}")
        so = os.path.join(d2, f"libref{k}.so")
        rl = tools.link("ld", ["-shared", ro, "-o", so, f"-soname=libref{k}.so"])
        if rl.ok:
            sos.append(so)
    start = tools.assemble(ctx, ".globl _start\n.text\n_start: mov $60,%eax\n xor %edi,%edi\n syscall\n", name="dynref-start")
    if sos:
        links.append(("exe-syms-exported-for-dsos", "direct", [start, *dobjs, *sos, "-pie", "--dynamic-linker=/lib64/ld-linux-x86-64.so.2",
                                                               "--hash-style=gnu", "--no-gc-sections"]))
        links.append(("exe-syms-exported-for-dsos-sysv", "direct", [start, *dobjs, *sos, "-pie", "--dynamic-linker=/lib64/ld-linux-x86-64.so.2",
                                                                    "--hash-style=sysv", "--no-gc-sections"]))
    # thin + regular archives of the many objects
    d = ctx.scratch.dir("ar")
    half = len(objs) // 2
    reg = tools.make_archive(os.path.join(d, "libreg.a"), objs[1:half])
    thin = tools.make_archive(os.path.join(d, "libthin.a"), objs[half:], thin=True)
    links.append(("archives", "direct", [objs[0], reg, thin, "--gc-sections"]))
    return links


def do_link(ctx, link, out, wargs, env):
    name, driver, args = link
    if driver == "direct":
        return tools.link("wild", [*args, *wargs, "-o", out], extra_env=env, timeout=300)
    drv = tools.GXX if driver == "g++" else tools.GCC
    xl = []
    for w in wargs:
        xl += ["-Xlinker", w]
    return tools.gcc_link(ctx, "wild", [*args, *xl], out, extra_env=env, driver=drv, timeout=300)


def configs(ctx, r, n):
    out = []
    for i in range(n):
        c = {"threads": r.choice([1, 2, 3, 4, 8, 16]), "fpg": r.choice([0, 0, 1, 2, 7]),
             "exp": r.choice([None, None, "1,256", "24,512", "3,4096,1,1", "_,_,4,2", "_,_,1,64", "2,140000,8,3"]),
             "sched": r.choice([None, r.randrange(1, 10**6)]), "fork": r.random() < 0.7, "mmap": r.random() < 0.7,
             "prior": r.choice(["absent", "absent", "shorter", "longer", "random", "executing", "readonly"]),
             "mode": r.choice(["default", "default", "--update-in-place", "--no-update-in-place"])}
        out.append(c)
    return out


def prepare_prior(out, prior, r, canon_size):
    helper = None
    if prior == "absent":
        return None
    if prior == "shorter":
        write(out, os.urandom(max(16, canon_size // 3)))
    elif prior == "longer":
        write(out, b"\xff" * (canon_size * 2 + 4096))
    elif prior == "random":
        write(out, r.randbytes(canon_size))
    elif prior == "readonly":
        write(out, b"\xaa" * canon_size)
        os.chmod(out, 0o444)
        return None
    elif prior == "executing":
        shutil.copy("/bin/sleep", out)
        os.chmod(out, 0o755)
        for _ in range(200):
            try:
                helper = subprocess.Popen([out, "60"], stdout=subprocess.DEVNULL, stderr=subprocess.DEVNULL)
                break
            except OSError as ex:
                if ex.errno != 26:
                    raise
                time.sleep(0.01)
        return helper
    os.chmod(out, 0o755)
    return None


def one(ctx, li, link, canon, canon_size, ci, c):
    name = link[0]
    cid = f"{name}.{ci}"
    if ctx.replay is not None and ctx.replay.get("case") != cid:
        return
    r = rng("C06", ctx.seed, "case", cid)
    wd = ctx.scratch.dir("c", cid)
    out = os.path.join(wd, "out")
    helper = prepare_prior(out, c["prior"], r, canon_size)
    wargs = [f"--threads={c['threads']}"]
    env = {}
    if c["fpg"]:
        env["WILD_FILES_PER_GROUP"] = str(c["fpg"])
    if c["exp"]:
        wargs.append(f"--wild-experiments={c['exp']}")
    evlog = None
    if c["sched"]:
        env["WILD_VERIF_SCHED"] = f"{c['sched']}:40"
        evlog = os.path.join(wd, "ev.log")
        env["WILD_VERIF_EVLOG"] = evlog
    if not c["fork"]:
        wargs.append("--no-fork")
    if not c["mmap"]:
        wargs.append("--no-mmap-output-file")
    if c["mode"] != "default":
        wargs.append(c["mode"])
    try:
        res = do_link(ctx, link, out, wargs, env)
    finally:
        if helper:
            helper.kill()
            helper.wait()
    if res.timed_out:
        ctx.inconclusive("watchdog fired")
        return
    if res.rc != 0:
        expected_fail = (c["prior"] == "executing" and c["mode"] == "--update-in-place") or \
                        (c["prior"] == "readonly" and c["mode"] in ("--update-in-place",))
        if expected_fail or c["prior"] in ("readonly", "executing"):
            ctx.inconclusive(f"link refused to overwrite a {c['prior']} output in mode {c['mode']} (no output to compare): {res.errtext().strip()[-160:]}")
        else:
            ctx.inconclusive(f"link failed rc={res.rc}: {res.errtext()[:120]}")
        return
    if evlog and os.path.exists(evlog):
        evs = slottrace.parse(evlog)
        import hashlib
        ctx.note_set("schedule_fingerprints", hashlib.sha256(" ".join(f"{k}{a}" for _, _, k, a, _, _ in evs[:2000]).encode()).hexdigest()[:12])
    h = file_sha(out)
    ctx.note(f"prior:{c['prior']}")
    if h != canon:
        what = diff_where(ctx, link, canon, out)
        varying = []
        ctx.violation(f"nondeterministic-output:{name}:{what}",
                      f"link '{name}' produced different bytes under {c}: differs in {what}", case=cid,
                      files={"config.txt": str(c) + "\n" + " ".join(wargs) + "\n" + str(env), "out.differs": out})
        return
    fp = f"{name}|{c['threads']}|{c['fpg']}|{c['exp']}|{bool(c['sched'])}|{c['fork']}|{c['mmap']}|{c['prior']}|{c['mode']}"
    ctx.held(fingerprint=fp + (f"|{c['sched']}" if c["sched"] else ""), nontrivial=True,
             sample={"link": name, "config": {k: v for k, v in c.items()}, "sha": h[:16]} if ci == 1 else None)


_canon_files = {}


def diff_where(ctx, link, canon_sha, out):
    """Names the output sections in which the bytes differ (for a stable signature)."""
    try:
        from vlib import elf
        a = open(_canon_files[link[0]], "rb").read()
        b = open(out, "rb").read()
        if len(a) != len(b):
            return "file-size"
        e = elf.Elf(a)
        names = set()
        diffs = [i for i in range(0, len(a), 1) if a[i] != b[i]][:2000] if len(a) < (64 << 20) else []
        for off in diffs:
            hit = None
            for s in e.sections:
                if s.type != elf.SHT_NOBITS and s.offset <= off < s.offset + s.size:
                    hit = s.name
                    break
            if hit is None:
                if e.e_shoff <= off < e.e_shoff + 64 * len(e.sections):
                    idx = (off - e.e_shoff) // 64
                    field = (off - e.e_shoff) % 64
                    hit = f"shdr[{e.sections[idx].name}]+{field}"
                elif off < 64:
                    hit = "ehdr"
                elif e.e_phoff <= off < e.e_phoff + 56 * e.e_phnum:
                    hit = "phdr"
                else:
                    hit = "padding"
            names.add(hit)
        return ",".join(sorted(names))[:150] or "unknown"
    except Exception as ex:  # noqa
        return "unlocated"


def main(ctx):
    ctx.rule = ("each link is re-run under random configurations (threads, files-per-group, experiments, perturbation seed, "
                "fork, mmap, prior output state, write mode) and its sha256 compared with the canonical run; non-trivial = the "
                "link succeeded so bytes were compared; distinct = (link, configuration)")
    ctx.assumptions = ["--build-id=uuid is random by definition and not used", "links that legitimately refuse to overwrite a "
                       "read-only/busy output produce no bytes to compare and are inconclusive"]
    tools.wild()
    links = build_links(ctx)
    ncfg = ctx.pick(14, 80)
    jobs = []
    for li, link in enumerate(links):
        d = ctx.scratch.dir("canon", li)
        out = os.path.join(d, "out")
        res = do_link(ctx, link, out, ["--threads=1", "--no-fork"], {})
        if not res.ok:
            ctx.inconclusive(f"canonical link of {link[0]} failed: {res.errtext()[:150]}")
            continue
        out2 = os.path.join(d, "out2")
        res2 = do_link(ctx, link, out2, ["--threads=1", "--no-fork"], {})
        canon = file_sha(out)
        _canon_files[link[0]] = out
        if not res2.ok or file_sha(out2) != canon:
            ctx.violation(f"nondeterministic-output:{link[0]}:same-config-twice", "two identical single-thread runs differ", case=f"{link[0]}.canon")
            continue
        r = rng("C06", ctx.seed, "cfg", li)
        for ci, c in enumerate(configs(ctx, r, ncfg)):
            jobs.append((li, link, canon, os.path.getsize(out), ci, c))
    pmap(lambda j: one(ctx, *j), jobs, workers=8)
    ctx.extra["links"] = [l[0] for l in links]
