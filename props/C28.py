"""C28 Optional transformations don't change program behaviour.

Oracle: a proggen program prints a transcript that only contains outcomes the language/ABI define;
every wild link of the same objects (option matrix: relax, string merging, packed relative relocs,
hash style, build-id, bind-now, gc, output kind) must run with exit 0 and print exactly the
transcript of GNU ld's link of the same kind (calibration: ld.lld must agree with GNU ld, otherwise
the case is inconclusive). A difference is attributed by delta search to the single option that
causes it (or to "any" when wild's baseline link of that kind already differs).
"""
import itertools
import os
import threading

from vlib import tools
from vlib import proggen as pg
from vlib import progcheck as pc
from vlib.common import pmap, rng, write

LEVEL = "exploration"

FACTORS = [
    ("relax", [("--relax", ["-Wl,--relax"]), ("--no-relax", ["-Wl,--no-relax"])]),
    ("merge", [("string-merge", []), ("--no-string-merge", ["-Wl,--no-string-merge"])]),
    ("relr", [("nopack-relative-relocs", ["-Wl,-z,nopack-relative-relocs"]),
              ("-z pack-relative-relocs", ["-Wl,-z,pack-relative-relocs"])]),
    ("hash", [("--hash-style=gnu", ["-Wl,--hash-style=gnu"]), ("--hash-style=sysv", ["-Wl,--hash-style=sysv"]),
              ("--hash-style=both", ["-Wl,--hash-style=both"])]),
    ("buildid", [("--build-id=none", ["-Wl,--build-id=none"]), ("--build-id=fast", ["-Wl,--build-id=fast"]),
                 ("--build-id=sha1", ["-Wl,--build-id=sha1"])]),
    ("bind", [("-z lazy", ["-Wl,-z,lazy"]), ("-z now", ["-Wl,-z,now"])]),
    ("gc", [("--no-gc-sections", None), ("--gc-sections", None)]),
    ("liblinker", [("lib-by-wild", None), ("lib-by-ld", None)]),
]
FNAMES = [f for f, _ in FACTORS]
LEVELS = dict(FACTORS)
BASE = {f: 0 for f in FNAMES}
_once = pc.Once()


def cfg_label(cfg, kind):
    return kind + "|" + ",".join(LEVELS[f][cfg[f]][0] for f in FNAMES if cfg[f] != 0 and (f != "liblinker" or kind.startswith("shared")))


def cfg_args(cfg):
    a = []
    for f in FNAMES:
        x = LEVELS[f][cfg[f]][1]
        if x:
            a += x
    return a


class Prog:
    """One generated program with its objects and per-kind reference transcripts."""

    def __init__(self, ctx, tag, prog, cm):
        self.ctx, self.tag, self.prog, self.cm = ctx, tag, prog, cm
        self.built = {}
        self.ref = {}       # kind -> transcript or None (reference unusable)
        self.lld = {}
        self._n = itertools.count(1)
        self._lock = threading.Lock()

    def kindname(self, kind):
        return kind if kind != "shared" else ("shared-pie" if self.cm != "nopic" else "shared-nopie")

    def objs(self, kind):
        sh = kind == "shared"
        if sh not in self.built:
            self.built[sh] = self.prog.build(self.ctx, self.cm, shared=sh)
        return self.built[sh]

    def link(self, linker, kind, cfg, what, ref_with_opts=False):
        wd = self.ctx.scratch.dir("p", self.tag, f"{what}-{next(self._n)}")
        liblinker = None
        if kind == "shared" and linker == "wild" and cfg["liblinker"] == 1:
            liblinker = "ld"
        lib_args = None
        if liblinker == "ld":
            # GNU ld has no --no-string-merge; the library is not under test in this configuration
            lib_args = []
        if ref_with_opts:
            # the reference linker under the same options (minus the one GNU ld does not have)
            a = [x for x in cfg_args(cfg) if x != "-Wl,--no-string-merge"]
            return pg.link_and_run(self.ctx, linker, self.prog, self.objs(kind), kind, extra_link_args=a, workdir=wd,
                                   gc=bool(cfg["gc"]), exe_pie=(self.cm != "nopic"))
        return pg.link_and_run(self.ctx, linker, self.prog, self.objs(kind), kind, extra_link_args=cfg_args(cfg) if linker == "wild" else [],
                               workdir=wd, gc=bool(cfg["gc"]) if linker == "wild" else False, lib_linker=liblinker,
                               lib_link_args=lib_args, exe_pie=(self.cm != "nopic"))

    def reference(self, kind):
        if kind not in self.ref:
            lr = self.link("ld", kind, BASE, "ld-" + kind)
            self.ref[kind] = lr.transcript if (lr.ok and len(lr.transcript.splitlines()) >= 5) else None
        return self.ref[kind]

    def references_agree(self, kind):
        with self._lock:
            if kind not in self.lld:
                lr = self.link("lld", kind, BASE, "lld-" + kind)
                self.lld[kind] = lr.ok and lr.transcript == self.ref[kind]
            return self.lld[kind]


def report(ctx, P, kind, cfg, lr, cls, detail, option, case, all_kinds=False):
    kn = P.kindname(kind)
    sig = f"{cls}:{detail}:option={option}:kind={'all' if all_kinds else kn}"
    if detail.startswith("cause="):
        # a structurally diagnosed cause: whether it crashes or prints wrong values, and which
        # option shifted the layout, is incidental
        sig = f"{detail}:kind={kn}"
    ctx.note("violations-by-signature:" + sig)
    if not _once.first(sig):
        return
    ref = P.ref[kind]
    d = pg.diff_transcripts(ref, lr.transcript or "")[:8] if lr.run is not None else []
    files = {"src": None, "ld.transcript": ref, "wild.transcript": lr.transcript or "",
             "commands.txt": pg.command_text(ctx, "wild", P.prog, lr) + f"\n# code model {P.cm}; reference: same command with ld.bfd, "
                             "default options, --no-gc-sections\n",
             "wild.stderr": (lr.link.errtext() if lr.link else "") + (lr.lib_link.errtext() if lr.lib_link else "") +
                            (("\n--- run stderr ---\n" + lr.run.errtext()) if lr.run else "")}
    del files["src"]
    for name, text in P.prog.sources(P.cm, kind == "shared").items():
        files["src/" + name] = text
    for b in P.objs(kind):
        files["obj/" + os.path.basename(b.obj)] = b.obj
    if lr.out and os.path.exists(lr.out):
        files["prog.wild"] = lr.out
    desc = (f"wild link [{cfg_label(cfg, kn)}] of a proggen program ({P.cm} objects) behaves differently from GNU ld's link: "
            f"{cls} {detail}; responsible option: {option}; first differences (probe, id, ld, wild): {d}")
    ctx.violation(sig, desc, case=case, files=files, info={"config": cfg_label(cfg, kn), "code_model": P.cm,
                                                           "program": P.prog.desc})


def judge(ctx, P, kind, cfg, base_out, case):
    """Links one wild configuration and records exactly one outcome."""
    ref = P.reference(kind)
    kn = P.kindname(kind)
    if ref is None:
        ctx.inconclusive("reference linker could not link/run this kind")
        return
    lr = P.link("wild", kind, cfg, "w-" + kind)
    cls, detail = pc.outcome(lr, ref, kind)
    for f in FNAMES:
        if cfg[f]:
            ctx.note("option:" + LEVELS[f][cfg[f]][0])
    ctx.note("kind:" + kn)
    if cls == "same":
        nlines = len(ref.splitlines())
        ctx.note_max("max-transcript-lines", nlines)
        ctx.held(fingerprint=f"{P.tag}|{cfg_label(cfg, kn)}", nontrivial=nlines >= 20,
                 sample={"program": P.prog.desc, "code_model": P.cm, "config": cfg_label(cfg, kn), "transcript_lines": nlines}
                 if P.tag.endswith("0") and cfg is not BASE else None)
        return lr, cls, detail
    if cls in ("link-timeout", "run-timeout"):
        ctx.inconclusive("watchdog fired")
        return lr, cls, detail
    if not P.references_agree(kind):
        ctx.inconclusive("GNU ld and ld.lld disagree on this program")
        return lr, cls, detail
    # attribute
    if base_out is not None and cfg is not BASE and (base_out[1:] == (cls, detail) or
                                                     (detail.startswith("cause=") and base_out[2] == detail)):
        ctx.inconclusive("masked: wild's baseline link of this kind already fails the same way")
        return lr, cls, detail
    option = "any"
    if cfg is not BASE and not detail.startswith("cause="):
        diff = [f for f in FNAMES if cfg[f] != 0 and (f != "liblinker" or kind == "shared")]
        option = "combination"
        if len(diff) == 1:
            option = LEVELS[diff[0]][cfg[diff[0]]][0]
        else:
            for f in diff:
                c2 = dict(cfg)
                c2[f] = 0
                lr2 = P.link("wild", kind, c2, "delta-" + kind)
                if pc.outcome(lr2, ref, kind)[0] == "same":
                    option = LEVELS[f][cfg[f]][0]
                    break
    if cfg is not BASE:
        # calibration: GNU ld under the same options must still print the expected transcript
        lrc = P.link("ld", kind, cfg, "ld-opts-" + kind, ref_with_opts=True)
        if pc.outcome(lrc, ref, kind)[0] != "same":
            ctx.note("reference-changes-behaviour-under:" + cfg_label(cfg, kn))
            ctx.inconclusive("GNU ld itself does not print the expected transcript under these options")
            return lr, cls, detail
    if cfg is BASE:
        # baseline failures are reported after all kinds of the program are known (kind=all when
        # three or more kinds fail the same way)
        P.pending[kind] = (cfg, lr, cls, detail, case)
    else:
        report(ctx, P, kind, cfg, lr, cls, detail, option, case)
    return lr, cls, detail


def flush_base(ctx, P, kinds):
    groups = {}
    for kind in kinds:
        if kind in P.pending:
            groups.setdefault(P.pending[kind][2:4], []).append(kind)
    for (cls, detail), ks in groups.items():
        if len(ks) >= 3 or (len(ks) == len(kinds) and len(kinds) >= 3):
            cfg, lr, _c, _d, case = P.pending[ks[0]]
            report(ctx, P, ks[0], cfg, lr, cls, detail, "any", case, all_kinds=True)
        else:
            for k in ks:
                cfg, lr, _c, _d, case = P.pending[k]
                report(ctx, P, k, cfg, lr, cls, detail, "any", case)


def prepare(ctx, i):
    """Generates program i, builds it and returns its configuration jobs (baselines first)."""
    r = rng("C28", ctx.seed, i)
    prog = pg.gen_program(r)
    cm = r.choice(pg.CODE_MODELS)
    P = Prog(ctx, f"s{ctx.seed}i{i}", prog, cm)
    kinds = prog.kinds(cm)
    ncfg = ctx.pick(9, 30)
    for k in sorted(prog.probe_kinds):
        ctx.note_set("probe-kinds", k)
    for f in sorted(prog.features):
        ctx.note("feature:" + f)
    ctx.note("code-model:" + cm)
    for kind in kinds:
        P.objs(kind)
    # level sequences: every level of every factor appears, combinations vary with the rng
    seqs = {}
    for f in FNAMES:
        n = len(LEVELS[f])
        s = [j % n for j in range(ncfg)]
        r.shuffle(s)
        seqs[f] = s
    ks = [kinds[j % len(kinds)] for j in range(ncfg)]
    r.shuffle(ks)
    cfgs = []
    for j in range(ncfg):
        cfg = {f: seqs[f][j] for f in FNAMES}
        if ks[j] != "shared":
            cfg["liblinker"] = 0
        if all(v == 0 for v in cfg.values()):
            cfg["relax"] = 1
        cfgs.append((ks[j], cfg, f"{i}.{j}"))
    P.base_out = {}
    P.pending = {}
    return P, kinds, cfgs


def do_base(ctx, P, kind, i):
    P.base_out[kind] = judge(ctx, P, kind, BASE, None, f"{i}.base-{kind}")


# ---- pinned minimal reproducers of defects found on the unchanged tree ---------------------------

PINNED = {
    # -fno-plt global-dynamic TLS access (call *__tls_get_addr@GOTPCREL) in a static link
    "tls-gd-noplt-static": dict(
        units=[("c", ["-O1", "-fpie", "-fno-plt"], '#include <stdio.h>\nextern __thread int tv __attribute__((tls_model("global-dynamic")));\n'
                'int main() { printf("tls_gd m:tv = %d\\n", tv); return 0; }\n'),
               ("c", ["-O1", "-fpie"], "__thread int tv = 5;\n")], kinds=["static", "static-pie", "pie", "dyn"]),
    # over-aligned .tbss after a less aligned .tdata: PT_TLS p_vaddr not congruent to p_align
    "tls-overaligned-static": dict(
        units=[("c", ["-O1", "-fpie"], '#include <stdio.h>\n__thread int a = 7;\n__thread long z __attribute__((aligned(256)));\n'
                'int main() { printf("tls_def m:a = %d\\ntls_def m:z = %ld\\nalign m:z = %d\\n", a, z, (int)((unsigned long)&z % 256)); return 0; }\n')],
        kinds=["static", "static-pie", "pie", "dyn"]),
    # TLSDESC local-dynamic: _TLS_MODULE_BASE_ + x@dtpoff in an executable
    "tlsdesc-local-dynamic": dict(
        units=[("c", ["-O2", "-fpie", "-mtls-dialect=gnu2"],
                '#include <stdio.h>\nextern __thread short x0 __attribute__((tls_model("local-dynamic"), visibility("hidden")));\n'
                '__thread char a __attribute__((tls_model("local-dynamic"), visibility("hidden"))) = 11;\n'
                '__attribute__((noinline)) int get(void) { return a + x0; }\nextern int other(void);\n'
                'int main() { printf("tls_ld m:a+x0 = %d\\ntls_def m:other = %d\\n", get(), other()); return 0; }\n'),
               ("c", ["-O2", "-fpie"], '__thread int pad = 5;\n__thread short x0 __attribute__((visibility("hidden"))) = 22;\nint other(void) { return pad + x0; }\n')],
        kinds=["static", "static-pie", "pie", "dyn"]),
    # address of a shared library's function taken in a non-PIC executable (canonical PLT)
    "fnptr-canonical-plt": dict(
        units=[("c", ["-O1", "-fno-pic", "-fno-pie"], '#include <stdio.h>\ntypedef int (*fp)(int);\nextern int lf(int);\nextern fp lib_addr(void);\n'
                'fp tab[] = { lf };\nint main() { fp p = lf; printf("fnptr_code m:&lf = %d\\nfnptr m:tab = %d\\n", p == lib_addr(), tab[0] == lib_addr()); return 0; }\n')],
        lib=[("c", ["-O1", "-fPIC"], "int lf(int x) { return x + 1; }\ntypedef int (*fp)(int);\nfp lib_addr(void) { return lf; }\n")],
        kinds=["shared-nopie"]),
}
def _bigstr_unit(tag, n, width):
    """A unit with n distinct string literals of exactly `width` bytes (with the NUL), so that every
    multiple of `width` in the merged-string input is the start of a referenced string."""
    def lit(i):
        head = f"{tag}{i:05d}:"
        return head + "".join(chr(97 + (i * 7 + k) % 26) for k in range(width - 1 - len(head)))
    rows = ",\n".join(f'  "{lit(i)}"' for i in range(n))
    return (f'#include <string.h>\nstatic const char *const T_{tag}[{n}] = {{\n{rows}\n}};\nstatic const char hfmt_{tag}[] = "{tag}%05d:";\n'
            f'int check_{tag}(unsigned long *sum) {{\n  int bad = 0; char want[{width}];\n  for (int i = 0; i < {n}; i++) {{\n'
            f'    int h = __builtin_sprintf(want, hfmt_{tag}, i);\n'
            f'    for (int k = 0; k < {width} - 1 - h; k++) want[h + k] = (char)(97 + (i * 7 + k) % 26);\n    want[{width} - 1] = 0;\n'
            f'    if (strcmp(T_{tag}[i], want)) bad++;\n    *sum = *sum * 31 + (unsigned char)T_{tag}[i][{width} - 2];\n  }}\n  return bad;\n}}\n')


PINNED["big-string-tables"] = dict(
    # the table units come first and main has no string literal of its own (its format is a char array), so that
    # the first table's strings start at offset 0 of the merged-string input and the work-slice boundaries
    # (multiples of 140032 = 256 * 547) fall exactly on string starts
    # strings shorter than 32 bytes go to .rodata.str1.1 (the alignment-1 sections are the ones wild splits into work
    # slices); 16- and 8-byte strings divide the 256-byte block size, so slice boundaries are string starts
    units=[("c", ["-O1", "-fpie"], _bigstr_unit("a", 9500, 16)),
           ("c", ["-O1", "-fpie"], _bigstr_unit("b", 20000, 8)),
           ("c", ["-O1", "-fpie"], _bigstr_unit("c", 1500, 128)),
           ("c", ["-O1", "-fpie"], '#include <stdio.h>\nextern int check_a(unsigned long *), check_b(unsigned long *), check_c(unsigned long *);\n'
            'static const char fmt[] = "str m:bad = %d\\nstr m:sum = %lu\\n";\n'
            'int main() { unsigned long s = 0; int bad = check_a(&s) + check_b(&s) + check_c(&s);\n'
            '  printf(fmt, bad, s); return 0; }\n')],
    kinds=["static", "pie", "dyn"])

PIN_KARGS = {"static": ["-static", "-no-pie"], "static-pie": ["-static-pie"], "pie": ["-pie"], "dyn": ["-no-pie"], "shared-nopie": ["-no-pie"]}


def pinned_link(ctx, name, spec, objs, libobjs, kind, lk):
    from vlib.common import run
    wd = ctx.scratch.dir("pinned", name, kind, lk)
    inputs = list(objs)
    env = {}
    lr = pg.LinkRun()
    if libobjs:
        lib = tools.fresh(os.path.join(wd, "libpin.so"))
        lr.lib_link = tools.gcc_link(ctx, lk, ["-shared", *libobjs], lib)
        if not lr.lib_link.ok:
            return lr
        inputs.append(lib)
        env["LD_LIBRARY_PATH"] = wd
    out = tools.fresh(os.path.join(wd, "prog"))
    lr.out = out
    lr.cmd = [*PIN_KARGS[kind], "-Wl,--no-gc-sections", *inputs]
    lr.link = tools.gcc_link(ctx, lk, lr.cmd, out)
    if lr.link.ok:
        lr.run = run([out], timeout=60, extra_env=env, cwd=wd)
    return lr


def pinned(ctx, name):
    spec = PINNED[name]
    objs = [tools.compile_c(ctx, src, fl, lang=lang) for lang, fl, src in spec["units"]]
    libobjs = [tools.compile_c(ctx, src, fl, lang=lang) for lang, fl, src in spec.get("lib", [])]
    kinds = spec["kinds"]
    bad = {}
    for kind in kinds:
        ld = pinned_link(ctx, name, spec, objs, libobjs, kind, "ld")
        lld = pinned_link(ctx, name, spec, objs, libobjs, kind, "lld")
        if not ld.ok or not lld.ok or ld.transcript != lld.transcript:
            ctx.inconclusive("pinned: references fail or disagree")
            continue
        w = pinned_link(ctx, name, spec, objs, libobjs, kind, "wild")
        cls, detail = pc.outcome(w, ld.transcript, kind)
        if cls == "same":
            ctx.held(fingerprint=f"pinned:{name}:{kind}", nontrivial=True)
        else:
            bad.setdefault((cls, detail), []).append((kind, ld, w))
    for (cls, detail), lst in bad.items():
        groups = [("all", lst[0])] if len(lst) >= 3 else [(k, (k, l, w)) for k, l, w in lst]
        for kn, (kind, ld, w) in groups:
            sig = f"{cls}:{detail}:option=any:kind={kn}"
            if detail.startswith("cause="):
                sig = f"{detail}:kind={kind}"
            ctx.note("violations-by-signature:" + sig)
            if not _once.first(sig):
                continue
            files = {"ld.transcript": ld.transcript, "wild.transcript": w.transcript or "",
                     "wild.stderr": (w.link.errtext() if w.link else "") + (w.lib_link.errtext() if w.lib_link else ""),
                     "commands.txt": "gcc -B<wild> " + " ".join(w.cmd) + " -o prog\n"}
            for n, (lang, fl, src) in enumerate(spec["units"] + spec.get("lib", [])):
                files[f"src/unit{n}.c"] = src + "\n// flags: " + " ".join(fl) + "\n"
            ctx.violation(sig, f"pinned reproducer {name} ({kind}): wild's link behaves differently from GNU ld's and ld.lld's: {cls} "
                               f"{detail}; ld prints {ld.transcript!r}, wild prints {w.transcript!r}", case="pinned-" + name, files=files)


def main(ctx):
    ctx.rule = ("proggen programs (3-6 C units + optional C++/asm units, random feature mix and code model) x wild option "
                "vectors (every level of relax/string-merge/pack-relative-relocs/hash-style/build-id/bind-now/gc/output kind "
                "appears per program); a case counts when GNU ld's link of that kind runs and prints >= 20 transcript lines and "
                "wild's link was compared line by line; distinct = distinct (program, kind, option vector)")
    ctx.assumptions = ["GNU ld 2.40 default link (--no-gc-sections) of the same objects defines the expected transcript; "
                       "ld.lld 14 must agree with it before a difference is reported",
                       "transcripts contain only linker-independent outcomes (generator validated: ld == lld on 32 seeds x all kinds)"]
    tools.wild()
    n = ctx.pick(20, 100)
    progs = list(range(n))
    pins = list(PINNED)
    if ctx.replay is not None:
        c = str(ctx.replay.get("case"))
        pins = [c[len("pinned-"):]] if c.startswith("pinned-") else []
        progs = [] if c.startswith("pinned-") else [int(c.split(".")[0])]
    pmap(lambda k: pinned(ctx, k), pins)
    # phase 1: generate + compile; phase 2: reference + baseline per (program, kind); phase 3: option vectors
    prepared = pmap(lambda i: (i, prepare(ctx, i)), progs)
    pmap(lambda t: do_base(ctx, t[1], t[2], t[0]), [(i, P, k) for i, (P, kinds, _c) in prepared for k in kinds])
    for _i, (P, kinds, _c) in prepared:
        flush_base(ctx, P, kinds)
    pmap(lambda t: judge(ctx, t[0], t[1], t[2], t[0].base_out.get(t[1]), t[3]),
         [(P, k, cfg, case) for _i, (P, _k, cfgs) in prepared for k, cfg, case in cfgs])
