"""C30 Constructor and destructor order matches GNU ld.

Oracle: differential with GNU ld on generated programs whose constructors/destructors each print a
unique id with write(2): (1) the run-time transcript, (2) the contents of .preinit_array/.init_array/
.fini_array/.ctors/.dtors of the output decoded to symbol names. On a difference the discordant
pairs are classified (section kinds, equal/different priority) and a causal probe (all hand-written
sections re-assembled with 8-byte alignment) separates the alignment-dependent ordering defect.
"""
import os

from vlib import elf, tools, xlink
from vlib.common import pmap, rng, sha, write

LEVEL = "exploration"
PRIOS = [101, 200, 300, 1000, 65534]
KINDS = ["static", "static-pie", "pie", "nopie", "shared"]

ASM_MACRO = r"""
.macro FN name
.text
.type \name,@function
\name:
 lea 1f(%rip),%rsi
 mov $1,%edi
 mov $2f-1f,%edx
 mov $1,%eax
 syscall
 ret
.size \name,.-\name
.section .rodata
1: .ascii "\name "
2:
.endm
"""
C_HDR = '#include <unistd.h>\n#define E(s) do { if (write(1, s " ", sizeof(s)) < 0) _exit(9); } while (0)\n'


class Ent:
    __slots__ = ("name", "unit", "sec", "phase", "fam", "prio", "plain", "align", "lang")

    def descr(self):
        base = {"init": "init_array", "fini": "fini_array", "pre": "preinit_array"}[self.phase] \
            if self.fam == "array" else {"init": "ctors", "fini": "dtors"}[self.phase]
        return base if self.plain else base + ".N"


def gen_program(r, quick):
    """Returns dict(units=[{lang, ents, sections, align, archive}], kind, ...)."""
    kind = r.choice(KINDS)
    nunits = r.randint(2, 6 if quick else 10)
    units = []
    for u in range(nunits):
        lang = "c" if r.random() < 0.45 else "asm"
        unit = dict(idx=u, lang=lang, secs=[], align=8, archive=False)
        n = 0
        if lang == "c":
            # C attributes: gcc groups equal priorities into one section in definition order
            for _ in range(r.randint(0, 4)):
                phase = r.choice(["init", "fini"])
                prio = r.choice([None, None, None] + PRIOS + [65535])
                unit["secs"].append(dict(phase=phase, fam="array", prio=prio, names=[f"k{u}_{n}"], unpadded=False))
                n += 1
        else:
            unit["align"] = 1 if r.random() < 0.2 else 8
            for _ in range(r.randint(1, 3)):
                c = r.random()
                if c < 0.08 and kind != "shared":
                    phase, fam, prio = "pre", "array", None
                else:
                    phase = r.choice(["init", "init", "fini"])
                    fam = "array" if r.random() < 0.5 else "ctors"
                    pc = r.random()
                    if pc < 0.4:
                        prio = None
                    elif pc < 0.96:
                        p = r.choice(PRIOS)
                        prio = p if fam == "array" else 65535 - p
                        if r.random() < 0.3:
                            prio = r.choice([150, 250, 5000, 40000, 65400])
                    else:
                        prio = 65535 if fam == "array" else 0   # explicit lowest priority
                names = []
                for _ in range(r.randint(1, 3)):
                    names.append(f"k{u}_{n}")
                    n += 1
                unit["secs"].append(dict(phase=phase, fam=fam, prio=prio, names=names,
                                         unpadded=r.random() < 0.05))
        units.append(unit)
    # archive membership
    if r.random() < 0.5 and nunits >= 3:
        for unit in units:
            if r.random() < 0.5:
                unit["archive"] = True
    if r.random() < 0.5 and kind != "shared":
        secs = [dict(phase=ph, fam="array", prio=r.choice([None, None, 300]), names=[f"kM_{i}"], unpadded=False)
                for i, ph in enumerate(r.sample(["init", "fini", "init"], r.randint(1, 3)))]
        units.append(dict(idx="M", lang="c", secs=secs, align=8, archive=False))
    return dict(kind=kind, units=units, whole=r.random() < 0.4, cpic=r.random() < 0.5)


def secname(s):
    if s["phase"] == "pre":
        return ".preinit_array"
    base = {("init", "array"): ".init_array", ("fini", "array"): ".fini_array",
            ("init", "ctors"): ".ctors", ("fini", "ctors"): ".dtors"}[(s["phase"], s["fam"])]
    if s["prio"] is None:
        return base
    return f"{base}.{s['prio']}" if s["unpadded"] else f"{base}.{s['prio']:05d}"


def entries(prog):
    out = {}
    for unit in prog["units"]:
        for s in unit["secs"]:
            for nm in s["names"]:
                e = Ent()
                e.name, e.unit, e.sec, e.phase, e.fam = nm, unit["idx"], secname(s), s["phase"], s["fam"]
                e.lang, e.align = unit["lang"], unit["align"]
                if unit["lang"] == "c":
                    e.plain = s["prio"] in (None, 65535)
                    e.prio = 65535 if e.plain else s["prio"]
                    if e.plain:
                        e.sec = ".init_array" if s["phase"] == "init" else ".fini_array"
                else:
                    e.plain = s["prio"] is None
                    if e.plain:
                        e.prio = 65535
                    else:
                        e.prio = s["prio"] if s["fam"] == "array" else 65535 - s["prio"]
                out[nm] = e
    return out


def unit_source(unit, force_align8):
    u = unit["idx"]
    if unit["lang"] == "c":
        t = C_HDR
        for s in unit["secs"]:
            attr = "constructor" if s["phase"] == "init" else "destructor"
            if s["prio"] is not None:
                attr += f"({s['prio']})"
            nm = s["names"][0]
            t += f'__attribute__(({attr})) static void {nm}(void) {{ E("{nm}"); }}\n'
        t += f"void pull_k{u}(void) {{}}\n"
        return t, "c"
    al = 8 if force_align8 else unit["align"]
    t = ASM_MACRO
    for s in unit["secs"]:
        for nm in s["names"]:
            t += f"FN {nm}\n"
    for s in unit["secs"]:
        sn = secname(s)
        ty = {"pre": "@preinit_array", "init": "@init_array", "fini": "@fini_array"}[s["phase"]] \
            if s["fam"] == "array" else "@progbits"
        t += f'.section {sn},"aw",{ty}\n'
        if al > 1:
            t += f".balign {al}\n"
        for nm in s["names"]:
            t += f".quad {nm}\n"
    t += f".text\n.globl pull_k{u}\n.type pull_k{u},@function\npull_k{u}: ret\n"
    t += '.section .note.GNU-stack,"",@progbits\n'
    return t, "s"


def build(ctx, prog, order, d, force_align8, rec):
    """Compiles everything; returns (args for the link under test, main object for kind=shared or None)."""
    kind = prog["kind"]
    pic = kind in ("pie", "static-pie", "shared") or prog["cpic"]
    cflags = ("-O0", "-fPIC") if pic else ("-O0", "-fno-pic")
    objs = {}
    for unit in prog["units"]:
        if unit["idx"] == "M":
            continue
        src, lang = unit_source(unit, force_align8)
        objs[unit["idx"]] = rec.obj(f"u{unit['idx']}", src, cflags if lang == "c" else (), lang=lang)
    real = [u for u in prog["units"] if u["idx"] != "M"]
    members = [u for u in real if u["archive"]]
    pulls = "".join(f"  pull_k{u['idx']}();\n" for u in real)
    decl = "".join(f"void pull_k{u['idx']}(void);\n" for u in real)
    if kind == "shared":
        anchor = rec.obj("anchor", C_HDR + decl + "void lib_anchor(void) {\n" + pulls + "}\n", cflags)
        mainobj = rec.obj("main", C_HDR + 'void lib_anchor(void);\nint main(void) { E("main"); lib_anchor(); return 0; }\n',
                          ("-O0", "-fPIC"))
    else:
        main_ents = ""
        for unit in prog["units"]:
            if unit["idx"] == "M":
                main_ents = unit_source(unit, False)[0].replace(C_HDR, "").replace("void pull_kM(void) {}\n", "")
        anchor = rec.obj("main", C_HDR + decl + main_ents + 'int main(void) { E("main");\n' + pulls + "  return 0; }\n", cflags)
        mainobj = None
    ar = rec.archive("libk.a", [objs[u["idx"]] for u in members]) if members else None
    # command line: order is a permutation of tokens ("M" = main/anchor, "A" = archive, int = unit)
    args = []
    seen_main = False
    for tok in order:
        if tok == "M":
            args.append(anchor)
            seen_main = True
        elif tok == "A":
            if ar is None:
                continue
            if prog["whole"] or not seen_main:
                args += ["-Wl,--whole-archive", ar, "-Wl,--no-whole-archive"]
            else:
                args.append(ar)
        else:
            if not prog["units"][tok]["archive"]:
                args.append(objs[tok])
    opts = {"static": ["-static"], "static-pie": ["-static-pie"], "pie": ["-pie"], "nopie": ["-no-pie"],
            "shared": ["-shared"]}[kind]
    return opts + ["-Wl,--no-gc-sections"] + args, mainobj


def link_and_run(ctx, prog, which, args, mainobj, d, rec):
    """Returns (transcript or None, static arrays dict or None, link result, out path)."""
    kind = prog["kind"]
    if kind == "shared":
        out = os.path.join(d, which, "libu.so")
        os.makedirs(os.path.dirname(out), exist_ok=True)
        rec.name(out, which + "/libu.so")
        rec.step("mkdir -p " + which)
        res = rec.link(which, args, out)
        if not xlink.linked_ok(res, out):
            return None, None, res, out
        exe = rec.name(os.path.join(d, which, "main"), which + "/main")
        r2 = rec.link("ld", [mainobj, out], exe)
        if not xlink.linked_ok(r2, exe):
            return None, None, r2, out
        rr = xlink.runprog(exe, libdirs=[os.path.dirname(out)])
        rec.step(f"LD_LIBRARY_PATH={which} ./{which}/main; echo")
        target = out
    else:
        out = os.path.join(d, which + ".out")
        if which == "wild" and os.environ.get("VERIF_SELFTEST") == "reverse":
            inputs = [a for a in args if a.endswith(".o")]
            it = iter(inputs[::-1])
            args = [next(it) if a.endswith(".o") else a for a in args]
        res = rec.link(which, args, out)
        if not xlink.linked_ok(res, out):
            return None, None, res, out
        rr = xlink.runprog(out)
        rec.step(f"./{which}.out; echo")
        target = out
    if rr.timed_out:
        return None, None, res, out
    transcript = f"rc={rr.rc} " + rr.outtext().strip()
    arrays = {}
    try:
        e = elf.Elf(target)
        names = xlink.addr_names(e, prefix="k")
        for sn in (".preinit_array", ".init_array", ".fini_array", ".ctors", ".dtors"):
            vals = xlink.pointer_array(e, sn)
            if vals is None:
                continue
            seq = [names.get(v) for v in vals]
            seq = [x for x in seq if x and x[0] == "k" and "_" in x]
            if seq:
                arrays[sn] = seq
    except Exception as ex:   # malformed output: let the run-time differential speak
        arrays = {"error": [str(ex)[:80]]}
    return transcript, arrays, res, out


def phases(transcript):
    toks = transcript.split()[1:]
    if "main" not in toks:
        return None
    i = toks.index("main")
    own = lambda t: t.startswith("k") and "_" in t
    return {"init": [t for t in toks[:i] if own(t)], "fini": [t for t in toks[i + 1:] if own(t)]}


def classify(ents, ref_seq, got_seq, phase):
    """Classes of discordant pairs between two sequences over the same ids; or missing/extra."""
    out = set()
    rs, gs = set(ref_seq), set(got_seq)
    for x in rs - gs:
        out.add(f"entries:{phase}:missing:{ents[x].descr() if x in ents else 'unknown'}")
    for x in gs - rs:
        out.add(f"entries:{phase}:extra:{ents[x].descr() if x in ents else 'unknown'}")
    if len(ref_seq) != len(rs) or len(got_seq) != len(gs):
        out.add(f"entries:{phase}:duplicated")
    common = [x for x in ref_seq if x in gs]
    pos = {x: i for i, x in enumerate(got_seq)}
    for i in range(len(common)):
        for j in range(i + 1, len(common)):
            x, y = common[i], common[j]
            if pos[x] > pos[y] and x in ents and y in ents:
                a, b = ents[x], ents[y]
                dk = sorted([a.descr(), b.descr()])
                eq = a.prio == b.prio
                if eq and not a.plain and not b.plain and a.sec != b.sec:
                    # GNU ld: SORT_BY_INIT_PRIORITY falls back to the section name on equal priority
                    c = "equal-priority:section-names-differ"
                elif a.plain != b.plain and eq:
                    c = "explicit-priority-65535-vs-no-priority"
                else:
                    c = "~".join(dk) + (":equal-priority" if eq else ":different-priority")
                    if a.unit == b.unit:
                        c += ":same-object"
                out.add(f"order:{phase}:{c}")
    return out


def compare(ents, ref, got):
    """ref/got = (transcript, arrays). Returns set of classes (empty = identical)."""
    out = set()
    if ref[0] != got[0]:
        pr, pg = phases(ref[0]), phases(got[0])
        if pr is None or pg is None or ref[0].split()[0] != got[0].split()[0]:
            out.add("run:exit-status-or-main-marker-differs")
        else:
            for ph in ("init", "fini"):
                if pr[ph] != pg[ph]:
                    # destructors run in reverse array order; report in array order
                    a, b = (pr[ph], pg[ph]) if ph == "init" else (pr[ph][::-1], pg[ph][::-1])
                    out |= classify(ents, a, b, ph)
            if not out:
                out.add("run:transcript-differs-outside-generated-entries")
    elif ref[1] != got[1]:
        for sn in sorted(set(ref[1]) | set(got[1])):
            a, b = ref[1].get(sn, []), got[1].get(sn, [])
            if a != b:
                cl = classify(ents, a, b, "static" + sn)
                out |= cl or {f"static{sn}:differs"}
    return out


def one_case(ctx, ci, forced=None):
    prog = forced or gen_program(rng("C30", ctx.seed, ci // 2), ctx.quick)
    order = ["M", "A"] + [u["idx"] for u in prog["units"] if u["idx"] != "M"]
    rng("C30", ctx.seed, ci, "order").shuffle(order)
    if forced is not None:
        order = forced["order"]
    ents = entries(prog)
    d = ctx.scratch.dir("case", ci)

    def attempt(force8, tag):
        dd = os.path.join(d, tag)
        os.makedirs(dd, exist_ok=True)
        rec = xlink.Recipe(ctx, dd)
        args, mainobj = build(ctx, prog, order, dd, force8, rec)
        ref = link_and_run(ctx, prog, "ld", args, mainobj, dd, rec)
        got = link_and_run(ctx, prog, "wild", args, mainobj, dd, rec)
        return rec, ref, got

    rec, ref, got = attempt(False, "a")
    if ref[0] is None:
        ctx.inconclusive("GNU ld rejected the program or it did not run")
        return
    pr = phases(ref[0])
    if pr is None or not ref[0].startswith("rc=0 "):
        ctx.inconclusive("reference program did not run to completion")
        return
    expected = set(ents)
    if set(pr["init"]) | set(pr["fini"]) != expected or len(pr["init"]) + len(pr["fini"]) != len(expected):
        ctx.inconclusive("reference run does not execute every generated entry exactly once")
        return
    for e in ents.values():
        ctx.note("section:" + e.descr() + (":align1" if e.align == 1 else ""))
    ctx.note("kind:" + prog["kind"])
    if any(u["archive"] for u in prog["units"]):
        ctx.note("with-archive:" + ("whole" if prog["whole"] else "pulled"))
    if got[0] is None:
        LIM.violation("link:wild-rejects-program-ld-links", "wild failed to link a constructor program GNU ld links: "
                      + got[2].errtext().strip()[:300], case=ci, files=rec.files())
        return
    classes = compare(ents, ref[:2], got[:2])
    if not classes:
        kinds = {e.descr() for e in ents.values()}
        units = {e.unit for e in ents.values()}
        ctx.held(fingerprint=sha(repr((prog["kind"], order, [(e.name, e.sec, e.align) for e in ents.values()])))[:16],
                 nontrivial=len(ents) >= 3 and len(units) >= 2 and len(kinds) >= 2,
                 sample={"kind": prog["kind"], "transcript": ref[0][:300]} if ci in (0, 1) else None)
        return
    sigs = set(classes)
    if any(e.align != 8 for e in ents.values()) and any(c.startswith(("order:", "static")) for c in classes):
        # causal probe: same program with every hand-written section aligned to 8
        _rec8, ref8, got8 = attempt(True, "b")
        if ref8[0] is not None and got8[0] is not None and ref8[0] == ref[0]:
            c8 = compare(ents, ref8[:2], got8[:2])
            gone = {c for c in classes if c not in c8}
            if gone:
                phs = sorted({c.split(":")[1] for c in gone})
                sigs = set(c8) | {f"order:{p}:input-section-alignment-dependent" for p in phs}
    info = {"kind": prog["kind"], "order": order, "ld": ref[0], "wild": got[0], "ld_arrays": ref[1], "wild_arrays": got[1],
            "entries": {e.name: [e.sec, f"align={e.align}", f"unit={e.unit}"] for e in ents.values()}}
    for sig in sorted(sigs):
        LIM.violation(sig, f"constructor/destructor order differs from GNU ld ({prog['kind']}): ld runs [{ref[0]}], "
                      f"wild runs [{got[0]}]", case=ci, files=rec.files(), info=info)


LIM = None


def pinned_progs():
    """Minimal reproducers of the defects found so far (re-observed on every run)."""
    def unit(idx, lang, secs, align=8):
        return dict(idx=idx, lang=lang, secs=secs, align=align, archive=False)
    c_ctor = lambda u: dict(phase="init", fam="array", prio=None, names=[f"k{u}_0"], unpadded=False)
    c_dtor = lambda u: dict(phase="fini", fam="array", prio=None, names=[f"k{u}_1"], unpadded=False)
    p = []
    # 1. legacy .ctors/.dtors (alignment 1, hand-written) before .init_array objects
    p.append(dict(kind="nopie", whole=False, cpic=False, order=[0, 1, "M", "A"], units=[
        unit(0, "asm", [dict(phase="init", fam="ctors", prio=None, names=["k0_0", "k0_1"], unpadded=False),
                        dict(phase="fini", fam="ctors", prio=None, names=["k0_2"], unpadded=False)], align=1),
        unit(1, "c", [c_ctor(1), c_dtor(1)])]))
    # 2. .ctors.N and .init_array.M of equal effective priority (ld: sorted by section name)
    p.append(dict(kind="nopie", whole=False, cpic=False, order=[0, 1, "M", "A"], units=[
        unit(0, "c", [dict(phase="init", fam="array", prio=300, names=["k0_0"], unpadded=False)]),
        unit(1, "asm", [dict(phase="init", fam="ctors", prio=65235, names=["k1_0"], unpadded=False)])]))
    # 3. control: aligned legacy .ctors interleaves like ld
    p.append(dict(kind="pie", whole=False, cpic=True, order=[0, 1, "M", "A"], units=[
        unit(0, "asm", [dict(phase="init", fam="ctors", prio=None, names=["k0_0", "k0_1"], unpadded=False)], align=8),
        unit(1, "c", [c_ctor(1), c_dtor(1)])]))
    return p


def main(ctx):
    ctx.rule = ("random programs of 2-10 units (C attributes with/without priority; hand-written .init_array[.N], "
                ".fini_array[.N], .ctors[.N], .dtors[.N], .preinit_array with alignment 8 or 1; archive members; "
                "static/static-pie/pie/no-pie/shared), two shuffled command-line orders each; a case counts when GNU ld "
                "links it, every entry runs exactly once, and it has >=3 entries of >=2 section kinds from >=2 units")
    ctx.assumptions = ["GNU ld 2.40 via gcc -B is the arbiter", "ids printed with write(2) so stdio state is irrelevant"]
    global LIM
    LIM = xlink.SigLimiter(ctx, 2)
    tools.wild()
    n = ctx.pick(80, 500)
    jobs = [("p", i) for i in range(len(pinned_progs()))] + [("c", i) for i in range(n)]
    if ctx.replay is not None:
        c = str(ctx.replay.get("case"))
        jobs = [("p", int(c[6:]))] if c.startswith("pinned") else [("c", int(c))]

    def go(j):
        if j[0] == "p":
            one_case(ctx, f"pinned{j[1]}", forced=pinned_progs()[j[1]])
        else:
            one_case(ctx, j[1])
    pmap(go, jobs, workers=12)
