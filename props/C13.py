"""C13 Instruction immediate fields are encoded exactly and locally.

Oracle: the in-process `units` harness drives wild's real `AArch64Instruction / RiscVInstruction /
LoongArch64Instruction::write_to_value` (directly, with values that fit the field) and
`RelocationKindInfo::write_to_buffer` (per relocation type, in-range values only) and compares each
written word with an independent table per encoding (bit segments written from the ISA manuals /
psABIs): (a) only bits of the immediate field change, nothing beyond the instruction is written,
(b) the result does not depend on what the field held before (zeros / ones / random pre-fill),
(c) the field decodes to the value, (d) wild's own `read_value` is the inverse on the field.
The AArch64 and RISC-V tables are calibrated on every run against `llvm-mc --show-encoding`;
LoongArch comes from the manual alone. Fields of <= 16 bits (thorough: <= 21) are enumerated
exhaustively x 16 (64) initial words built from real opcodes with random register fields.
"""
import json
import os
import re
import shutil

from vlib import tools
from vlib.common import HarnessError, run, write
from vlib.elf import Elf
from vlib.units import run_units, units_bin

LEVEL = "exploration"

MUTANTS = {
    # corrupts what the oracle reads after wild's write, as a wrong encoder would
    "insn_flip_bit7": ("riscv64:", ("changes-bits-outside-field", "wrong-field-content")),
    "insn_keep_low_field_bit": ("riscv64:UType", ("depends-on-previous-field",)),
    "insn_touch_next_byte": ("riscv64:CjType", ("writes-beyond-instruction",)),
}


def llvm_mc():
    for n in ("llvm-mc", "llvm-mc-14"):
        p = shutil.which(n)
        if p:
            return p
    raise HarnessError("llvm-mc not found: the encoding tables cannot be calibrated")


def calibrate(ctx, n):
    """Validates the harness's own AArch64 / RISC-V tables: its reference encoding of (template,
    registers, value) must equal llvm-mc's encoding of the same assembly text."""
    _, _, recs = run_units(["calib", ctx.seed, n])
    recs = [r for r in recs if r.get("t") == "calib"]
    mc = llvm_mc()
    d = ctx.scratch.dir("calib")
    total = 0
    for arch, flags in (("aarch64", ["-triple=aarch64"]), ("riscv64", ["-triple=riscv64", "-mattr=+c"])):
        rs = [r for r in recs if r["arch"] == arch]
        if not rs:
            raise HarnessError(f"calibration: no records for {arch}")
        lines = []
        for r in rs:
            if arch == "riscv64":
                lines.append(".option rvc" if r["nbytes"] == 2 else ".option norvc")
            lines.append(r["asm"])
        src = write(os.path.join(d, arch + ".s"), "\n".join(lines) + "\n")
        res = run([mc, "--show-encoding"] + flags + [src], timeout=300)
        if not res.ok:
            raise HarnessError(f"calibration: llvm-mc rejected the {arch} sample: {res.errtext()[:800]}")
        encs = re.findall(r"encoding: \[([^\]]*)\]", res.outtext())
        need = sum(r["asm"].count("\n") + 1 for r in rs)
        if len(encs) != need:
            raise HarnessError(f"calibration: {arch}: {len(encs)} encodings for {need} instructions")
        i = 0
        for r in rs:
            k = r["asm"].count("\n") + 1
            b = b"".join(bytes(int(x, 16) for x in e.split(",")) for e in encs[i:i + k])
            i += k
            if len(b) != r["nbytes"] or int.from_bytes(b, "little") != int(r["word"], 16):
                raise HarnessError(f"calibration: the independent table disagrees with llvm-mc for {r}: "
                                   f"llvm-mc gives 0x{int.from_bytes(b, 'little'):x}")
            ctx.note(f"calibrated:{arch}/{r['kind']}")
            total += 1
    ctx.extra["calibration_encodings_checked"] = total
    return total


def describe(m):
    s = m["samples"][0] if m.get("samples") else {}
    what = m["sig"].rsplit(":", 1)[-1]
    text = {
        "depends-on-previous-field": "the written field depends on what it held before (value is ORed in without "
                                     "clearing)",
        "changes-bits-outside-field": "bits outside the immediate field change",
        "wrong-field-content": "the field does not decode to the value",
        "writes-beyond-instruction": "bytes after the instruction are modified",
        "read_value-not-inverse": "read_value(write(v)) written back gives a different field",
    }.get(what, what)
    return f"{text}; {m['n']} writes, e.g. {json.dumps(s)[:600]}"


def to_violations(ctx, mism, tag, args, env):
    sigs = {m["sig"] for m in mism}
    for m in mism:
        sig = m["sig"]
        head, what = sig.rsplit(":", 1)
        # one defect, one signature: a wrong format also shows up as dependence on the old content
        if what == "depends-on-previous-field" and head + ":wrong-field-content" in sigs:
            continue
        cmd = " ".join(f"{k}={v}" for k, v in (env or {}).items()) + " " + units_bin() + " " + " ".join(map(str, args))
        ctx.violation(sig, describe(m), case=tag,
                      files={"samples.json": json.dumps(m, indent=1), "command.txt": cmd.strip() + "\n"},
                      info={"args": list(args), "env": env, "count": m["n"]})


def sx(v, bits):
    v &= (1 << bits) - 1
    return v - (1 << bits) if v >> (bits - 1) else v


# Pinned end-to-end reproducers (AArch64, wild vs ld.lld 14): an instruction whose immediate field
# the assembler already filled, plus a `.reloc` on it. name -> (wild encoder, asm line, relocation,
# decoder(word, P, S) -> bool meaning "the instruction refers to S").
PINNED_PREFILLED = [
    ("JumpCall", "b {L}+0x100", "R_AARCH64_JUMP26",
     lambda w, p, s: w >> 26 == 0b000101 and p + 4 * sx(w, 26) == s),
    ("Adr", "adr x3, {L}+0x44", "R_AARCH64_ADR_PREL_LO21",
     lambda w, p, s: w & 0x9f000000 == 0x10000000 and p + sx(((w >> 5) & 0x7ffff) << 2 | (w >> 29) & 3, 21) == s),
    ("Bcond", "b.eq {L}+0x40", "R_AARCH64_CONDBR19",
     lambda w, p, s: w & 0xff000010 == 0x54000000 and p + 4 * sx(w >> 5, 19) == s),
    ("TstBr", "tbz w4, #1, {L}+0x40", "R_AARCH64_TSTBR14",
     lambda w, p, s: w & 0x7f000000 == 0x36000000 and p + 4 * sx(w >> 5, 14) == s),
    ("Ldr", "ldr x5, {L}+0x40", "R_AARCH64_LD_PREL_LO19",
     lambda w, p, s: w & 0xff000000 == 0x58000000 and p + 4 * sx(w >> 5, 19) == s),
    ("Add", "add x6, x6, #0x123", "R_AARCH64_ADD_ABS_LO12_NC",
     lambda w, p, s: w & 0xffc00000 == 0x91000000 and (w >> 10) & 0xfff == s & 0xfff),
    ("LdSt", "ldr x7, [x7, #0x128]", "R_AARCH64_LDST64_ABS_LO12_NC",
     lambda w, p, s: w & 0xffc00000 == 0xf9400000 and (w >> 10) & 0xfff == (s & 0xfff) >> 3),
    ("Movkz", "movk x8, #0x1234", "R_AARCH64_MOVW_UABS_G0_NC",
     lambda w, p, s: w & 0xffe00000 == 0xf2800000 and (w >> 5) & 0xffff == s & 0xffff),
]


def link_a64(ctx, kind, obj, extra, tag):
    d = ctx.scratch.dir("e2e", f"{tag}-{kind}")
    out = tools.fresh(os.path.join(d, "out"))
    args = (["-m", "aarch64elf"] if kind == "wild" else []) + [obj, "-o", out] + list(extra)
    return tools.link(kind, args, timeout=120), out, args


def pinned_e2e(ctx):
    """Fixed end-to-end witnesses of the in-process findings, judged on the linked output."""
    tgt = "aarch64-linux-gnu"
    for enc, insn, rel, refers in PINNED_PREFILLED:
        lab = "L" + enc
        src = (f".text\n.globl _start\n_start:\n{lab}: {insn.format(L=lab)}\n .reloc {lab}, {rel}, target\n ret\n"
               f" .balign 16\n.globl target\ntarget:\n .quad 0\n")
        obj = tools.assemble(ctx, src, target=tgt)
        verdicts = {}
        for kind in ("lld", "wild"):
            r, out, args = link_a64(ctx, kind, obj, [], f"pre-{enc}")
            if r.timed_out or not r.ok:
                verdicts[kind] = None
                continue
            e = Elf(out)
            st, tg = e.sym_by_name("_start"), e.sym_by_name("target")
            w = e.u32_at(st.value) if st and tg else None
            verdicts[kind] = None if w is None else (refers(w, st.value, tg.value), w, st.value, tg.value, out, args)
        if not verdicts.get("lld") or not verdicts["lld"][0]:
            ctx.inconclusive("pinned: reference linker rejected the case or fails the expectation")
            continue
        if verdicts.get("wild") is None:
            ctx.inconclusive("pinned: wild did not link the case")
            continue
        ok, w, p, s, out, args = verdicts["wild"]
        if ok:
            ctx.held(fingerprint=f"pinned-e2e:{enc}:prefilled-field", nontrivial=True)
        else:
            ctx.violation(f"aarch64:{enc}:depends-on-previous-field",
                          f"end-to-end: `{insn.format(L=lab)}` carrying {rel} against `target`: wild writes "
                          f"0x{w:08x} at {p:#x}, which does not refer to target ({s:#x}); ld.lld's output does "
                          f"(the field content left by the assembler is ORed into the result)",
                          case=f"pinned-{enc}", files={"a.s": src, "a.o": obj, "wild.out": out,
                                                       "command.txt": " ".join([tools.wild()] + args) + "\n"})
    # MOVZ/MOVN on a W register: only imm16 and opc[30:29] belong to the field
    src = ".text\n.globl _start\n_start:\n movz w1, #:abs_g0_s:negsym\n ret\n"
    obj = tools.assemble(ctx, src, target=tgt)
    words = {}
    for kind in ("lld", "wild"):
        r, out, args = link_a64(ctx, kind, obj, ["--defsym=negsym=-5"], "movnz-w")
        if r.ok and not r.timed_out:
            e = Elf(out)
            words[kind] = (e.u32_at(e.sym_by_name("_start").value), out, args)
    if words.get("lld", (None,))[0] != 0x12800081:
        ctx.inconclusive("pinned: reference linker rejected the case or fails the expectation")
    elif "wild" not in words:
        ctx.inconclusive("pinned: wild did not link the case")
    elif words["wild"][0] == 0x12800081:
        ctx.held(fingerprint="pinned-e2e:Movnz:w-register", nontrivial=True)
    else:
        ctx.violation("aarch64:Movnz:changes-bits-outside-field",
                      f"end-to-end: `movz w1, #:abs_g0_s:negsym` with negsym=-5: wild writes 0x{words['wild'][0]:08x} "
                      f"(sf bit set: `movn x1, #4`), ld.lld writes 0x12800081 (`movn w1, #4`)",
                      case="pinned-Movnz-w", files={"a.s": src, "a.o": obj, "wild.out": words["wild"][1],
                                                    "command.txt": " ".join([tools.wild()] + words["wild"][2]) + "\n"})
    # R_AARCH64_GOT_LD_PREL19 (ld.lld 14 does not implement it: judged by decoding alone)
    src = ".text\n.globl _start\n_start:\n ldr x2, :got:target\n ret\n.globl target\ntarget:\n ret\n"
    obj = tools.assemble(ctx, src, target=tgt)
    r, out, args = link_a64(ctx, "wild", obj, [], "gotldprel19")
    if not r.ok or r.timed_out:
        ctx.inconclusive("pinned: wild did not link the case")
    else:
        e = Elf(out)
        p, s = e.sym_by_name("_start").value, e.sym_by_name("target").value
        w = e.u32_at(p)
        slot = p + 4 * sx(w >> 5, 19)
        sec = e.section_at(slot)
        good = w & 0xff00001f == 0x58000002 and sec is not None and sec.name.startswith(".got") and e.u64_at(slot) == s
        if good:
            ctx.held(fingerprint="pinned-e2e:R_AARCH64_GOT_LD_PREL19", nontrivial=True)
        else:
            ctx.violation("aarch64:R_AARCH64_GOT_LD_PREL19:wrong-field-content",
                          f"end-to-end: `ldr x2, :got:target` (R_AARCH64_GOT_LD_PREL19) becomes 0x{w:08x}, which is not "
                          f"an LDR (literal) of target's GOT slot (the value is written at bit 10 instead of bit 5)",
                          case="pinned-GOT_LD_PREL19", files={"a.s": src, "a.o": obj, "wild.out": out,
                                                              "command.txt": " ".join([tools.wild()] + args) + "\n"})


def main(ctx):
    ctx.rule = ("one case per sub-space: direct/<arch>/<encoder> (write_to_value with every value that fits, "
                "or boundary+random for wide fields) and reloc/<arch>/<type> (write_to_buffer with in-range "
                "values); each value is written into several words made of a real opcode, random register "
                "bits and the field pre-filled with zeros, ones or random bits; a case counts when writes "
                "with all three pre-fills were compared against the independent table")
    ctx.assumptions = [
        "AArch64/RISC-V bit layouts: own tables, validated each run against llvm-mc --show-encoding",
        "LoongArch bit layouts: own tables from the LoongArch reference manual alone (LLVM 14 has no "
        "LoongArch backend); R_LARCH_CALL30 (pcaddu12i+jirl): only locality is judged",
        "value->field functions (RISC-V %hi rounding, AArch64 MOVN/MOVZ selection, LoongArch call36 split) "
        "are taken from the psABI documents",
        "initial words are valid instructions of the class the relocation applies to; arbitrary words "
        "are not judged", "Mach-O-only encoder MachOLow12 is out of scope",
        "the optional Miri run of the harness entry points was not attempted"]
    if ctx.replay is not None and str(ctx.replay.get("case", "")).startswith("pinned"):
        tools.wild()
        pinned_e2e(ctx)
        return
    ncal = calibrate(ctx, ctx.pick(6, 40))
    ctx.note("calibration-encodings", ncal)

    n_random = ctx.pick(40_000, 1_500_000)
    n_words = ctx.pick(16, 64)
    env = {"UNITS_EXH_BITS": str(ctx.pick(16, 21))}
    args = ["insn", ctx.seed, n_random, n_words]
    if ctx.replay is not None:
        info = ctx.replay.get("info") or {}
        args = list(info.get("args") or args)
        env = info.get("env") or env
    counts, mism, _ = run_units(args, extra_env=env, timeout=7200)
    writes = 0
    exhaustive = []
    for c in counts:
        sp = c["space"]
        w = c.get("writes", 0)
        writes += w
        if c.get("unsupported_by_wild"):
            ctx.inconclusive("relocation type not implemented by wild")
            ctx.note_set("unsupported-reloc-types", sp.split("/")[-1])
            continue
        if sp.startswith("direct/"):
            nontrivial = w > 0 and min(c.get("prefill_zero", 0), c.get("prefill_ones", 0), c.get("prefill_random", 0)) > 0
            if c.get("exhaustive"):
                exhaustive.append(sp[len("direct/"):])
            if not c.get("decode_checked", True):
                ctx.note_set("locality-only-kinds", sp)
        else:
            nontrivial = w > 0
            ctx.note_set("wild-encoder-per-reloc-format", f"{c.get('wild_encoder')}->{c.get('format')}")
            if c.get("rejected_in_range_values"):
                ctx.note(f"in-range-values-rejected(left to C12):{sp.split('/')[-1]}", c["rejected_in_range_values"])
        ctx.note(f"writes:{sp.split('/')[0]}/{sp.split('/')[1]}", w)
        ctx.held(fingerprint=sp, nontrivial=nontrivial,
                 sample={k: v for k, v in c.items() if k != "t"} if sp.startswith("direct/") else None)
    ctx.extra["native_writes"] = writes
    ctx.extra["exhaustive_subspaces"] = sorted(exhaustive)
    to_violations(ctx, mism, "main", args, env)
    if ctx.replay is not None:
        return
    tools.wild()
    pinned_e2e(ctx)
    # self-validation on every run: the oracle must see each compiled-in corruption
    for mut, (prefix, whats) in MUTANTS.items():
        e2 = dict(env, UNITS_MUTANT=mut, UNITS_EXH_BITS="12")
        _, mm, _ = run_units(["insn", ctx.seed, 300, 6], extra_env=e2)
        hit = [m["sig"] for m in mm if m["sig"].startswith(prefix) and m["sig"].rsplit(":", 1)[-1] in whats]
        if not hit:
            raise HarnessError(f"self-validation: mutant {mut} was not detected ({sorted(m['sig'] for m in mm)[:8]})")
        ctx.note_set("self-validation:mutants-detected", mut)
