"""C31 Symbol tables describe the final resolution.

Workload: freestanding x86-64 asm programs made by a dedicated generator: 2-4 objects, 0-2 archives,
optionally a dependency shared library (linked by GNU ld). Symbols of every kind (func, object, notype,
TLS, common, absolute, ifunc) x binding (global, weak) x visibility (default, protected, hidden,
internal), in shapes single / weak+strong / weak+weak / common+common / common+strong / archive-only /
import / defined-in-exe-and-in-the-library / referenced-by-the-library; references carry their own
visibility (`.hidden x` on an undefined reference) or weakness. Output kinds static, PIE, dynamic
non-PIE, dynamic PIE, shared (with and without a dependency), each with explicit --gc-sections or
--no-gc-sections, and options -E, --export-dynamic-symbol, --export-dynamic-symbol-list,
--dynamic-list, --exclude-libs, --version-script, -s, -S, --retain-symbols-file, -x, -X.

Oracle (a), on wild's output alone (each rule is first evaluated on GNU ld's output of the same
link; a rule GNU ld's output breaks is inconclusive for the case): .symtab sh_info == index of the
first non-local and no local after it; each global name once; for generator-owned names: st_value
inside the section st_shndx names and *equal* to the address WILD_WRITE_LAYOUT reports for the winning
definition's input section + the input st_value; type/size/binding/visibility equal to the winning
input definition's (model: strong > largest common > first weak; visibility = most constraining
over all occurrences in loaded objects); .dynsym has every required export and nothing outside the
allowed set (model from visibility, output kind, -E, export lists, --exclude-libs, version script
`local:`, names a library input refers to); every defined .dynsym entry agrees with its .symtab twin.
Oracle (b): differential with GNU ld: name -> (type, binding, visibility, section class, size) for
owned names defined in .symtab, and the membership of owned names in .dynsym (defined / import).
ld.lld is the second reference: an attribute on which GNU ld and lld disagree is open (counted, not
judged). Addresses are never compared across linkers; unresolved weak undefined names are skipped.
"""
import fnmatch
import os

from vlib import elf as E
from vlib import tools
from vlib.common import HarnessError, pmap, rng, sha, write
from vlib.elf import Elf
from vlib.xlink import SigLimiter, cc, make_archive

LEVEL = "exploration"
LIM = None
SELFTEST = os.environ.get("VERIF_SELFTEST", "")

VIS = {"default": 0, "internal": 1, "hidden": 2, "protected": 3}
VISNAME = {v: k for k, v in VIS.items()}
BINDNAME = {0: "LOCAL", 1: "GLOBAL", 2: "WEAK", 10: "UNIQUE"}
TYPENAME = {0: "NOTYPE", 1: "OBJECT", 2: "FUNC", 3: "SECTION", 4: "FILE", 5: "COMMON", 6: "TLS", 10: "IFUNC"}
OUT_KINDS = ["static", "pie", "dyn", "pie-dyn", "shared", "shared-dep"]
DYN_KINDS = ("dyn", "pie-dyn", "shared-dep")
PREFIXES = ["ga", "gb", "gc"]


# ------------------------------------------------------------------------------------------------
# generator
# ------------------------------------------------------------------------------------------------

def pick_vis(r, p_default=0.5):
    if r.random() < p_default:
        return "default"
    return r.choice(["hidden", "hidden", "protected", "protected", "internal"])


def gen_case(r, quick=True, force_kind=None):
    kind = force_kind or r.choice(["static", "pie", "pie", "dyn", "pie-dyn", "shared", "shared", "shared", "shared-dep"])
    shared = kind.startswith("shared")
    has_dep = kind in DYN_KINDS
    gc = r.random() < 0.5
    n_obj = r.randint(2, 4)
    units = [dict(name=f"u{i}", where="obj", fsec=r.random() < 0.6) for i in range(n_obj)]
    archives = []
    for a in range(r.choice([0, 1, 1, 2])):
        an = ["libx.a", "liby.a"][a]
        archives.append(an)
        for m in range(r.randint(1, 3)):
            units.append(dict(name=f"{an[3]}m{m}", where=an, fsec=r.random() < 0.6))
    objs = [u for u in units if u["where"] == "obj"]
    mems = [u for u in units if u["where"] != "obj"]
    syms = {}
    order = []

    def new_name(i, suffix):
        return f"{r.choice(PREFIXES)}{i}_{suffix}"

    def add(name, **kw):
        kw.setdefault("defs", [])
        kw.setdefault("refs", [])
        kw["name"] = name
        syms[name] = kw
        order.append(name)
        return kw

    def mkdef(u, bind="global", vis="default", size=None, sec=None):
        return dict(unit=u["name"], bind=bind, vis=vis, size=size, sec=sec)

    nsym = r.randint(8, 16 if quick else 24)
    shapes = ["single"] * 8 + ["weak+strong"] * 2 + ["weak+weak", "common+common", "common+strong", "common", "common"]
    if mems:
        shapes += ["member"] * 6
    if has_dep:
        shapes += ["import"] * 4 + ["both"] * 2 + ["cb"] * 2
    for i in range(nsym):
        shape = r.choice(shapes)
        if shape in ("single", "member"):
            k = r.choice(["func"] * 4 + ["object"] * 4 + ["notype", "tls", "tls", "abs", "ifunc"])
            u = r.choice(mems if shape == "member" else objs)
            s = add(new_name(i, k[0]), kind=k, shape=shape)
            s["defs"].append(mkdef(u, bind="weak" if r.random() < 0.25 and k != "abs" else "global", vis=pick_vis(r),
                                   size=r.choice([4, 8, 16, 24]),
                                   sec=r.choice(["data", "data", "bss", "rodata"]) if k == "object" else
                                   (r.choice(["tdata", "tbss"]) if k == "tls" else None)))
        elif shape in ("weak+strong", "weak+weak"):
            if len(objs) < 2:
                continue
            k = r.choice(["func", "object"])
            a, b = r.sample(objs, 2)
            s = add(new_name(i, k[0] + "w"), kind=k, shape=shape)
            s["defs"].append(mkdef(a, bind="weak", vis=pick_vis(r, 0.7), size=8, sec="data"))
            s["defs"].append(mkdef(b, bind="global" if shape == "weak+strong" else "weak", vis=pick_vis(r, 0.7), size=16,
                                   sec=r.choice(["data", "bss"])))
        elif shape in ("common+common", "common+strong", "common"):
            if len(objs) < 2 and shape != "common":
                continue
            s = add(new_name(i, "c"), kind="common", shape=shape)
            if shape == "common":
                s["defs"].append(mkdef(r.choice(objs), vis=pick_vis(r, 0.7), size=r.choice([4, 16, 40]), sec="common"))
            else:
                a, b = r.sample(objs, 2)
                s["defs"].append(mkdef(a, vis=pick_vis(r, 0.8), size=r.choice([4, 16]), sec="common"))
                if shape == "common+common":
                    s["defs"].append(mkdef(b, vis=pick_vis(r, 0.8), size=r.choice([8, 32]), sec="common"))
                else:
                    s["defs"].append(mkdef(b, vis=pick_vis(r, 0.8), size=r.choice([8, 24]), sec=r.choice(["data", "bss"])))
        elif shape == "import":
            k = r.choice(["func", "func", "object", "object", "tls"])
            s = add(f"d{i}_{k[0]}", kind=k, shape=shape, dep_def=True, size=r.choice([4, 8, 16]))
        elif shape == "both":
            k = r.choice(["func", "object"])
            s = add(new_name(i, k[0] + "b"), kind=k, shape=shape, dep_def=True, size=8)
            s["defs"].append(mkdef(r.choice(objs), bind=r.choice(["global", "global", "weak"]),
                                   vis=r.choice(["default", "default", "protected"]), size=16, sec="data"))
        elif shape == "cb":
            k = r.choice(["func", "object"])
            s = add(new_name(i, k[0] + "r"), kind=k, shape=shape, dep_ref=True)
            s["defs"].append(mkdef(r.choice(objs), vis=r.choice(["default", "default", "protected"]), size=8, sec="data"))
    # references
    for name in order:
        s = syms[name]
        k = s["kind"]
        nref = r.choice([0, 1, 1, 1, 2, 3])
        if s["shape"] == "member" and r.random() < 0.85:
            nref = max(nref, 1)
        if s["shape"] == "import":
            nref = max(nref, 1) if r.random() < 0.9 else 0
        for j in range(nref):
            if s["shape"] == "member" and j == 0:
                u = r.choice(objs)
            else:
                u = r.choice(units)
            hows = {"func": ["call", "call", "quad", "got"], "ifunc": ["call"], "object": ["quad", "got", "got"],
                    "notype": ["quad", "got"], "common": ["quad", "got"], "abs": ["quad"], "tls": ["tls"]}[k]
            how = r.choice(hows)
            if s["shape"] == "import" and kind == "dyn" and k == "object" and r.random() < 0.4:
                how = "pc32"     # non-PIC direct access to library data: copy relocation
            vis = "default"
            weak = False
            local_only = s["shape"] not in ("import", "both", "cb")
            if local_only and r.random() < 0.25:
                vis = r.choice(["hidden", "protected", "protected", "internal"])
            if s["shape"] not in ("member", "import") and r.random() < 0.1:
                weak = True
            s["refs"].append(dict(unit=u["name"], how=how, vis=vis, weak=weak))
    # what _start refers to (executables)
    start_refs = []
    if not shared:
        for name in order:
            s = syms[name]
            if s["kind"] in ("abs",):
                continue
            if r.random() < 0.45:
                how = {"func": "call", "ifunc": "call", "tls": "tls"}.get(s["kind"], "got")
                start_refs.append((name, how))
    # options
    opts = []
    exportable_kind = kind != "static"
    c = r.random()
    if c < 0.22:
        opts.append(("E",))
    elif c < 0.34:
        opts.append(("eds", pick_patterns(r, order, 1, 2)))
    elif c < 0.44:
        opts.append(("edsl", pick_patterns(r, order, 1, 3)))
    elif c < 0.54:
        opts.append(("dl", pick_patterns(r, order, 1, 3)))
    if archives and r.random() < 0.45:
        opts.append(("xl", "ALL" if r.random() < 0.5 else r.choice(archives)))
    if exportable_kind and r.random() < (0.4 if shared else 0.15):
        glob = pick_patterns(r, order, 0, 3)
        star = r.random() < 0.6
        loc = [] if star else [n for n in r.sample(order, min(len(order), r.randint(1, 3)))
                               if not any(fnmatch.fnmatchcase(n, g) for g in glob)]
        if star or loc:
            opts.append(("vs", dict(node=r.choice([None, "V1"]), globals=glob, local_star=star, locals=loc)))
            if not shared and not any(o[0] == "E" for o in opts) and r.random() < 0.7:
                opts.append(("E",))
    c = r.random()
    if c < 0.08:
        opts.append(("strip", "-s"))
    elif c < 0.16:
        opts.append(("strip", "-S"))
    elif c < 0.28:
        opts.append(("retain", sorted(r.sample(order, min(len(order), r.randint(1, 5))))))
    elif c < 0.34:
        opts.append(("strip", "-x"))
    elif c < 0.38:
        opts.append(("strip", "-X"))
    link_order = [u["name"] for u in objs[1:]] + (["DEP"] if has_dep else [])
    r.shuffle(link_order)
    link_order = [objs[0]["name"]] + link_order
    return dict(kind=kind, gc=gc, units=units, archives=archives, syms=syms, order=order, start_refs=start_refs,
                opts=opts, link_order=link_order, has_dep=has_dep)


def pick_patterns(r, names, lo, hi):
    out = []
    for _ in range(r.randint(lo, hi)):
        c = r.random()
        if c < 0.5 and names:
            out.append(r.choice(names))
        elif c < 0.8:
            out.append(r.choice(PREFIXES) + "*")
        elif names:
            n = r.choice(names)
            out.append(n[:3] + "*")
        else:
            out.append("zz*")
    return sorted(set(out))


# ------------------------------------------------------------------------------------------------
# assembly emission
# ------------------------------------------------------------------------------------------------

def ref_code(name, how):
    return {"call": f"    call {name}@PLT", "got": f"    mov {name}@GOTPCREL(%rip), %rax",
            "tls": f"    mov {name}@gottpoff(%rip), %rax", "pc32": f"    mov {name}(%rip), %eax"}[how]


def emit_unit(case, u, tag):
    syms = case["syms"]
    uname = u["name"]
    L = [f"# C31 {tag} unit {uname}", '.section .note.GNU-stack,"",@progbits', f'.file "{uname}.c"']
    mydefs = [(n, d) for n in case["order"] for d in syms[n]["defs"] if d["unit"] == uname]
    myrefs = [(n, rf) for n in case["order"] for rf in syms[n]["refs"] if rf["unit"] == uname]
    defined_here = {n for n, _ in mydefs}
    # symbol attributes of pure references
    seen = set()
    for n, rf in myrefs:
        if n in defined_here or n in seen:
            continue
        seen.add(n)
        if rf["weak"]:
            L.append(f".weak {n}")
        if rf["vis"] != "default":
            L.append(f".{rf['vis']} {n}")
    # distribute references over holders
    code_holders = [n for n, d in mydefs if syms[n]["kind"] in ("func", "ifunc")]
    data_holders = [n for n, d in mydefs if (syms[n]["kind"] == "object" and d["sec"] == "data") or syms[n]["kind"] == "notype"]
    hr = rng("C31-holders", tag, uname)
    held = {}
    anchor_code, anchor_data = [], []
    for n, rf in myrefs:
        if rf["how"] == "quad":
            cands = [h for h in data_holders if h != n]
            if cands and hr.random() < 0.7:
                held.setdefault(hr.choice(cands), []).append((n, rf["how"]))
            else:
                anchor_data.append((n, rf["how"]))
        else:
            cands = [h for h in code_holders if h != n]
            if cands and hr.random() < 0.7:
                held.setdefault(hr.choice(cands), []).append((n, rf["how"]))
            else:
                anchor_code.append((n, rf["how"]))
    is_first = uname == case["units"][0]["name"]
    shared = case["kind"].startswith("shared")
    if is_first and not shared:
        L += [".text", ".globl _start", "_start:"]
        L += [ref_code(n, how) for n, how in case["start_refs"]]
        L += [f"    lea l_{uname}_anchor(%rip), %rax", "    mov $60, %eax", "    xor %edi, %edi", "    syscall"]
    # local symbols + anchors
    L += [f'.section .text.anchor_{uname},"ax",@progbits', f".type l_{uname}_anchor,@function", f"l_{uname}_anchor:"]
    L += [ref_code(n, how) for n, how in anchor_code]
    if anchor_data:
        L.append(f"    lea l_{uname}_data(%rip), %rax")
    L += ["    ret", f".size l_{uname}_anchor, .-l_{uname}_anchor"]
    L += [f'.section .data.anchor_{uname},"aw",@progbits', ".balign 8", f".type l_{uname}_data,@object", f"l_{uname}_data:"]
    L += [f"    .quad {n}" for n, how in anchor_data] + ["    .quad 0", f".size l_{uname}_data, .-l_{uname}_data"]
    for n, d in mydefs:
        s = syms[n]
        k = s["kind"]
        bind = ".weak" if d["bind"] == "weak" else ".globl"
        visl = [f".{d['vis']} {n}"] if d["vis"] != "default" else []
        refs = held.get(n, [])
        if k in ("func", "ifunc"):
            sec = f'.section .text.{n},"ax",@progbits' if u["fsec"] else ".text"
            typ = "@gnu_indirect_function" if k == "ifunc" else "@function"
            L += [sec, f"{bind} {n}", *visl, f".type {n},{typ}", f"{n}:"]
            L += [ref_code(x, how) for x, how in refs]
            if k == "ifunc":
                L.append(f"    lea l_{uname}_anchor(%rip), %rax")
            L += ["    ret"] + ["    nop"] * (d["size"] // 4) + [f".size {n}, .-{n}"]
        elif k in ("object", "notype"):
            secname = d["sec"] if k == "object" else "data"
            if secname == "bss":
                sec = f'.section .bss.{n},"aw",@nobits' if u["fsec"] else ".bss"
            elif secname == "rodata":
                sec = f'.section .rodata.{n},"a",@progbits' if u["fsec"] else '.section .rodata,"a",@progbits'
            else:
                sec = f'.section .data.{n},"aw",@progbits' if u["fsec"] else ".data"
            L += [sec, ".balign 8", f"{bind} {n}", *visl]
            if k == "object":
                L.append(f".type {n},@object")
            L.append(f"{n}:")
            if secname == "bss":
                L.append(f"    .zero {d['size']}")
                size = d["size"]
            else:
                L += [f"    .quad {x}" for x, how in refs]
                pad = max(d["size"] - 8 * len(refs), 0)
                if pad or not refs:
                    L.append(f"    .zero {pad or 8}")
                size = 8 * len(refs) + (pad or (0 if refs else 8))
            if k == "object":
                L.append(f".size {n}, {size}")
        elif k == "tls":
            if d["sec"] == "tbss":
                sec = f'.section .tbss.{n},"awT",@nobits' if u["fsec"] else '.section .tbss,"awT",@nobits'
            else:
                sec = f'.section .tdata.{n},"awT",@progbits' if u["fsec"] else '.section .tdata,"awT",@progbits'
            L += [sec, ".balign 4", f"{bind} {n}", *visl, f".type {n},@object", f"{n}:", f"    .zero {d['size']}", f".size {n}, {d['size']}"]
        elif k == "common":
            if d["sec"] == "common":
                L += [f".comm {n},{d['size']},{min(d['size'], 16) if d['size'] in (4, 8, 16, 32) else 8}", *visl]
            else:
                sec = (f'.section .bss.{n},"aw",@nobits' if u["fsec"] else ".bss") if d["sec"] == "bss" else \
                      (f'.section .data.{n},"aw",@progbits' if u["fsec"] else ".data")
                L += [sec, ".balign 8", f".globl {n}", *visl, f".type {n},@object", f"{n}:", f"    .zero {d['size']}", f".size {n}, {d['size']}"]
        elif k == "abs":
            L += [f".globl {n}", *visl, f"{n} = 0x{0x1000 + 16 * len(L):x}"]
    return "\n".join(L) + "\n"


def emit_dep(case, tag):
    syms = case["syms"]
    L = [f"# C31 {tag} dependency library", '.section .note.GNU-stack,"",@progbits', ".text",
         ".globl dep_entry", ".type dep_entry,@function", "dep_entry:"]
    for n in case["order"]:
        s = syms[n]
        if s.get("dep_ref"):
            L.append(ref_code(n, "call" if s["kind"] == "func" else "got"))
    L += ["    ret", ".size dep_entry, .-dep_entry"]
    for n in case["order"]:
        s = syms[n]
        if not s.get("dep_def"):
            continue
        k = s["kind"]
        if k == "func":
            L += [".text", f".globl {n}", f".type {n},@function", f"{n}:", "    ret", f".size {n}, .-{n}"]
        elif k == "object":
            L += [".data", ".balign 8", f".globl {n}", f".type {n},@object", f"{n}:", f"    .zero {s['size']}", f".size {n}, {s['size']}"]
        else:
            L += ['.section .tdata,"awT",@progbits', ".balign 4", f".globl {n}", f".type {n},@object", f"{n}:",
                  f"    .zero {s['size']}", f".size {n}, {s['size']}"]
    return "\n".join(L) + "\n"


def list_file(pats):
    return "{\n" + "".join(f"  {p};\n" for p in pats) + "};\n"


def vs_file(vs):
    body = ""
    if vs["globals"]:
        body += "  global: " + " ".join(p + ";" for p in vs["globals"]) + "\n"
    loc = (["*"] if vs["local_star"] else []) + vs["locals"]
    if loc:
        body += "  local: " + " ".join(p + ";" for p in loc) + "\n"
    return (vs["node"] + " " if vs["node"] else "") + "{\n" + body + "};\n"


# ------------------------------------------------------------------------------------------------
# building and linking
# ------------------------------------------------------------------------------------------------

class Built:
    pass


def build_case(ctx, case, d, tag):
    b = Built()
    b.d = d
    b.srcs = {}
    b.obj = {}
    for u in case["units"]:
        src = emit_unit(case, u, tag)
        b.srcs[u["name"] + ".s"] = src
        p = os.path.join(d, u["name"] + ".o")
        o = cc(ctx, src, (), "s")
        # private copy: the layout file names inputs by path, and names must be stable in the replay
        write(p, open(o, "rb").read())
        b.obj[u["name"]] = p
    b.archives = {}
    for an in case["archives"]:
        mem = [b.obj[u["name"]] for u in case["units"] if u["where"] == an]
        b.archives[an] = make_archive(os.path.join(d, an), mem)
    b.dep = None
    steps = [f"gcc -c {u['name']}.s -o {u['name']}.o" for u in case["units"]]
    for an in case["archives"]:
        steps.append(f"ar rcs {an} " + " ".join(u["name"] + ".o" for u in case["units"] if u["where"] == an))
    if case["has_dep"]:
        src = emit_dep(case, tag)
        b.srcs["dep.s"] = src
        o = cc(ctx, src, (), "s")
        p = os.path.join(d, "dep.o")
        write(p, open(o, "rb").read())
        b.dep = os.path.join(d, "libdep.so")
        r = tools.link("ld", ["-shared", "-soname", "libdep.so", "--hash-style=gnu", p, "-o", tools.fresh(b.dep)], timeout=300)
        if r.timed_out:
            return None
        if not r.ok:
            raise HarnessError(f"dependency library did not link: {r.errtext()[:500]}\n{src}")
        steps += ["gcc -c dep.s -o dep.o", "ld.bfd -shared -soname libdep.so --hash-style=gnu dep.o -o libdep.so"]
    b.aux = {}
    args = []
    kind = case["kind"]
    if kind in ("pie", "pie-dyn"):
        args.append("-pie")
    elif kind.startswith("shared"):
        args.append("-shared")
    if kind in ("dyn", "pie-dyn"):
        args.append("--dynamic-linker=/lib64/ld-linux-x86-64.so.2")
    args.append("--gc-sections" if case["gc"] else "--no-gc-sections")
    args += ["--hash-style=gnu", "--build-id=none"]
    for o in case["opts"]:
        if o[0] == "E":
            args.append("-E")
        elif o[0] == "eds":
            args += [f"--export-dynamic-symbol={p}" for p in o[1]]
        elif o[0] == "edsl":
            b.aux["export.list"] = list_file(o[1])
            args.append("--export-dynamic-symbol-list=export.list")
        elif o[0] == "dl":
            b.aux["dynamic.list"] = list_file(o[1])
            args.append("--dynamic-list=dynamic.list")
        elif o[0] == "xl":
            args += ["--exclude-libs", o[1]]
        elif o[0] == "vs":
            b.aux["version.script"] = vs_file(o[1])
            args.append("--version-script=version.script")
        elif o[0] == "strip":
            args.append(o[1])
        elif o[0] == "retain":
            b.aux["retain.txt"] = "".join(n + "\n" for n in o[1])
            args += ["--retain-symbols-file", "retain.txt"]
    for n, t in b.aux.items():
        write(os.path.join(d, n), t)
    for x in case["link_order"]:
        args.append("libdep.so" if x == "DEP" else x + ".o")
    if case["archives"]:
        args += ["--start-group", *case["archives"], "--end-group"]
    b.args = args
    b.steps = steps
    return b


def do_link(b, linker, extra=()):
    out = os.path.join(b.d, "out." + linker)
    tools.fresh(out)
    env = {"WILD_WRITE_LAYOUT": "1"} if linker == "wild" else None
    res = tools.link(linker, [*b.args, *extra, "-o", "out." + linker], cwd=b.d, timeout=300, extra_env=env)
    return res, out


def replay_files(b, case, extra=None):
    sh = "#!/bin/sh\n# WILD=/verif/.build/hook/opt/wild\nset -x\n" + "\n".join(b.steps) + "\n"
    for l, exe in (("wild", "$WILD"), ("ld", "ld.bfd"), ("lld", "ld.lld")):
        sh += f"{exe} " + " ".join(b.args) + f" -o out.{l}\n"
    sh += "readelf -sW out.wild out.ld out.lld\n"
    f = dict(b.srcs)
    f.update(b.aux)
    f["repro.sh"] = sh
    if extra:
        f.update(extra)
    return f


# ------------------------------------------------------------------------------------------------
# model
# ------------------------------------------------------------------------------------------------

def most_constraining(vs):
    nz = [v for v in vs if v]
    return min(nz) if nz else 0


class Model:
    """What the statement says about the owned names, from the input objects' own symbol tables."""

    def __init__(self, case, b):
        self.case = case
        kind = case["kind"]
        self.shared = kind.startswith("shared")
        owned = set(case["order"])
        self.in_syms = {}      # unit -> {name: Symbol} non-local occurrences
        self.in_elf = {}
        for u in case["units"]:
            e = Elf(b.obj[u["name"]])
            self.in_elf[u["name"]] = e
            self.in_syms[u["name"]] = {sy.name: sy for sy in e.symtab() if sy.bind != E.STB_LOCAL and sy.name in owned}
        self.unit_where = {u["name"]: u["where"] for u in case["units"]}
        # which units are loaded
        loaded = [u["name"] for u in case["units"] if u["where"] == "obj"]
        loaded.sort(key=lambda n: case["link_order"].index(n))
        members = [u["name"] for u in case["units"] if u["where"] != "obj"]
        changed = True
        while changed:
            changed = False
            defined = {n for un in loaded for n, sy in self.in_syms[un].items() if sy.defined}
            wanted = {n for un in loaded for n, sy in self.in_syms[un].items()
                      if not sy.defined and sy.bind != E.STB_WEAK} - defined
            for m in members:
                if m in loaded:
                    continue
                if any(sy.defined and n in wanted for n, sy in self.in_syms[m].items()):
                    loaded.append(m)
                    changed = True
                    break
        self.loaded = loaded
        dep_defs = {n for n in owned if case["syms"][n].get("dep_def")} if case["has_dep"] else set()
        dep_refs = {n for n in owned if case["syms"][n].get("dep_ref")} if case["has_dep"] else set()
        self.names = {}
        for n in case["order"]:
            occ = [(un, self.in_syms[un][n]) for un in loaded if n in self.in_syms[un]]
            if not occ:
                continue
            defs = [(un, sy) for un, sy in occ if sy.defined]
            strong = [(un, sy) for un, sy in defs if sy.bind == E.STB_GLOBAL and sy.shndx != E.SHN_COMMON]
            commons = [(un, sy) for un, sy in defs if sy.shndx == E.SHN_COMMON]
            weak = [(un, sy) for un, sy in defs if sy.bind == E.STB_WEAK]
            info = dict(name=n, occ=occ, vis=most_constraining([sy.vis for _, sy in occ]), winner=None, common=False,
                        import_=False, unresolved=False, defvis=sorted({VISNAME[sy.vis] for _, sy in defs}),
                        refvis=sorted({VISNAME[sy.vis] for _, sy in occ if not sy.defined}),
                        shape=case["syms"][n]["shape"], kind=case["syms"][n]["kind"])
            if strong:
                info["winner"] = strong[0]
            elif commons:
                info["winner"] = max(commons, key=lambda x: x[1].size)
                info["common"] = True
                info["size"] = max(sy.size for _, sy in commons)
            elif weak:
                info["winner"] = weak[0]
            elif n in dep_defs:
                info["import_"] = True
            else:
                info["unresolved"] = True
            info["strong_ref"] = any(not sy.defined and sy.bind != E.STB_WEAK for _, sy in occ)
            self.names[n] = info
        # localisation / export rules
        self.opt = {o[0]: o[1] if len(o) > 1 else True for o in case["opts"]}
        self.dep_refs, self.dep_defs = dep_refs, dep_defs

    def localised_by(self, info):
        """'version-script' / 'exclude-libs' / None for a regular definition."""
        un, _ = info["winner"]
        xl = self.opt.get("xl")
        where = self.unit_where[un]
        if xl and where != "obj" and (xl == "ALL" or xl == where):
            return "exclude-libs"
        vs = self.opt.get("vs")
        if vs and self.case["kind"] != "static":
            n = info["name"]
            if n in vs["locals"]:
                return "version-script"
            if vs["local_star"] and n not in vs["globals"] and not any(fnmatch.fnmatchcase(n, g) for g in vs["globals"]):
                return "version-script"
        return None

    def listed(self, n):
        pats = []
        for k in ("eds", "edsl", "dl"):
            if k in self.opt:
                pats += self.opt[k]
        return any(n == p or fnmatch.fnmatchcase(n, p) for p in pats)

    def requested_by(self, info):
        n = info["name"]
        if "E" in self.opt:
            return "-E"
        if self.listed(n):
            return "export-list"
        if n in self.dep_refs or n in self.dep_defs:
            return "library-refers"
        return "shared" if self.shared else "nothing"

    def export_class(self, info):
        """('required'|'forbidden'|'open', reason)."""
        n = info["name"]
        kind = self.case["kind"]
        if kind == "static":
            return "forbidden", "static"
        if info["unresolved"]:
            return "open", "unresolved"
        if info["import_"]:
            return "open", "import"
        if info["vis"] in (VIS["hidden"], VIS["internal"]):
            src = ""
            if info["winner"][1].vis != info["vis"]:
                src = "-from-reference" if VISNAME[info["vis"]] in info["refvis"] else "-from-losing-definition"
            return "forbidden", "vis=" + VISNAME[info["vis"]] + src
        lb = self.localised_by(info)
        if lb:
            return "forbidden", "localised=" + lb
        if self.shared:
            return "required", "shared"
        if n in self.dep_refs or n in self.dep_defs:
            return "required", "library-refers"
        if "E" in self.opt:
            return "required", "-E"
        if self.listed(n):
            return "required", "export-list"
        return "forbidden", "exe-not-requested"


# ------------------------------------------------------------------------------------------------
# observations
# ------------------------------------------------------------------------------------------------

def sec_class(e, sy):
    if sy.shndx == E.SHN_ABS:
        return "ABS"
    if sy.shndx == E.SHN_UNDEF:
        return "UND"
    if sy.shndx == E.SHN_COMMON:
        return "COM"
    if sy.shndx >= len(e.sections):
        return f"BAD{sy.shndx}"
    s = e.sections[sy.shndx]
    if s.flags & E.SHF_TLS:
        return "tls"
    if s.flags & E.SHF_EXECINSTR:
        return "text"
    if s.flags & E.SHF_WRITE:
        return "bss" if s.type == E.SHT_NOBITS else "data"
    return "ro"


def observe(path, owned):
    """Owned-name view of an output file."""
    e = Elf(path)
    o = dict(elf=e, has_symtab=e.section_by_type(E.SHT_SYMTAB) is not None, symtab={}, dyn_def={}, dyn_und={}, dups=[])
    for sy in e.symtab():
        if sy.name in owned and sy.type not in (E.STT_SECTION, E.STT_FILE):
            if sy.defined:
                if sy.name in o["symtab"]:
                    o["dups"].append(sy.name)
                o["symtab"][sy.name] = sy
    for sy in e.dynsym():
        if sy.name in owned:
            (o["dyn_def"] if sy.defined else o["dyn_und"])[sy.name] = sy
    return o


def attrs(e, sy):
    return dict(type=TYPENAME.get(sy.type, str(sy.type)), bind=BINDNAME.get(sy.bind, str(sy.bind)),
                vis=VISNAME[sy.vis].upper(), sec=sec_class(e, sy), size=sy.size)


def structural(e):
    """Rules that need no model. Returns list of (rule, detail)."""
    bad = []
    st = e.section_by_type(E.SHT_SYMTAB)
    if st is None:
        return bad
    syms = e.symbols(st)
    first_global = next((i for i, sy in enumerate(syms) if sy.bind != E.STB_LOCAL), len(syms))
    if st.info != first_global:
        bad.append(("sh_info", f"sh_info={st.info} but first non-local symbol is #{first_global} of {len(syms)}"))
    late = [sy for sy in syms[first_global:] if sy.bind == E.STB_LOCAL]
    if late:
        bad.append(("local-after-global", f"local symbol {late[0].name!r} (#{late[0].index}) after first global #{first_global}"))
    seen = {}
    for sy in syms[first_global:]:
        if sy.bind == E.STB_LOCAL or not sy.name:
            continue
        if sy.name in seen:
            bad.append(("duplicate-global", f"global name {sy.name!r} at #{seen[sy.name]} and #{sy.index}"))
            break
        seen[sy.name] = sy.index
    if syms and (syms[0].name or syms[0].value or syms[0].info or syms[0].shndx):
        bad.append(("null-symbol", "symbol 0 is not the null symbol"))
    ds = e.section_by_type(E.SHT_DYNSYM)
    if ds is not None:
        dsy = e.symbols(ds)
        fg = next((i for i, sy in enumerate(dsy) if sy.bind != E.STB_LOCAL), len(dsy))
        if ds.info != fg:
            bad.append(("dynsym-sh_info", f".dynsym sh_info={ds.info} but first non-local is #{fg}"))
        names = [sy.name for sy in dsy[1:] if sy.name]
        # versioned symbols may legitimately repeat a name in .dynsym; owned names are unversioned
    return bad


def value_in_section(e, sy):
    """None if fine, else text."""
    if sy.shndx in (E.SHN_ABS, E.SHN_UNDEF, E.SHN_COMMON):
        return None
    if sy.shndx >= len(e.sections):
        return f"st_shndx {sy.shndx} out of range"
    s = e.sections[sy.shndx]
    if sy.type == E.STT_TLS:
        if not s.flags & E.SHF_TLS:
            return f"TLS symbol in non-TLS section {s.name}"
        tls = e.segs(E.PT_TLS)
        if not tls:
            return "TLS symbol but no PT_TLS"
        va = tls[0].vaddr + sy.value
        if sy.size == 0:
            # a zero-sized TLS symbol is a boundary marker of the TLS *segment* (_TLS_MODULE_BASE_ sits at the end of
            # the segment rounded up to its alignment, where GNU ld puts it too): judged against the padded segment
            al = max(tls[0].align, 1)
            end = (tls[0].vaddr + tls[0].memsz + al - 1) // al * al
            if tls[0].vaddr <= va <= end:
                return None
            return f"TLS boundary symbol value {va:#x} outside the padded TLS segment [{tls[0].vaddr:#x},{end:#x}]"
    else:
        va = sy.value
    if not (s.addr <= va and va + sy.size <= s.addr + s.size):
        return f"value {va:#x}+{sy.size} outside section {s.name} [{s.addr:#x},{s.addr + s.size:#x})"
    return None


# ------------------------------------------------------------------------------------------------
# the case
# ------------------------------------------------------------------------------------------------

def sym_shape(info):
    return f"{info['kind']}/{info['shape']}"


def one_case(ctx, i, pinned=None):
    case_id = f"pinned-{pinned['id']}" if pinned else str(i)
    tag = f"{ctx.seed}-{case_id}"
    if pinned:
        case = pinned["case"]
    else:
        r = rng("C31", ctx.seed, i)
        case = gen_case(r, ctx.quick)
    d = ctx.scratch.dir("case", case_id)
    b = build_case(ctx, case, d, tag)
    if b is None:
        return ctx.inconclusive("watchdog: dependency library link")
    owned = set(case["order"])
    M = Model(case, b)
    ctx.note("cases-run")
    ctx.note("kind:" + case["kind"])
    for o in case["opts"]:
        ctx.note("opt:" + (o[0] if o[0] != "strip" else o[1]))
    # reference links
    rl, ld_out = do_link(b, "ld")
    if rl.timed_out:
        return ctx.inconclusive("watchdog: GNU ld")
    if not rl.ok:
        ctx.note_set("ld-reject", rl.errtext().strip().split("\n")[0][-120:])
        return ctx.inconclusive("GNU ld rejects the case")
    rd, lld_out = do_link(b, "lld")
    rw, w_out = do_link(b, "wild")
    if rw.timed_out:
        return ctx.inconclusive("watchdog: wild")
    files = lambda: replay_files(b, case, {"wild.stderr": rw.errtext(), "case.json": _json(case)})  # noqa: E731
    if not rw.ok:
        err = rw.errtext()
        if "panicked" in err or rw.signal:
            return LIM.violation("wild-crash", f"wild crashed on inputs GNU ld links: {err.strip()[:300]}", case=case_id, files=files())
        ctx.note_set("wild-reject", err.strip().split("\n")[0][-160:])
        return ctx.inconclusive("wild rejects the case (clean error)")
    if SELFTEST:
        selftest_corrupt(w_out, SELFTEST, owned)
    try:
        W = observe(w_out, owned)
        Lo = observe(ld_out, owned)
        Do = observe(lld_out, owned) if rd.ok and not rd.timed_out else None
    except (E.ElfError, IndexError, ValueError) as ex:
        return LIM.violation("unreadable-output", f"output symbol tables unreadable: {ex}", case=case_id, files=files())
    nviol = [0]
    ncheck = [0]

    def viol(sig, desc, info=None):
        nviol[0] += 1
        LIM.violation(sig, desc, case=case_id, files=files(), info=info)

    outclass = "shared" if M.shared else ("static" if case["kind"] == "static" else "exe")
    # ---- (a) structure ------------------------------------------------------------------------
    ld_struct = {r_ for r_, _ in structural(Lo["elf"])}
    for rule, detail in structural(W["elf"]):
        if rule in ld_struct:
            ctx.inconclusive(f"rule {rule} also broken by GNU ld output")
            continue
        viol(f"structure:{rule}", f"wild output: {detail}")
    ncheck[0] += 1
    strip = M.opt.get("strip")
    if strip == "-s":
        if W["has_symtab"] and not Lo["has_symtab"]:
            viol("strip-all:symtab-present", "-s given but wild's output has a .symtab (GNU ld's has none)")
    elif not W["has_symtab"] and Lo["has_symtab"]:
        viol("symtab-missing", "wild's output has no .symtab although -s was not given")
    layout = None
    try:
        layout = tools.read_layout(w_out + ".layout")
    except Exception as ex:  # noqa: BLE001
        ctx.note("layout-unreadable")
        ctx.note_set("layout-error", str(ex)[:80])
    lay_by_unit = {}
    if layout:
        for f in layout["files"]:
            base = os.path.basename(f["path"])
            if f["member"]:
                lay_by_unit[(base, os.path.basename(f["member"]))] = f
            else:
                lay_by_unit[(base, None)] = f
    retain = M.opt.get("retain")

    def section_kept(info):
        """True/False from wild's layout file for the winning definition's input section; None if unknown."""
        if not layout or info["winner"] is None:
            return None
        un, isy = info["winner"]
        if isy.shndx in (E.SHN_ABS, E.SHN_COMMON):
            return None
        where = M.unit_where[un]
        lf = lay_by_unit.get((un + ".o", None) if where == "obj" else (where, un + ".o"))
        if lf is None or isy.shndx >= len(lf["sections"]):
            return None
        return lf["sections"][isy.shndx] is not None

    tls_seg = W["elf"].segs(E.PT_TLS)
    # ---- per-name checks ----------------------------------------------------------------------
    for n in case["order"]:
        info = M.names.get(n)
        wsy, lsy = W["symtab"].get(n), Lo["symtab"].get(n)
        dsy = Do["symtab"].get(n) if Do else None
        if n in W["dups"] and n not in Lo["dups"]:
            viol(f"symtab-duplicate:{case['syms'][n]['kind']}/{case['syms'][n]['shape']}",
                 f"{n} defined more than once in wild's .symtab")
        if info is None:
            # not in any loaded object: must be absent everywhere
            if wsy is not None and lsy is None and (Do is None or dsy is None):
                viol(f"symtab-extra:unloaded-member:{outclass}", f"{n} is defined only in an archive member nothing refers to, "
                     f"yet wild's .symtab defines it")
            continue
        if info["unresolved"]:
            ctx.note("skipped:unresolved-weak-undefined")
            continue
        shape = sym_shape(info)
        flagged = set()
        ctx.note_set("shapes", shape + ":" + "+".join(info["defvis"]) + ("/ref:" + "+".join(info["refvis"]) if info["refvis"] else ""))
        cls, why = M.export_class(info)
        w_in, l_in = n in W["dyn_def"], n in Lo["dyn_def"]
        if W["has_symtab"] and Lo["has_symtab"]:
            # presence (differential)
            if (wsy is None) != (lsy is None):
                refs_agree = Do is None or not Do["has_symtab"] or ((dsy is None) == (lsy is None))
                if not refs_agree:
                    ctx.note("open:presence(ld!=lld)")
                elif info["common"] and wsy is None and (case["gc"] or not info["strong_ref"]) and cls != "required":
                    # a common nothing (live) refers to and nothing exports: wild does not allocate it at all
                    ctx.note("open:unreferenced-common-not-allocated")
                elif case["gc"] and (wsy is not None or section_kept(info) is False):
                    # the linkers' garbage collectors differ on this section (C05's subject): wild kept a section the
                    # references dropped, or dropped one they kept and its symbol went with it
                    ctx.note("open:gc-precision-differs:" + ("wild-keeps-more" if wsy is not None else "wild-keeps-less"))
                elif info["import_"]:
                    # copy-relocated library data: where the copy is described is linker business
                    ctx.note("open:import-symtab-entry")
                elif wsy is not None and cls == "forbidden" and w_in and not l_in:
                    # kept only because it is (wrongly) exported, which is reported below
                    ctx.note("same-cause:retained-because-wrongly-exported")
                else:
                    lb = M.localised_by(info) if info["winner"] else None
                    sig = (f"symtab-{'missing' if wsy is None else 'extra'}:{shape}:vis={VISNAME[info['vis']]}:"
                           f"localised={lb or 'no'}:gc={'on' if case['gc'] else 'off'}:{outclass}"
                           + (":retain-file" if retain is not None else "") + (f":{strip}" if strip else ""))
                    viol(sig, f"{n}: {'absent from' if wsy is None else 'present in'} wild's .symtab but "
                         f"{'present in' if wsy is None else 'absent from'} GNU ld's"
                         + (" and lld's" if Do is not None else ""), info={"name": n})
            ncheck[0] += 1
            if wsy is not None and lsy is not None and not info["import_"]:
                wa, la = attrs(W["elf"], wsy), attrs(Lo["elf"], lsy)
                da = attrs(Do["elf"], dsy) if dsy is not None else None
                for k in ("type", "bind", "vis", "sec", "size"):
                    if wa[k] == la[k]:
                        continue
                    if da is not None and da[k] != la[k]:
                        ctx.note(f"open:{k}(ld!=lld)")
                        continue
                    if k == "vis" and ((wa["bind"] == "LOCAL" and wa["vis"] == "DEFAULT") or
                                       (la["bind"] == "LOCAL" and la["vis"] == "DEFAULT" and wa["vis"] == VISNAME[info["vis"]].upper())):
                        # GNU ld clears the visibility of a symbol it makes local; lld keeps it
                        ctx.note("open:vis-cleared-on-local-symbol(ld's-own-convention)")
                        continue
                    flagged.add(k)
                    viol(attr_sig(k, info, M, wa[k], outclass), f"{n}: .symtab {k} is {wa[k]} in wild's output, {la[k]} in GNU ld's"
                         + (" and lld's" if da is not None else "") + f" (wild {wa}, ld {la}; definitions {info['defvis']}, "
                         f"references {info['refvis']})", info={"name": n})
        # model checks on wild's entry (calibrated on ld's entry)
        if wsy is not None and info["winner"] is not None:
            un, isy = info["winner"]
            msgs_w = model_entry(W["elf"], wsy, info, isy, M)
            msgs_l = dict(model_entry(Lo["elf"], lsy, info, isy, M)) if lsy is not None else {}
            wa = attrs(W["elf"], wsy)
            for rule, detail in msgs_w:
                if rule in flagged:
                    continue         # the same attribute already differs from both reference linkers
                if rule in msgs_l:
                    ctx.note(f"open:model-{rule}(ld-too)")
                    continue
                viol(attr_sig(rule, info, M, wa[rule], outclass), f"{n}: {detail}", info={"name": n})
            bad = value_in_section(W["elf"], wsy)
            if bad:
                viol(f"value-outside-section:{shape}", f"{n}: {bad}")
            # exact final value from the layout side file
            if layout and not info["common"] and isy.shndx not in (E.SHN_ABS, E.SHN_COMMON):
                where = M.unit_where[un]
                key = (un + ".o", None) if where == "obj" else (where, un + ".o")
                lf = lay_by_unit.get(key)
                if lf is None:
                    ctx.note("layout:file-not-listed")
                elif isy.shndx < len(lf["sections"]) and lf["sections"][isy.shndx] is not None:
                    start, end = lf["sections"][isy.shndx]
                    want = start + isy.value
                    if wsy.type == E.STT_TLS and tls_seg:
                        want -= tls_seg[0].vaddr
                    ctx.note("value-checked-against-layout")
                    if want != wsy.value:
                        viol(f"value-wrong:{shape}", f"{n}: st_value {wsy.value:#x} but its input section was placed at "
                             f"{start:#x} and the input st_value is {isy.value:#x} (expected {want:#x})")
                else:
                    viol(f"symbol-of-discarded-section:{shape}", f"{n}: present in .symtab but the layout says its section was discarded")
            elif isy.shndx == E.SHN_ABS and wsy.value != isy.value:
                viol("value-wrong:abs", f"{n}: absolute symbol value {wsy.value:#x}, input says {isy.value:#x}")
        # ---- .dynsym ------------------------------------------------------------------------------
        d_in = (n in Do["dyn_def"]) if Do else None
        ctx.note("export-class:" + cls)
        if cls == "required" and not w_in:
            if not l_in or d_in is False:
                ctx.note("open:required-export-missing-in-a-reference-too")
            else:
                viol(f"dynsym-missing:{info['kind']}:vis={VISNAME[info['vis']]}:{why}:{outclass}",
                     f"{n} must be exported ({why}) and GNU ld exports it, but it is not defined in wild's .dynsym")
        elif cls == "forbidden" and w_in:
            if l_in or d_in:
                ctx.note("open:forbidden-export-present-in-a-reference-too")
            else:
                viol(f"dynsym-extra:{why}" + ("" if why.startswith("vis=") else f":requested-by={M.requested_by(info)}"),
                     f"{n} must not be exported ({why}); GNU ld does not export it, wild's .dynsym defines it")
        elif w_in != l_in and cls == "open":
            if d_in is not None and d_in != l_in:
                ctx.note("open:dynsym-membership(ld!=lld)")
            else:
                viol(f"dynsym-{'missing' if l_in else 'extra'}-def:{shape}:{why}:{outclass}",
                     f"{n}: defined in .dynsym of {'GNU ld' if l_in else 'wild'} only")
        # imports
        if info["import_"]:
            wu, lu = n in W["dyn_und"] or w_in, n in Lo["dyn_und"] or l_in
            du = (n in Do["dyn_und"] or n in Do["dyn_def"]) if Do else None
            if wu != lu:
                if du is not None and du != lu:
                    ctx.note("open:import-membership(ld!=lld)")
                else:
                    viol(f"dynsym-import-{'missing' if lu else 'extra'}:{info['kind']}:gc={'on' if case['gc'] else 'off'}:{outclass}",
                         f"{n} (provided by libdep.so): in .dynsym of {'GNU ld' if lu else 'wild'} only")
        elif not w_in and not l_in and (n in W["dyn_und"]) != (n in Lo["dyn_und"]):
            if Do is not None and (n in Do["dyn_und"]) != (n in Lo["dyn_und"]):
                ctx.note("open:undefined-dynsym-entry(ld!=lld)")
            else:
                viol(f"dynsym-undefined-entry:{shape}:{outclass}:wild={'yes' if n in W['dyn_und'] else 'no'}",
                     f"{n}: undefined .dynsym entry in {'wild' if n in W['dyn_und'] else 'GNU ld'}'s output only")
        # .dynsym twin agrees with .symtab
        if w_in and wsy is not None:
            t = W["dyn_def"][n]
            diffs = [k for k in ("value", "size", "type", "shndx") if getattr(t, k) != getattr(wsy, k)]
            if info["kind"] == "ifunc" and diffs:
                # an exported ifunc may be described as a FUNC at its PLT entry in .dynsym (GNU ld does so in both tables)
                ctx.note("open:ifunc-dynsym-entry-is-plt-func")
                diffs = [k for k in diffs if k == "size"]
            if t.vis != wsy.vis:
                diffs.append("vis")
            if diffs:
                viol(f"dynsym-differs-from-symtab:{'+'.join(diffs)}:{shape}",
                     f"{n}: .dynsym entry {t!r} vs .symtab entry {wsy!r}")
        ncheck[0] += 1
    # non-owned names in .dynsym of a shared object / exe: nothing hidden may leak
    for sy in W["elf"].dynsym():
        if sy.name and sy.name not in owned and sy.defined and sy.vis in (E.STV_HIDDEN, E.STV_INTERNAL):
            viol("dynsym-hidden-entry", f".dynsym defines {sy.name} with visibility {VISNAME[sy.vis]}")
            break
    feats = sorted({M.names[n]["shape"] for n in M.names} | {o[0] for o in case["opts"]})
    nontrivial = len(M.names) >= 4 and ncheck[0] >= 6
    fp = sha(_json(case))[:16]
    if nviol[0] == 0:
        ctx.held(fingerprint=fp, nontrivial=nontrivial,
                 sample=dict(kind=case["kind"], gc=case["gc"], opts=[o[0] for o in case["opts"]], names=len(M.names), features=feats)
                 if i is not None and isinstance(i, int) and i < 3 else None)
    else:
        ctx.note("cases-with-violations")


def attr_sig(k, info, M, got, outclass):
    """One signature per (attribute, cause), whichever oracle noticed it."""
    un, isy = info["winner"]
    lb = M.localised_by(info)
    if k == "vis":
        if got == VISNAME[isy.vis].upper() and isy.vis != info["vis"]:
            return f"symtab-vis:merged={VISNAME[info['vis']]}:wild=winning-definition's-own"
        return f"symtab-vis:winner={VISNAME[isy.vis]}:merged={VISNAME[info['vis']]}:wild={got}"
    if k == "bind":
        cause = ("localised-by-" + lb) if lb else ("vis=" + VISNAME[info["vis"]])
        return f"symtab-bind:{cause}:wild={'input-binding-kept' if got == BINDNAME.get(isy.bind) else got}"
    if k == "size":
        sizes = sorted({sy.size for _, sy in info["occ"] if sy.defined})
        rel = "winner" if got == isy.size else ("other-definition" if got in sizes else "neither")
        return f"symtab-size:{sym_shape(info)}:wild-has-size-of={rel}"
    return f"symtab-{k}:{sym_shape(info)}:{outclass}:wild={got}"


def model_entry(e, sy, info, isy, M):
    """Statement-level expectations on one output .symtab entry, from the winning input entry."""
    out = []
    want_type = E.STT_OBJECT if info["common"] else isy.type
    if sy.type != want_type:
        out.append(("type", f"type {TYPENAME.get(sy.type)} but the winning definition is {TYPENAME.get(want_type)}"))
    want_size = info.get("size", isy.size) if info["common"] else isy.size
    if sy.size != want_size:
        out.append(("size", f"size {sy.size} but the winning definition has {want_size}"))
    lb = M.localised_by(info)
    hidden = info["vis"] in (VIS["hidden"], VIS["internal"])
    ok_bind = {isy.bind}
    if lb or hidden:
        ok_bind = {E.STB_LOCAL} if lb else {isy.bind, E.STB_LOCAL}
    if sy.bind not in ok_bind:
        out.append(("bind", f"binding {BINDNAME.get(sy.bind)} but expected {'/'.join(BINDNAME[b] for b in sorted(ok_bind))}"
                    + (f" (localised by {lb})" if lb else "")))
    ok_vis = {info["vis"]}
    if sy.bind == E.STB_LOCAL:
        ok_vis.add(0)
    if sy.vis not in ok_vis:
        out.append(("vis", f"visibility {VISNAME[sy.vis]} but the most constraining visibility over all occurrences is "
                    f"{VISNAME[info['vis']]} (definitions: {info['defvis']}, references: {info['refvis']})"))
    return out


def _json(case):
    import json
    return json.dumps(case, sort_keys=True, default=str)


def selftest_corrupt(path, what, owned):
    """VERIF_SELFTEST=<fault>: damages wild's output before the oracle reads it (monitor self-validation)."""
    import struct
    e = Elf(path)
    data = bytearray(e.data)
    st = e.section_by_type(E.SHT_SYMTAB)
    if what == "shinfo" and st is not None:
        struct.pack_into("<I", data, e.e_shoff + 64 * st.index + 44, st.info + 1)
    for tab in ([st] if what != "dynvis" else [e.section_by_type(E.SHT_DYNSYM)]):
        if tab is None:
            continue
        for sy in e.symbols(tab):
            if sy.name in owned and sy.defined and sy.bind != E.STB_LOCAL:
                off = tab.offset + 24 * sy.index
                if what == "value" and sy.shndx != E.SHN_ABS:
                    struct.pack_into("<Q", data, off + 8, sy.value + 1)
                elif what == "size":
                    struct.pack_into("<Q", data, off + 16, sy.size + 8)
                elif what == "type":
                    data[off + 4] = (sy.info & 0xf0) | (E.STT_NOTYPE if sy.type != E.STT_NOTYPE else E.STT_OBJECT)
                elif what in ("vis", "dynvis"):
                    data[off + 5] = E.STV_HIDDEN if sy.vis != E.STV_HIDDEN else 0
                else:
                    continue
                break
    open(path, "wb").write(bytes(data))


# ------------------------------------------------------------------------------------------------
# pinned cases (defects seen on the unchanged tree are re-observed on every run)
# ------------------------------------------------------------------------------------------------

def _sym(kind, shape, defs, refs=(), **kw):
    return dict(kind=kind, shape=shape, defs=list(defs), refs=list(refs), **kw)


def _d(unit, bind="global", vis="default", size=8, sec="data"):
    return dict(unit=unit, bind=bind, vis=vis, size=size, sec=sec)


def _r(unit, how, vis="default", weak=False):
    return dict(unit=unit, how=how, vis=vis, weak=weak)


def pinned_cases():
    out = []

    def mk(pid, kind, syms, units=None, archives=(), opts=(), gc=False, start_refs=(), has_dep=False):
        units = units or [dict(name="u0", where="obj", fsec=True), dict(name="u1", where="obj", fsec=True)]
        for n, s in syms.items():
            s["name"] = n
        lo = [u["name"] for u in units if u["where"] == "obj"] + (["DEP"] if has_dep else [])
        out.append(dict(id=pid, case=dict(kind=kind, gc=gc, units=units, archives=list(archives), syms=syms, order=list(syms),
                                          start_refs=list(start_refs), opts=list(opts), link_order=lo, has_dep=has_dep)))
    # a default-visibility definition referenced from an object that declares it protected
    mk("protected-reference", "shared", {
        "ga0_f": _sym("func", "single", [_d("u0")], [_r("u1", "call", vis="protected")]),
        "ga1_o": _sym("object", "single", [_d("u0")], [_r("u1", "got", vis="protected")]),
        "gb2_f": _sym("func", "single", [_d("u0")], [_r("u1", "call")]),
        "gb3_o": _sym("object", "single", [_d("u1", vis="protected")], [_r("u0", "got")]),
    })
    # hidden / internal definitions in a shared object and a PIE
    for k in ("shared", "pie"):
        mk("hidden-binding-" + k, k, {
            "ga0_f": _sym("func", "single", [_d("u0", vis="hidden")], [_r("u1", "call")]),
            "ga1_o": _sym("object", "single", [_d("u0", vis="internal")], [_r("u1", "got")]),
            "gb2_f": _sym("func", "single", [_d("u0")], [_r("u1", "call", vis="hidden")]),
            "gb3_o": _sym("object", "single", [_d("u1")], [_r("u0", "got")]),
        }, start_refs=[("ga0_f", "call"), ("gb3_o", "got")] if k == "pie" else ())
    # weak definition first, strong definition second, hidden reference third: must not be exported
    u3 = [dict(name=f"u{i}", where="obj", fsec=True) for i in range(3)]
    mk("hidden-reference-weak-strong", "shared", {
        "ga0_fw": _sym("func", "weak+strong", [_d("u0", bind="weak"), _d("u1", size=16)], [_r("u2", "quad", vis="hidden")]),
        "ga1_f": _sym("func", "single", [_d("u0")], [_r("u2", "quad", vis="hidden")]),
        "gb2_o": _sym("object", "single", [_d("u1")], [_r("u2", "quad")]),
        "gb3_o": _sym("object", "single", [_d("u2")], [_r("u0", "got")]),
    }, units=u3)
    # --exclude-libs
    ux = [dict(name="u0", where="obj", fsec=True), dict(name="xm0", where="libx.a", fsec=True)]
    for k, opts in (("shared", [("xl", "ALL")]), ("pie", [("xl", "libx.a"), ("E",)])):
        mk("exclude-libs-" + k, k, {
            "ga0_f": _sym("func", "member", [_d("xm0")], [_r("u0", "call")]),
            "ga1_o": _sym("object", "member", [_d("xm0")], [_r("u0", "got")]),
            "gb2_f": _sym("func", "single", [_d("u0")], [_r("xm0", "call")]),
            "gb3_o": _sym("object", "single", [_d("u0", vis="protected")], []),
        }, units=ux, archives=["libx.a"], opts=opts, start_refs=[("ga0_f", "call"), ("gb2_f", "call")] if k == "pie" else ())
    # version script local: * with a few globals
    mk("version-script-local", "shared", {
        "ga0_f": _sym("func", "single", [_d("u0")], [_r("u1", "call")]),
        "ga1_o": _sym("object", "single", [_d("u0")], [_r("u1", "got")]),
        "gb2_f": _sym("func", "single", [_d("u0", bind="weak")], [_r("u1", "call")]),
        "gb3_c": _sym("common", "common", [_d("u1", size=16, sec="common")], []),
    }, opts=[("vs", dict(node="V1", globals=["ga*"], local_star=True, locals=[]))])
    # commons
    mk("commons", "pie", {
        "ga0_c": _sym("common", "common+common", [_d("u0", size=4, sec="common"), _d("u1", size=32, sec="common")], [_r("u0", "got")]),
        "ga1_c": _sym("common", "common+strong", [_d("u0", size=16, sec="common"), _d("u1", size=24, sec="bss")], [_r("u0", "got")]),
        "gb2_c": _sym("common", "common", [_d("u1", size=40, sec="common")], []),
        "gb3_f": _sym("func", "single", [_d("u1")], [_r("u0", "call")]),
    }, opts=[("E",)], start_refs=[("gb3_f", "call"), ("ga0_c", "got")])
    return out


def all_values_in_sections(e):
    """value_in_section over every defined symbol of .symtab; returns list of (name, text)."""
    bad = []
    loads = e.loads()
    lo = min((p.vaddr for p in loads), default=0)
    first = min((s.addr for s in e.sections if s.index and s.alloc and s.addr and s.type != E.SHT_NULL), default=0)
    for sy in e.symtab():
        if sy.type in (E.STT_SECTION, E.STT_FILE) or not sy.name:
            continue
        if sy.shndx in (E.SHN_ABS, E.SHN_UNDEF, E.SHN_COMMON) or sy.shndx >= len(e.sections):
            continue
        if lo <= sy.value < first:
            continue     # a symbol for the file/program headers (__ehdr_start ...): no section contains them
        s_ = e.sections[sy.shndx]
        if sy.type == E.STT_TLS:
            t = value_in_section(e, sy)
            if t:
                bad.append((sy.name, t))
            continue
        # linker-defined boundary symbols may sit at either end of the section they name
        if not (s_.addr <= sy.value <= s_.addr + s_.size):
            bad.append((sy.name, f"value {sy.value:#x} outside section {s_.name} [{s_.addr:#x},{s_.addr + s_.size:#x}]"))
    return bad


def program_case(ctx, j):
    """Structure rules on real gcc-driven links of proggen programs (crt files, libc, C++)."""
    from vlib import proggen as pg
    r = rng("C31-prog", ctx.seed, j)
    prog = pg.gen_program(r)
    cm = r.choice(pg.CODE_MODELS)
    kind = r.choice(prog.kinds(cm))
    gc = r.random() < 0.5
    extra = r.choice([(), (), ("-Wl,-S",), ("-Wl,-E",), ("-Wl,-x",)])
    built = prog.build(ctx, cm, shared=(kind == "shared"))
    outs = {}
    for linker in ("ld", "wild"):
        d = ctx.scratch.dir("prog", j, linker)
        lr = pg.link_and_run(ctx, linker, prog, built, kind, extra_link_args=extra, workdir=d, gc=gc, run_it=False,
                             link_timeout=600)
        if lr.link is None or lr.link.timed_out or (lr.lib_link is not None and lr.lib_link.timed_out):
            return ctx.inconclusive("watchdog: program link")
        if not lr.link.ok or (lr.lib_link is not None and not lr.lib_link.ok):
            return ctx.inconclusive(f"program does not link with {linker}")
        outs[linker] = [lr.out] + ([lr.lib] if lr.lib else [])
    ctx.note("program-kind:" + kind)
    nv = 0
    for wp, lp in zip(outs["wild"], outs["ld"]):
        we, le = Elf(wp), Elf(lp)
        which = "lib" if wp.endswith(".so") else "exe"
        ld_rules = {r_ for r_, _ in structural(le)}
        for rule, detail in structural(we):
            if rule in ld_rules:
                ctx.inconclusive(f"rule {rule} also broken by GNU ld output")
                continue
            nv += 1
            LIM.violation(f"structure:{rule}", f"gcc-linked {kind} program ({which}): {detail}", case=f"prog-{j}",
                          files={"how.txt": f"proggen program rng=('C31-prog',{ctx.seed},{j}) code model {cm} kind {kind} gc={gc} extra={extra}\n"
                                 + pg.command_text(ctx, "wild", prog, lr), os.path.basename(wp): wp})
        lbad = all_values_in_sections(le)
        wbad = all_values_in_sections(we)
        lnames = {n for n, _ in lbad}
        if any(n in lnames for n, _ in wbad):
            ctx.note("open:value-in-section-broken-by-ld-for-the-same-name")
        wbad = [(n, t) for n, t in wbad if n not in lnames]
        if wbad:
            nv += 1
            name, text = wbad[0]
            synth = "owned" if name.startswith(("pg_", "u", "rt_")) else "other"
            LIM.violation("value-outside-section:program", f"gcc-linked {kind} program ({which}): {name}: {text} ({len(wbad)} symbols)",
                          case=f"prog-{j}", files={"how.txt": pg.command_text(ctx, "wild", prog, lr), os.path.basename(wp): wp},
                          info={"symbols": [n for n, _ in wbad[:20]], "class": synth})
        for sy in we.dynsym():
            if sy.name and sy.defined and sy.vis in (E.STV_HIDDEN, E.STV_INTERNAL):
                nv += 1
                LIM.violation("dynsym-hidden-entry", f"gcc-linked {kind} program ({which}): .dynsym defines {sy.name} with visibility "
                              f"{VISNAME[sy.vis]}", case=f"prog-{j}", files={os.path.basename(wp): wp})
                break
        ctx.note("program-symbols-checked", len(we.symtab()))
    if nv == 0:
        ctx.held(fingerprint=f"prog:{sha(repr(sorted(prog.features)) + cm + kind + str(gc) + repr(extra))[:12]}:{j}", nontrivial=True)


def main(ctx):
    global LIM
    LIM = SigLimiter(ctx, 2)
    ctx.rule = ("generated freestanding asm programs (2-4 objects, 0-2 archives, optional dependency library) x output kind x "
                "explicit GC setting x export/strip options; a case counts when GNU ld and wild both link it, >= 4 owned "
                "names are in loaded objects and every per-name rule was evaluated; distinct = distinct (program, options)")
    ctx.assumptions = ["GNU ld 2.40 is the reference; attributes on which GNU ld and ld.lld 14 disagree are open",
                       "input objects' own symbol tables (read back from the assembler's output) are the ground truth for "
                       "type/size/binding/visibility of each definition", "WILD_WRITE_LAYOUT placement is trusted for the exact "
                       "final value", "unreferenced commons that nothing exports and unresolved weak undefined names are outside "
                       "the statement"]
    tools.wild()
    n = ctx.pick(70, 900)
    jobs = [("p", p) for p in pinned_cases()] + [("g", i) for i in range(n)] + [("P", j) for j in range(ctx.pick(8, 40))]
    if ctx.replay is not None:
        c = str(ctx.replay.get("case"))
        jobs = [j for j in jobs if (j[0] == "p" and c == f"pinned-{j[1]['id']}") or (j[0] == "g" and c == str(j[1]))
                or (j[0] == "P" and c == f"prog-{j[1]}")]

    def go(j):
        if j[0] == "p":
            one_case(ctx, None, pinned=j[1])
        elif j[0] == "P":
            program_case(ctx, j[1])
        else:
            one_case(ctx, j[1])
    pmap(go, jobs)
