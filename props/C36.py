"""C36 Stack and GNU property notes are merged as in GNU ld.

Oracle: differential with GNU ld 2.40 on the same inputs and options - PT_GNU_STACK flags, and the
property list (pr_type -> data) of the output .note.gnu.property - plus the statement's model
(stack executable iff -z execstack, or no -z noexecstack and a loaded input asks for it or lacks
.note.GNU-stack; AND-class bits ANDed over all loaded relocatable inputs where an input without the
note clears them, OR-class bits ORed, OR_AND-class present only when every input has it). A
difference is a violation when GNU ld agrees with the model, otherwise inconclusive.
Workload: 1-6 asm units with .note.GNU-stack present / absent / "x" and hand-encoded
.note.gnu.property notes, as objects, archive members (extracted or not) and GNU-ld-built shared
libraries, in random order, static / PIE / shared outputs, -z execstack/noexecstack, -z x86-64-vN.
"""
import os
import struct

from vlib import tools
from vlib.elf import Elf, PT_GNU_STACK, PT_GNU_PROPERTY
from vlib.common import pmap, rng, write

LEVEL = "exploration"

FEATURE_1_AND = 0xc0000002      # X86 AND class (IBT=1, SHSTK=2, LAM_U48=4, LAM_U57=8)
ISA_1_NEEDED = 0xc0008002       # X86 OR class
FEATURE_2_USED = 0xc0010001     # X86 OR_AND class
ISA_1_USED = 0xc0010002         # X86 OR_AND class
GNU_1_NEEDED = 0xb0008000       # generic OR class
GENERIC_AND = 0xb0000000        # generic AND class (no assigned meaning)
STACK_SIZE = 1                  # 8 byte datum; statement silent
NO_COPY_ON_PROTECTED = 2        # 0 byte datum; statement silent

NAMES = {FEATURE_1_AND: "X86_FEATURE_1_AND", ISA_1_NEEDED: "X86_ISA_1_NEEDED", FEATURE_2_USED: "X86_FEATURE_2_USED",
         ISA_1_USED: "X86_ISA_1_USED", GNU_1_NEEDED: "GNU_PROPERTY_1_NEEDED", GENERIC_AND: "UINT32_AND_LO",
         STACK_SIZE: "STACK_SIZE", NO_COPY_ON_PROTECTED: "NO_COPY_ON_PROTECTED"}


def pclass(t):
    if 0xc0000002 <= t <= 0xc0007fff or 0xb0000000 <= t <= 0xb0007fff:
        return "and"
    if 0xc0008000 <= t <= 0xc000ffff or 0xb0008000 <= t <= 0xb000ffff:
        return "or"
    if 0xc0010000 <= t <= 0xc0017fff:
        return "or_and"
    return None


def flagstr(f):
    if f is None:
        return "none"
    return ("R" if f & 4 else "") + ("W" if f & 2 else "") + ("E" if f & 1 else "")


# ---- generator -------------------------------------------------------------------------------------

def gen_props(r):
    """-> None (no section) or dict(align, notes=[[(type, bytes)]])"""
    c = r.random()
    if c < 0.22:
        return None
    notes = []
    seen = set()
    for _ in range(1 if r.random() < 0.8 else 2):
        props = []
        pool = [FEATURE_1_AND] * 4 + [ISA_1_NEEDED] * 3 + [FEATURE_2_USED] * 2 + [ISA_1_USED, GNU_1_NEEDED, GENERIC_AND]
        # the same type twice in one object is left open by the statement (GNU ld ORs them): rare
        dup_ok = r.random() < 0.15
        for t in sorted(set(r.choice(pool) for _ in range(r.choice([1, 1, 2, 3, 4])))):
            if t in seen and not dup_ok:
                continue
            seen.add(t)
            if t == FEATURE_1_AND:
                v = r.choice([1, 2, 3, 3, 3, 0, 7, 0xf])
            elif t == ISA_1_NEEDED:
                v = r.choice([1, 3, 7, 0xf, 2, 0, 8])
            elif t == GNU_1_NEEDED:
                v = r.choice([1, 0, 1])
            else:
                v = r.choice([0, 1, 3, 5, 0x80, 0xff])
            props.append((t, struct.pack("<I", v)))
        if r.random() < 0.08:
            props.insert(0, (STACK_SIZE, struct.pack("<Q", r.choice([0x10000, 0x200000]))))
        if r.random() < 0.05:
            props.insert(0, (NO_COPY_ON_PROTECTED, b""))
        props.sort(key=lambda p: p[0])
        notes.append(props)
    return dict(align=8 if r.random() < 0.9 else 4, notes=notes)


def props_asm(p):
    if p is None:
        return ""
    al = p["align"]
    out = [f'.section .note.gnu.property,"a",@note\n.balign {al}\n']
    for n, props in enumerate(p["notes"]):
        out.append(f".long 4\n.long 2{n}2f-2{n}1f\n.long 5\n.asciz \"GNU\"\n2{n}1:\n")
        for t, data in props:
            out.append(f".long {t:#x}\n.long {len(data)}\n")
            # ELF64 property data are padded to 8 bytes whatever the section alignment is
            padded = data + b"\0" * (-len(data) % 8)
            if padded:
                out.append(".byte " + ",".join(str(b) for b in padded) + "\n")
        out.append(f"2{n}2:\n")
    return "".join(out)


def unit_asm(k, stack, props, calls, salt=""):
    s = [f"# case {salt}\n.text\n"]     # the salt keeps cached objects private to a case
    if k == 0:
        s.append(".globl _start\n.type _start,@function\n_start:\n")
        for c in calls:
            s.append(f" call f{c}@PLT\n")
        s.append(" mov $60,%eax\n xor %edi,%edi\n syscall\n")
    else:
        s.append(f".globl f{k}\n.type f{k},@function\nf{k}: mov ${k},%eax\n ret\n")
    if stack == "present":
        s.append('.section .note.GNU-stack,"",@progbits\n')
    elif stack == "x":
        s.append('.section .note.GNU-stack,"x",@progbits\n')
    s.append(props_asm(props))
    return "".join(s)


def gen_case(r):
    nunits = r.choice([1, 2, 2, 3, 3, 4, 5, 6])
    mode = r.random()
    units = []
    for k in range(nunits):
        c = r.random()
        if mode < 0.35:
            stack = "present"           # property-focused cases (no stack noise)
        else:
            stack = "present" if c < 0.6 else "missing" if c < 0.85 else "x"
        cont = "obj"
        if k > 0:
            c = r.random()
            cont = "obj" if c < 0.55 else "ar-used" if c < 0.75 else "ar-unused" if c < 0.88 else "so-used" if c < 0.95 else "so-unused"
        units.append(dict(k=k, stack=stack, props=gen_props(r), cont=cont))
    zstack = r.choice([None] * 6 + ["execstack", "execstack", "noexecstack"])
    if any(u["stack"] == "x" for u in units) and zstack is None and r.random() < 0.5:
        zstack = "execstack"
    zisa = r.choice([None] * 8 + ["x86-64-v2", "x86-64-v3", "x86-64-v4"])
    kind = r.choice(["static", "static", "pie", "shared"])
    gc = r.choice(["--gc-sections", "--no-gc-sections"])
    order = list(range(1, nunits))
    r.shuffle(order)
    pos0 = r.randint(0, len(order)) if r.random() < 0.4 else 0
    order.insert(pos0, 0)
    # an archive that precedes the referencing object is never searched for it
    for u in units:
        if u["cont"] == "ar-used" and order.index(u["k"]) < order.index(0):
            u["cont"] = "ar-unused"
    return dict(units=units, zstack=zstack, zisa=zisa, kind=kind, gc=gc, order=order)


def describe(case):
    def pd(p):
        if p is None:
            return "-"
        return f"a{p['align']}[" + "|".join(",".join(f"{t:x}={d.hex()}" for t, d in n) for n in p["notes"]) + "]"
    us = " ".join(f"{u['k']}:{u['cont']}:{u['stack']}:{pd(u['props'])}" for u in (case["units"][i] for i in case["order"]))
    return f"{case['kind']} {case['gc']} z={case['zstack']} isa={case['zisa']} | {us}"


def build_inputs(ctx, case, d):
    """Returns the argument list (inputs only)."""
    units = case["units"]
    used = [u["k"] for u in units if u["cont"] in ("obj", "ar-used", "so-used") and u["k"] > 0]
    args = []
    for k in case["order"]:
        u = units[k]
        obj = tools.assemble(ctx, unit_asm(k, u["stack"], u["props"], used if k == 0 else [], os.path.basename(d)))
        u["obj"] = obj
        if u["cont"] == "obj":
            args.append(obj)
        elif u["cont"].startswith("ar"):
            a = os.path.join(d, f"lib{k}.a")
            tools.make_archive(a, [obj])
            args.append(a)
        else:
            so = os.path.join(d, f"libu{k}.so")
            if not os.path.exists(so):
                res = tools.link("ld", ["-shared", "-z", "noexecstack", obj, "-o", so, "-soname", f"libu{k}.so"])
                if not res.ok:
                    return None
            args.append(so)
    return args


def loaded_units(case):
    return [u for u in case["units"] if u["cont"] in ("obj", "ar-used")]


def model_stack(case):
    """Per the statement (GNU ld x86-64 defaults). Returns flags or None (no PT_GNU_STACK)."""
    if case["zstack"] == "execstack":
        return 7, "z-execstack"
    if case["zstack"] == "noexecstack":
        return 6, "z-noexecstack"
    lu = loaded_units(case)
    if any(u["stack"] == "x" for u in lu):
        return 7, "x-note"
    if all(u["stack"] == "missing" for u in lu):
        return None, "no-notes-at-all"
    if any(u["stack"] == "missing" for u in lu):
        return 7, "missing-note"
    return 6, "all-noexec"


def model_props(case):
    lu = loaded_units(case)
    per = []
    for u in lu:
        m = {}
        if u["props"] is not None:
            for n in u["props"]["notes"]:
                for t, data in n:
                    if len(data) != 4:
                        continue
                    v = struct.unpack("<I", data)[0]
                    if t in m:
                        m[t] = (m[t] & v) if pclass(t) == "and" else (m[t] | v)
                    else:
                        m[t] = v
        per.append(m)
    out = {}
    for t in sorted(set(t for m in per for t in m)):
        c = pclass(t)
        vals = [m[t] for m in per if t in m]
        every = all(t in m for m in per)
        if c == "and":
            v = 0xffffffff
            for x in vals:
                v &= x
            if every and v:
                out[t] = v
        elif c == "or":
            v = 0
            for x in vals:
                v |= x
            if v:
                out[t] = v
        elif c == "or_and":
            v = 0
            for x in vals:
                v |= x
            if every and v:
                out[t] = v
    if case["zisa"]:
        bit = {"x86-64-baseline": 1, "x86-64-v2": 2, "x86-64-v3": 4, "x86-64-v4": 8}[case["zisa"]]
        out[ISA_1_NEEDED] = out.get(ISA_1_NEEDED, 0) | bit
    return out


def observe(path):
    e = Elf(path)
    st = e.segs(PT_GNU_STACK)
    stack = st[0].flags if st else None
    props = {}
    sec = e.section(".note.gnu.property")
    raw = {}
    if sec is not None:
        for name, ntype, desc in e.notes(e.sec_data(sec), 8):
            if name == "GNU" and ntype == 5:
                off = 0
                while off + 8 <= len(desc):
                    pt, sz = struct.unpack_from("<II", desc, off)
                    off += 8
                    raw[pt] = desc[off:off + sz]
                    off += (sz + 7) & ~7
    for t, dta in raw.items():
        props[t] = dta
    has_seg = bool(e.segs(PT_GNU_PROPERTY))
    return stack, props, has_seg


def u32map(props, keep_zero=False):
    """pr_type -> value for the 4-byte properties. Zero-valued entries carry no bits (the statement
    speaks of bits) and are dropped; their presence is counted separately."""
    m = {t: struct.unpack("<I", d)[0] for t, d in props.items() if len(d) == 4}
    return m if keep_zero else {t: v for t, v in m.items() if v}


def fmt(m):
    return "{" + ", ".join(f"{NAMES.get(t, hex(t))}={v:#x}" for t, v in sorted(m.items())) + "}"


def link_args(case, inputs, out):
    a = []
    if case["kind"] == "pie":
        a += ["-pie"]
    elif case["kind"] == "shared":
        a += ["-shared"]
    a += [case["gc"]]
    if case["zstack"]:
        a += ["-z", case["zstack"]]
    if case["zisa"]:
        a += ["-z", case["zisa"]]
    return a + inputs + ["-o", out]


def run_case(ctx, cid, case):
    d = ctx.scratch.dir("c", cid)
    inputs = build_inputs(ctx, case, d)
    if inputs is None:
        return ctx.inconclusive("could not build an input shared library")
    desc = describe(case)
    lout = tools.fresh(os.path.join(d, "ld.out"))
    largs = link_args(case, inputs, lout)
    lres = tools.link("ld", largs)
    if lres.timed_out:
        return ctx.inconclusive("reference link timed out")
    if not lres.ok:
        ctx.note_set("ld-reject", lres.errtext().strip().splitlines()[0][-120:] if lres.errtext().strip() else "?")
        return ctx.inconclusive("reference linker rejected the case")
    wout = tools.fresh(os.path.join(d, "wild.out"))
    wargs = link_args(case, inputs, wout)
    inj = os.environ.get("VERIF_C36_INJECT")      # self-validation: a deliberately wrong option for wild only
    if inj == "execstack":
        wargs = ["-z", "execstack"] + wargs
    elif inj == "isa":
        wargs = ["-z", "x86-64-v4"] + wargs
    elif inj == "dropfirst" and len(inputs) > 1 and inputs[0].endswith(".o") and case["order"][0] != 0:
        wargs.remove(inputs[0])
    wres = tools.link("wild", wargs)
    files = {"inputs": d, "cmd.txt": "wild " + " ".join(wargs) + "\nld " + " ".join(largs) + "\n# " + desc + "\n"}
    for u in case["units"]:
        files[f"unit{u['k']}.o"] = u["obj"]
    if wres.timed_out:
        return ctx.inconclusive("wild link timed out")
    if not wres.ok:
        txt = wres.errtext()
        if "panicked" in txt or wres.signal:
            return ctx.violation("link-crash", f"wild crashed on inputs GNU ld accepts: {txt.strip()[:300]} [{desc}]", case=cid, files=files)
        if "requires executable stack" in txt:
            loaded_x = any(u["stack"] == "x" for u in loaded_units(case))
            ctx.note("wild-rejects-x-note:" + ("loaded-input" if loaded_x else "input-not-loaded") +
                     (":with-z-noexecstack" if case["zstack"] == "noexecstack" else ""))
            return ctx.inconclusive("wild rejects an executable-stack note without -z execstack (no output)")
        ctx.note_set("wild-reject", txt.strip()[:200])
        return ctx.inconclusive("wild rejected the case (no output)")
    try:
        lstack, lprops, lseg = observe(lout)
        wstack, wprops, wseg = observe(wout)
    except Exception as ex:  # unreadable output
        return ctx.violation("output-unreadable", f"{ex} [{desc}]", case=cid, files=files)
    # ---- stack
    mstack, cause = model_stack(case)
    ctx.note("stack-cause:" + cause)
    lx = lstack is None or bool(lstack & 1)
    wx = wstack is None or bool(wstack & 1)
    mx = mstack is None or bool(mstack & 1)
    if lx == wx:
        ctx.held(fingerprint="stack|" + desc, nontrivial=True,
                 sample={"case": desc, "ld_stack": flagstr(lstack), "wild_stack": flagstr(wstack)} if cid in (0, 1) else None)
    elif lx != mx:
        ctx.note_set("ld-vs-model-stack", f"{cause}:ld={flagstr(lstack)}:model={flagstr(mstack)}")
        ctx.inconclusive("stack: reference differs from the statement's model")
    else:
        ctx.violation(f"stack:{cause}:ld={flagstr(lstack)}:wild={flagstr(wstack)}",
                      f"PT_GNU_STACK differs from GNU ld ({cause}): ld {flagstr(lstack)}, wild {flagstr(wstack)} [{desc}]",
                      case=cid, files=files, info={"case": desc})
    # ---- properties
    lu, wu = u32map(lprops), u32map(wprops)
    model = model_props(case)
    n_in = sum(1 for u in loaded_units(case) if u["props"] is not None)
    for t in set(t for u in loaded_units(case) if u["props"] for n in u["props"]["notes"] for t, _ in n):
        ctx.note("input-prop:" + NAMES.get(t, hex(t)))
    if u32map(lprops, True) != u32map(wprops, True) and lu == wu:
        ctx.note("zero-valued property presence differs (no bits; not judged)")
    if lu == wu:
        other_l = {t: d for t, d in lprops.items() if len(d) != 4}
        other_w = {t: d for t, d in wprops.items() if len(d) != 4}
        if other_l != other_w:
            ctx.note("non-u32-property-differs (statement silent)")
        if bool(lu) != bool(wu) or (lu and lseg != wseg):
            ctx.note("PT_GNU_PROPERTY presence differs")
        ctx.held(fingerprint="props|" + desc, nontrivial=n_in >= 1 or bool(lu),
                 sample={"case": desc, "ld_props": fmt(lu), "wild_props": fmt(wu)} if cid in (2, 3) else None)
        ctx.note("props-out:" + ("empty" if not lu else "nonempty"))
        return
    if lu != model:
        ctx.note_set("ld-vs-model-props", f"ld={fmt(lu)} model={fmt(model)} [{desc}]"[:300])
        return ctx.inconclusive("props: reference differs from the statement's model")
    diffs = []
    for t in sorted(set(lu) | set(wu)):
        if lu.get(t) != wu.get(t):
            how = "missing" if t not in wu else "extra" if t not in lu else "value"
            diffs.append(f"{NAMES.get(t, hex(t))}({pclass(t)}):{how}")
    mixed_align = len(set(u["props"]["align"] for u in loaded_units(case) if u["props"])) > 1 or any(
        u["props"] and u["props"]["align"] == 4 for u in loaded_units(case))
    sig = "props:" + "+".join(diffs) + (":align4-input" if mixed_align else "") + (":z-isa" if case["zisa"] else "")
    ctx.violation(sig, f"output properties differ from GNU ld: ld {fmt(lu)}, wild {fmt(wu)}, model {fmt(model)} [{desc}]",
                  case=cid, files=files, info={"case": desc})


def pinned_cases():
    """Fixed minimal reproducers of the known differences (re-observed on every run)."""
    P = lambda k, stack, cont="obj", props=None: dict(k=k, stack=stack, props=props, cont=cont)
    ibt = dict(align=8, notes=[[(FEATURE_1_AND, struct.pack("<I", 3))]])
    base = dict(zstack=None, zisa=None, kind="static", gc="--gc-sections")
    return [
        ("pin-missing-note", dict(base, units=[P(0, "present"), P(1, "missing")], order=[0, 1])),
        ("pin-no-notes-at-all", dict(base, units=[P(0, "missing")], order=[0])),
        ("pin-x-note-execstack", dict(base, zstack="execstack", units=[P(0, "present"), P(1, "x")], order=[0, 1])),
        ("pin-and-cleared-by-plain-object", dict(base, units=[P(0, "present", props=ibt), P(1, "present")], order=[0, 1])),
        ("pin-and-kept", dict(base, units=[P(0, "present", props=ibt), P(1, "present", props=ibt)], order=[0, 1])),
        ("pin-unused-member-ignored", dict(base, units=[P(0, "present", props=ibt), P(1, "missing", cont="ar-unused")], order=[0, 1])),
    ]


def main(ctx):
    ctx.rule = ("1-6 asm units with .note.GNU-stack present/absent/'x' and hand-encoded .note.gnu.property notes "
                "(AND / OR / OR_AND classes, several properties and notes, 8 and 4 byte alignment) as objects, archive "
                "members (extracted or not) and shared libraries, random order, static/PIE/shared, -z execstack/noexecstack/"
                "x86-64-vN; stack and property observations are judged separately; a case counts when both linkers produce "
                "an output; distinct = full case description")
    ctx.assumptions = ["GNU ld 2.40 is the arbiter; where it differs from the statement's model the case is inconclusive",
                       "absence of PT_GNU_STACK is treated as an executable stack (x86-64 kernel default)",
                       "properties whose datum is not 4 bytes (STACK_SIZE, NO_COPY_ON_PROTECTED) are outside the statement: counted only"]
    tools.wild()
    n = ctx.pick(80, 1000)
    jobs = [("p", name, c) for name, c in pinned_cases()] + [("r", i, None) for i in range(n)]
    if ctx.replay is not None:
        c = str(ctx.replay.get("case"))
        jobs = [j for j in jobs if str(j[1]) == c]

    def go(j):
        if j[0] == "p":
            run_case(ctx, j[1], j[2])
        else:
            run_case(ctx, j[1], gen_case(rng("C36", ctx.seed, j[1])))
    pmap(go, jobs)
