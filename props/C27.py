"""C27 Partial links are transparent.

Oracle: the objects of a proggen program are partitioned into groups, each group is combined with
`wild -r` (sometimes nested), and the program is linked from the combined objects by wild and by GNU
ld; it must run and print the transcript of GNU ld's direct link of the original objects in the
same effective order. Calibration: the same partition combined by `ld -r` and linked by GNU ld must
print that transcript too, and wild's own direct link must (otherwise the difference is not the
partial link's). The relocatable outputs are also checked structurally (symbol table order and
sh_info, relocation symbol indices, section links, group members, no defined/common symbol lost).
"""
import itertools
import os
import threading

from vlib import elf, tools
from vlib import proggen as pg
from vlib import progcheck as pc
from vlib.common import pmap, rng, run

LEVEL = "exploration"
_once = pc.Once()


# ---- structural rules for a relocatable object ---------------------------------------------------

def check_relocatable(path):
    """-> list of rule names violated by the ET_REL file at `path`."""
    bad = []
    try:
        e = elf.Elf(path)
    except Exception as ex:
        return ["unreadable:" + type(ex).__name__]
    if e.e_type != elf.ET_REL:
        bad.append("e_type-not-ET_REL")
    if e.segments:
        bad.append("has-program-headers")
    nsec = len(e.sections)
    z = e.sections[0] if e.sections else None
    if z is not None and (z.type or z.flags or z.addr or z.offset or z.size or z.link or z.info or z.addralign or z.entsize):
        bad.append("section-header-0-not-null")
    symtabs = [s for s in e.sections if s.type == elf.SHT_SYMTAB]
    if len(symtabs) != 1:
        bad.append("symtab-count")
        return bad
    st = symtabs[0]
    syms = e.symbols(st)
    first_global = next((i for i, s in enumerate(syms) if s.bind != elf.STB_LOCAL), len(syms))
    if any(s.bind == elf.STB_LOCAL for s in syms[first_global:]):
        bad.append("symtab-local-after-global")
    if st.info != first_global:
        bad.append("symtab-sh_info-not-first-global")
    if syms and (syms[0].name or syms[0].value or syms[0].shndx):
        bad.append("symtab-entry0-not-null")
    for s in syms[1:]:
        if s.shndx not in (elf.SHN_UNDEF, elf.SHN_ABS, elf.SHN_COMMON, elf.SHN_XINDEX) and s.shndx >= nsec:
            bad.append("symbol-shndx-out-of-range")
            break
    for s in e.sections:
        if s.addr and s.type != elf.SHT_NULL:
            bad.append("section-with-address")
            break
    for rs in e.sections:
        if rs.type != elf.SHT_RELA:
            continue
        if rs.link != st.index:
            bad.append("rela-sh_link-not-symtab")
        if not (0 < rs.info < nsec):
            bad.append("rela-sh_info-out-of-range")
            continue
        tgt = e.sections[rs.info]
        for r in e.relas(rs):
            if r.sym >= len(syms):
                bad.append("rela-symbol-index-out-of-range")
                break
            if r.offset >= max(tgt.size, 1):
                bad.append("rela-offset-outside-section")
                break
    for g in e.sections:
        if g.type != elf.SHT_GROUP:
            continue
        data = e.sec_data(g)
        words = [int.from_bytes(data[i:i + 4], "little") for i in range(0, len(data), 4)]
        if g.link != st.index or g.info >= len(syms):
            bad.append("group-signature-symbol-invalid")
        for w in words[1:]:
            if not (0 < w < nsec):
                bad.append("group-member-out-of-range")
                break
            if not e.sections[w].flags & elf.SHF_GROUP:
                bad.append("group-member-without-SHF_GROUP")
                break
    return sorted(set(bad))


SYMCLASS = {elf.STT_FUNC: "func", elf.STT_OBJECT: "object", elf.STT_TLS: "tls", elf.STT_GNU_IFUNC: "ifunc",
            elf.STT_NOTYPE: "notype", elf.STT_COMMON: "common"}


def lost_symbols(inputs, output):
    """Symbol-table information of the inputs that the -r output must still carry:
      * a global/weak symbol an input defines (or declares COMMON) must still be a non-local
        defined/COMMON symbol (COMDAT duplicates are defined by another input, so they are found);
      * a symbol the inputs reference but do not define must still be present (undefined).
    -> list of (class, name); classes: common-symbol-lost, <type>-symbol-lost,
    <vis>-global-made-local, start-stop-reference-lost, weak-undefined-reference-lost,
    undefined-reference-lost, comdat-groups-dropped."""
    try:
        out = elf.Elf(output)
        osyms = out.symtab()
    except Exception:
        return []
    have = {s.name for s in osyms if s.bind != elf.STB_LOCAL and s.shndx != elf.SHN_UNDEF}
    local = {s.name: s for s in osyms if s.bind == elf.STB_LOCAL and s.shndx != elf.SHN_UNDEF and s.name}
    present = {s.name for s in osyms}
    lost = []
    defined_somewhere = set()
    undef = {}
    ngroups = 0
    for p in inputs:
        ie = elf.Elf(p)
        ngroups += sum(1 for x in ie.sections if x.type == elf.SHT_GROUP)
        referenced = {r.sym for rs in ie.sections if rs.type == elf.SHT_RELA for r in ie.relas(rs)}
        for s in ie.symtab():
            if s.bind == elf.STB_LOCAL or not s.name:
                continue
            if s.shndx == elf.SHN_UNDEF:
                if s.index in referenced:      # an unreferenced declaration may be dropped harmlessly
                    undef.setdefault(s.name, s)
                continue
            defined_somewhere.add(s.name)
            if s.name not in have:
                if s.name in local:
                    vis = {elf.STV_HIDDEN: "hidden", elf.STV_PROTECTED: "protected", elf.STV_INTERNAL: "internal"}.get(s.vis, "default")
                    lost.append((f"{vis}-global-made-local", s.name))
                else:
                    cls = "common" if s.shndx == elf.SHN_COMMON else SYMCLASS.get(s.type, "other")
                    lost.append((cls + "-symbol-lost", s.name))
    for name, s in undef.items():
        if name in defined_somewhere or name in present:
            continue
        if name.startswith("__start_") or name.startswith("__stop_"):
            lost.append(("start-stop-reference-lost", name))
        elif name == "_TLS_MODULE_BASE_":
            lost.append(("tls-module-base-reference-lost", name))
        elif s.bind == elf.STB_WEAK:
            lost.append(("weak-undefined-reference-lost", name))
        elif name != "_GLOBAL_OFFSET_TABLE_":
            lost.append(("undefined-reference-lost", name))
    if ngroups and not any(x.type == elf.SHT_GROUP for x in out.sections):
        lost.append(("comdat-groups-dropped", f"{ngroups} input groups"))
    return sorted(set(lost))


def has_common(path):
    return any(s.shndx == elf.SHN_COMMON for s in elf.Elf(path).symtab())


# ---- one program -----------------------------------------------------------------------------------

class Case:
    def __init__(self, ctx, i):
        self.ctx, self.i = ctx, i
        self._n = itertools.count(1)

    def dir(self, what):
        return self.ctx.scratch.dir("c", self.i, f"{what}-{next(self._n)}")


def partial(case, linker, groups, objs, nest):
    """Combines every group with `<linker> -r`; `nest` = list of (a, b) pairs of group indices to be
    combined again. Returns (inputs for the final link in order, list of produced files,
    {produced file: its inputs}, failure Result or None)."""
    d = case.dir("r-" + linker)
    xa = getattr(case, "r_extra", []) if linker == "wild" else []
    xe = getattr(case, "r_env", None) if linker == "wild" else None
    produced, made_from = [], {}
    outs = []
    for gi, g in enumerate(groups):
        if len(g) == 1:
            outs.append(objs[g[0]])
            continue
        o = tools.fresh(os.path.join(d, f"g{gi}.o"))
        ins = [objs[j] for j in g]
        r = tools.link(linker, ["-r", "-o", o, *ins, *xa], extra_env=xe)
        if not r.ok:
            return None, produced, made_from, r
        produced.append(o)
        made_from[o] = ins
        outs.append(o)
    for a, b in nest:
        if outs[a] is None or outs[b] is None:
            continue
        o = tools.fresh(os.path.join(d, f"n{a}_{b}.o"))
        ins = [outs[a], outs[b]]
        r = tools.link(linker, ["-r", "-o", o, *ins, *xa], extra_env=xe)
        if not r.ok:
            return None, produced, made_from, r
        produced.append(o)
        made_from[o] = ins
        outs[a], outs[b] = o, None
    return [o for o in outs if o is not None], produced, made_from, None


def violation(ctx, case, sig, desc, P, cm, objs, groups, nest, extra_files=None, info=None):
    ctx.note("violations-by-signature:" + sig)
    if not _once.first(sig):
        return
    files = {}
    for name, text in P.sources(cm).items():
        files["src/" + name] = text
    for o in objs:
        files["obj/" + os.path.basename(o)] = o
    files["groups.txt"] = "".join("wild -r -o g%d.o %s\n" % (k, " ".join("obj/" + os.path.basename(objs[j]) for j in g))
                                  for k, g in enumerate(groups) if len(g) > 1) + \
        "".join(f"# then: wild -r -o n{a}_{b}.o <group {a}: g{a}.o or its single object> <group {b}>\n" for a, b in nest) + \
        f"# groups (indices into the object list in link order): {groups}\n"
    files.update(extra_files or {})
    ctx.violation(sig, desc, case=str(case.i), files=files, info=info)


# a defect found in the relocatable output masks everything downstream in that program; the
# program is generated again without the feature that triggers it so that exploration goes on
FORBID = {"common-symbol-lost": "common", "hidden-global-made-local": "hidden", "start-stop-reference-lost": "custom_sec",
          "comdat-groups-dropped": "cxx", "weak-undefined-reference-lost": "weak_undef", "tls-module-base-reference-lost": "tlsdesc"}


def one_program(ctx, i):
    forbid = set()
    for attempt in range(3):
        r = rng("C27", ctx.seed, i)
        feats = pg.random_features(r, force=("local",), forbid=forbid)
        prog = pg.gen_program(r, features=feats, want_lib=False)
        cm = r.choice(pg.CODE_MODELS)
        case = Case(ctx, i)
        # how wild's partial links partition their inputs into processing groups
        rs = rng("C27", ctx.seed, i, "sched")
        how = rs.choice(["default", "threads=1", "files-per-group=2", "files-per-group=64", "threads=16"])
        case.r_extra = {"threads=1": ["--threads=1"], "threads=16": ["--threads=16"]}.get(how, [])
        case.r_env = {"files-per-group=2": {"WILD_FILES_PER_GROUP": "2"}, "files-per-group=64": {"WILD_FILES_PER_GROUP": "64"}}.get(how)
        if attempt == 0:
            ctx.note("partial-link-grouping:" + how)
        built = prog.build(ctx, cm)
        objs = [b.obj for b in built]
        n = len(objs)
        if attempt == 0:
            for f in sorted(prog.features):
                ctx.note("feature:" + f)
        # random partition into multi-object groups; the rest stay single objects
        idx = list(range(n))
        r.shuffle(idx)
        ng = r.randint(1, min(4, max(1, n // 2)))
        cut = sorted(r.sample(range(1, n), min(n - 1, r.randint(ng, min(n - 1, ng + 2)))))
        parts = [sorted(idx[a:b]) for a, b in zip([0] + cut, cut + [n])]
        r.shuffle(parts)
        nest = []
        if len(parts) >= 2 and r.random() < 0.5:
            a, b = sorted(r.sample(range(len(parts)), 2))
            nest.append((a, b))
        kinds = prog.kinds(cm, with_shared=False)
        kinds = r.sample(kinds, min(len(kinds), ctx.pick(2, 4)))
        more = _run_partition(ctx, case, prog, cm, built, objs, parts, nest, kinds)
        if not more or not (more - forbid):
            return
        forbid |= more
        ctx.note("regenerated-without:" + "+".join(sorted(more)))


def _run_partition(ctx, case, prog, cm, built, objs, parts, nest, kinds):
    """Returns the set of features to forbid in a regenerated program (empty/None: done)."""
    seq = list(range(len(parts)))
    if nest:
        # nesting moves group b next to group a
        a, b = nest[0]
        seq = [k for k in range(len(parts)) if k != b]
        seq.insert(seq.index(a) + 1, b)
    order = [j for k in seq for j in parts[k]]
    ctx.note("groups", sum(1 for g in parts if len(g) > 1))
    ctx.note("nested", len(nest))
    # --- partial links
    w_inputs, w_made, w_from, w_fail = partial(case, "wild", parts, objs, nest)
    l_inputs, l_made, l_from, l_fail = partial(case, "ld", parts, objs, nest)
    if l_fail is not None:
        ctx.inconclusive("GNU ld -r rejected the grouping")
        return None
    if w_fail is not None:
        if w_fail.timed_out:
            ctx.inconclusive("watchdog fired")
            return None
        violation(ctx, case, "partial-link:link-failed:" + pc.norm_err(w_fail.errtext()),
                  f"wild -r fails on objects GNU ld -r combines: {w_fail.errtext()[:300]}", prog, cm, objs, parts, nest,
                  {"wild-r.stderr": w_fail.errtext()})
        return None
    # --- structure of every relocatable wild produced (rules calibrated on ld -r's outputs)
    struct_bad, lost = set(), []
    for o in w_made:
        struct_bad.update(check_relocatable(o))
        lost += lost_symbols(w_from[o], o)
    cal_bad, cal_lost = set(), set()
    for o in l_made:
        cal_bad.update(check_relocatable(o))
        cal_lost.update(c for c, _n in lost_symbols(l_from[o], o))
    for c in sorted(cal_bad | cal_lost):
        ctx.note("rule-fails-on-ld-r-output:" + c)
    struct_bad -= cal_bad
    lost = [(c, nm) for c, nm in lost if c not in cal_lost]
    wr = {"wild-r/" + os.path.basename(o): o for o in w_made}
    for rule in sorted(struct_bad):
        violation(ctx, case, "partial-link:structure:" + rule, f"relocatable output of wild -r violates {rule}", prog, cm, objs, parts, nest, wr)
    classes = sorted({c for c, _n in lost})
    for c in classes:
        names = sorted({nm for cc, nm in lost if cc == c})[:6]
        violation(ctx, case, f"partial-link:{c}",
                  f"wild -r output: {c} {names} (the inputs define/reference them; `ld -r` keeps them)", prog, cm, objs, parts, nest, wr,
                  info={"names": names})
    if classes:
        return {FORBID[c] for c in classes if c in FORBID} or None
    # --- final links
    for kind in kinds:
        ref = pg.link_and_run(ctx, "ld", prog, built, kind, workdir=case.dir("ld-direct-" + kind), order=order)
        if not ref.ok or len(ref.transcript.splitlines()) < 5:
            ctx.inconclusive("reference direct link failed")
            continue
        cal = pg.link_and_run(ctx, "ld", prog, built, kind, workdir=case.dir("ld-ldr-" + kind), inputs_override=l_inputs)
        if not cal.ok or cal.transcript != ref.transcript:
            ctx.inconclusive("GNU ld's own partial link is not transparent for this grouping")
            ctx.note("ld-r-not-transparent:" + ":".join(pc.outcome(cal, ref.transcript, kind)))
            continue
        wd = pg.link_and_run(ctx, "wild", prog, built, kind, workdir=case.dir("w-direct-" + kind), order=order)
        wd_out = pc.outcome(wd, ref.transcript, kind)
        for final in ("wild", "ld"):
            lr = pg.link_and_run(ctx, final, prog, built, kind, workdir=case.dir(f"{final}-wr-" + kind), inputs_override=w_inputs)
            cls, detail = pc.outcome(lr, ref.transcript, kind)
            ctx.note(f"final:{final}:{kind}")
            fp = f"s{ctx.seed}i{case.i}|{parts}|{nest}|{kind}|{final}"
            if cls == "same":
                ctx.held(fingerprint=fp, nontrivial=any(len(g) > 1 for g in parts) and len(ref.transcript.splitlines()) >= 20,
                         sample={"program": prog.desc, "code_model": cm, "groups": parts, "nested": nest, "kind": kind, "final_linker": final}
                         if str(case.i) in ("0", "1", "2") and final == "wild" else None)
                continue
            if cls in ("link-timeout", "run-timeout"):
                ctx.inconclusive("watchdog fired")
                continue
            if final == "wild" and wd_out == (cls, detail):
                ctx.inconclusive("masked: wild's direct link of this kind already fails the same way")
                continue
            if detail.startswith("cause=pt_tls"):
                ctx.inconclusive("masked: static TLS segment misalignment (a C28 finding, independent of -r)")
                continue
            sig = f"final-link-by-{final}:{cls}:{detail}:kind={kind}"
            # mechanism probes: which change makes the difference go away?
            mech = None
            if final == "wild" and cls in ("transcript-diff", "run-crash"):
                lr2 = pg.link_and_run(ctx, final, prog, built, kind, workdir=case.dir(f"{final}-wr-nomerge-" + kind),
                                      inputs_override=w_inputs, extra_link_args=["-Wl,--no-string-merge"])
                o2 = pc.outcome(lr2, ref.transcript, kind)
                if o2[0] == "same":
                    mech = "final-link-by-wild:merged-string-reference-wrong(fixed-by---no-string-merge)"
                elif o2[1].startswith("cause=pt_tls"):
                    ctx.inconclusive("masked: static TLS segment misalignment (a C28 finding) hides the mechanism probe")
                    continue
            MERGE_SIG = "final-link-by-wild:merged-string-reference-wrong(fixed-by---no-string-merge)"
            sigs = None
            if mech is None and nest:
                # same effective object order, but only first-level partial links
                flat_inputs, _m, _f, fail = partial(case, "wild", [parts[k] for k in seq], objs, [])
                if fail is None:
                    nz = any(sy.type == elf.STT_SECTION and sy.value for o in w_made for sy in elf.Elf(o).symtab())
                    nested_sig = "nested-partial-link:output-corrupt(first-level-outputs-link-fine)" + \
                        (":section-symbols-with-nonzero-value" if nz else "")
                    lr3 = pg.link_and_run(ctx, final, prog, built, kind, workdir=case.dir(f"{final}-wr-flat-" + kind), inputs_override=flat_inputs)
                    if pc.outcome(lr3, ref.transcript, kind)[0] == "same":
                        mech = nested_sig
                    elif final == "wild":
                        lr4 = pg.link_and_run(ctx, final, prog, built, kind, workdir=case.dir(f"{final}-wr-flat-nomerge-" + kind),
                                              inputs_override=flat_inputs, extra_link_args=["-Wl,--no-string-merge"])
                        if pc.outcome(lr4, ref.transcript, kind)[0] == "same":
                            sigs = [nested_sig, MERGE_SIG]      # both mechanisms are needed to explain it
            if mech:
                sig = mech
            d = pg.diff_transcripts(ref.transcript, lr.transcript or "")[:6] if lr.run is not None else []
            for sg in (sigs or [sig]):
                violation(ctx, case, sg,
                          f"program linked by {final} from wild -r outputs differs from the direct link: {cls} {detail}; "
                          f"first differences (probe, id, direct, partial): {d}; stderr: {(lr.link.errtext() if lr.link else '')[:300]}",
                          prog, cm, objs, parts, nest,
                          {**wr, "direct.transcript": ref.transcript,
                           "partial.transcript": lr.transcript or "", "final.stderr": lr.link.errtext() if lr.link else "",
                           "commands.txt": pg.command_text(ctx, final, prog, lr)},
                          info={"groups": parts, "nested": nest, "kind": kind})
    return None


# ---- pinned: COMMON symbols are dropped by wild -r ------------------------------------------------

def pinned_common(ctx):
    a = tools.compile_c(ctx, '#include <stdio.h>\nint cc[4];\nextern void setc(void);\nint main() { setc(); printf("common m:cc = %d\\n", cc[1]); return 0; }\n',
                        ("-O1", "-fcommon", "-fno-pic", "-fno-pie"))
    b = tools.compile_c(ctx, "int cc[4];\nvoid setc(void) { cc[1] = 7; }\n", ("-O1", "-fcommon", "-fno-pic", "-fno-pie"))
    d = ctx.scratch.dir("pinned-common")
    o = tools.fresh(os.path.join(d, "ab.o"))
    lo = tools.fresh(os.path.join(d, "ab.ld.o"))
    rl = tools.link("ld", ["-r", "-o", lo, a, b])
    rw = tools.link("wild", ["-r", "-o", o, a, b])
    if not rl.ok or lost_symbols([a, b], lo):
        ctx.inconclusive("pinned: reference -r does not keep the COMMON symbol")
        return
    if not rw.ok:
        ctx.violation("partial-link:link-failed:" + pc.norm_err(rw.errtext()), "pinned: wild -r failed", case="pinned-common")
        return
    lost = lost_symbols([a, b], o)
    if lost:
        sig = f"partial-link:{lost[0][0]}"
        ctx.note("violations-by-signature:" + sig)
        if _once.first(sig):
            ctx.violation(sig, f"pinned: `wild -r a.o b.o` (both declare COMMON `int cc[4]`, -fcommon) produces a symbol table "
                               f"without `cc`; lost: {lost}", case="pinned-common", files={"a.o": a, "b.o": b, "ab.o": o,
                                                                                            "commands.txt": "wild -r -o ab.o a.o b.o\nreadelf -s ab.o | grep cc\n"})
        return
    ctx.held(fingerprint="pinned:common", nontrivial=True)


# ---- pinned minimal programs for the other defects found on the unchanged tree ------------------------

_HDR = '#include <stdio.h>\n#define P(k, id, v) printf("%s %s = %d\\n", k, id, (int)(v))\n'
_FILL = "int fill_%d(int x) { return x + %d; }\n"
_MAIN_TAIL = 'P("end", "main", 0); return 0; }\n'
PINNED = {
    # a hidden global defined and used in one partial-link group and also used from outside it
    "hidden": dict(cm="pic", units=[
        ("c", _HDR + 'extern int c_get(void);\nextern int fill_1(int);\nint main() { P("call", "m:c_get", c_get()); P("call", "m:f", fill_1(1)); '
                     'P("data", "m:1", 1); P("data", "m:2", 2); P("data", "m:3", 3); ' + _MAIN_TAIL),
        ("c", '__attribute__((visibility("hidden"))) int hf(int x) { return x + 40; }\n__attribute__((visibility("hidden"))) int hd = 2;\n'),
        ("c", 'extern __attribute__((visibility("hidden"))) int hf(int);\nextern __attribute__((visibility("hidden"))) int hd;\nint c_get(void) { return hf(hd); }\n'),
        # a second user inside the group: wild -r makes the hidden symbol local once a reference to it is resolved inside
        ("c", 'extern __attribute__((visibility("hidden"))) int hf(int);\nint fill_1(int x) { return hf(x) - 39; }\n')],
        parts=[[1, 3], [0], [2]], nest=[], kinds=["pie"]),
    # __start_/__stop_ references
    "start-stop": dict(cm="pic", units=[
        ("c", _HDR + 'extern int count(void);\nextern int fill_1(int);\nint main() { P("sect", "m:count", count()); P("call", "m:f", fill_1(1)); '
                     'P("data", "m:1", 1); P("data", "m:2", 2); P("data", "m:3", 3); ' + _MAIN_TAIL),
        ("c", 'int e1 __attribute__((section("pinset"))) = 1;\nint e2 __attribute__((section("pinset"))) = 2;\n'
              'extern int __start_pinset[], __stop_pinset[];\nint count(void) { return (int)(__stop_pinset - __start_pinset); }\n'),
        ("c", _FILL % (1, 1))], parts=[[1, 2], [0]], nest=[], kinds=["pie"]),
    # COMDAT groups of a C++ inline function with a static local, one copy inside a group
    "comdat": dict(cm="pic", cxx=True, units=[
        ("c++", '#include <cstdio>\ninline int counter() { static int n = 0; return ++n; }\nextern "C" int other(void);\nextern "C" int fill_1(int);\n'
                'int main() { printf("cxx m:counter = %d\\n", counter()); printf("cxx m:other = %d\\n", other()); printf("cxx m:counter2 = %d\\n", counter());\n'
                'printf("call m:f = %d\\n", fill_1(1)); printf("data m:1 = 1\\n"); printf("end main = 0\\n"); return 0; }\n'),
        ("c++", 'inline int counter() { static int n = 0; return ++n; }\nextern "C" int other(void) { return counter(); }\n'),
        ("c", _FILL % (1, 1))], parts=[[1, 2], [0]], nest=[], kinds=["pie"]),
    # a wild -r output used as an input of another wild -r
    "nested": dict(cm="pic", units=[
        ("c", _HDR + 'extern int a_get(void), b_get(void), c_get(void);\nint main() { P("addr", "m:a", a_get()); P("addr", "m:b", b_get()); P("addr", "m:c", c_get()); '
                     'P("data", "m:1", 1); P("data", "m:2", 2); ' + _MAIN_TAIL),
        ("c", 'static int ax[4] = { 10, 11, 12, 13 };\nstatic int *volatile ap = &ax[2];\nint a_get(void) { return *ap; }\n'),
        ("c", 'static int bx[4] = { 20, 21, 22, 23 };\nstatic int *volatile bp = &bx[3];\nint b_get(void) { return *bp; }\n'),
        ("c", 'static int cx[4] = { 30, 31, 32, 33 };\nstatic int *volatile cp = &cx[1];\nint c_get(void) { return *cp; }\n')],
        parts=[[0], [3], [1, 2]], nest=[(1, 2)], kinds=["pie"]),
    # TLSDESC local-dynamic code references the linker-defined _TLS_MODULE_BASE_
    "tls-module-base": dict(cm="pic", flags={1: ["-O2", "-mtls-dialect=gnu2"]}, units=[
        ("c", _HDR + 'extern int t_get(void);\nextern int fill_1(int);\nint main() { P("tls_ld", "m:t_get", t_get()); P("call", "m:f", fill_1(1)); '
                     'P("data", "m:1", 1); P("data", "m:2", 2); P("data", "m:3", 3); ' + _MAIN_TAIL),
        ("c", '__thread int ta __attribute__((tls_model("local-dynamic"), visibility("hidden"))) = 11;\n'
              '__thread int tb __attribute__((tls_model("local-dynamic"), visibility("hidden"))) = 22;\n'
              '__attribute__((noinline)) int t_get(void) { return ta + tb; }\nvoid t_set(int v) { ta = v; tb = v; }\n'),
        ("c", _FILL % (1, 1))], parts=[[1, 2], [0]], nest=[], kinds=["pie"]),
    # wild's final link of a wild -r output: references into merged strings
    "merged-string": dict(cm="nopic", units=[
        ("c", '#include <stdio.h>\nstruct e { int tag; const char *name; };\nstatic const struct e e0 = { 5, "name-e0" };\nconst struct e *const ep = &e0;\n'
              'extern int fill_1(int);\n__attribute__((noinline)) void g(const char *a, const char *b) { printf("str m:g = %s %s\\n", a, b); }\n'
              'int main() { g("short", "a string of forty characters or more....!"); printf("str m:ep = %s\\n", ep->name); printf("call m:f = %d\\n", fill_1(1));\n'
              'printf("data m:1 = 1\\n"); printf("data m:2 = 2\\n"); printf("end main = 0\\n"); return 0; }\n'),
        ("c", _FILL % (1, 1))], parts=[[0, 1]], nest=[], kinds=["dyn"]),
}


def pinned_prog(ctx, name):
    spec = PINNED[name]
    prog = pg.Program()
    for k, (lang, src) in enumerate(spec["units"]):
        u = pg.Unit(f"p{k}", lang, "exe")
        u.src["*"] = src
        u.cflags = spec.get("flags", {}).get(k, ["-O1"])
        prog.units.append(u)
    prog.needs_cxx = bool(spec.get("cxx"))
    prog.desc = "pinned:" + name
    cm = spec["cm"]
    case = Case(ctx, "pinned-" + name)
    built = prog.build(ctx, cm)
    _run_partition(ctx, case, prog, cm, built, [b.obj for b in built], spec["parts"], spec["nest"], spec["kinds"])


def main(ctx):
    ctx.rule = ("proggen programs (random features incl. TLS, COMDAT, weak/common, strings, eh_frame, init arrays, custom sections, "
                "same-named locals) x a random partition of the objects into 1-4 `wild -r` groups (50% with one nested partial link) x "
                "final link by wild and by GNU ld in 2-4 executable kinds; a case counts when GNU ld's direct link and GNU ld's own "
                "-r round trip print the same >= 20-line transcript and at least one group has >= 2 objects; distinct = distinct "
                "(program, partition, kind, final linker)")
    ctx.assumptions = ["GNU ld's direct link in the same effective object order defines the expected transcript",
                       "a grouping for which `ld -r` + ld is itself not transparent is inconclusive"]
    tools.wild()
    n = ctx.pick(14, 200)
    jobs = [("pin", 0)] + [("pinp", k) for k in PINNED] + [("p", i) for i in range(n)]
    if ctx.replay is not None:
        c = str(ctx.replay.get("case"))
        if c == "pinned-common":
            jobs = [("pin", 0)]
        elif c.startswith("pinned-"):
            jobs = [("pinp", c[len("pinned-"):])]
        else:
            jobs = [("p", int(c))]
    pmap(lambda j: pinned_common(ctx) if j[0] == "pin" else pinned_prog(ctx, j[1]) if j[0] == "pinp" else one_program(ctx, j[1]), jobs)
