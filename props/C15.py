"""C15 Linker-script input-section patterns match as in GNU ld.

Oracle: generated `SECTIONS { .outN : { [KEEP(]filepat(pat pat..)[)] ... } }` scripts plus objects with many
custom-named sections, each holding one global marker symbol. The output section each marker lands
in (read from the output symbol table) must be the one GNU ld 2.40 chose for the same inputs; a
section GNU ld retains because of KEEP under --gc-sections must be present; a script GNU ld accepts
must not be rejected or panic. A POSIX-fnmatch model of the statement is a second opinion: where the
model and GNU ld disagree the marker is inconclusive. Every difference is re-tested in isolation (one
description, one section) and the pattern is reduced token by token, which yields the pattern class
used in the signature.
"""
import os
import re
import threading

from vlib import tools
from vlib.common import log, pmap, rng, write
from vlib.elf import Elf, ElfError, SHT_SYMTAB, SHT_STRTAB, SHN_UNDEF

LEVEL = "exploration"

# ---------------------------------------------------------------------------------------------
# fnmatch model (POSIX fnmatch without FNM_PATHNAME/FNM_PERIOD, backslash escapes on)

def tokenize(p):
    """-> list of (kind, text, payload). kinds: lit, star, q, class, negclass, esc."""
    out = []
    i = 0
    while i < len(p):
        c = p[i]
        if c == "\\" and i + 1 < len(p):
            out.append(("esc", p[i:i + 2], p[i + 1]))
            i += 2
        elif c == "*":
            out.append(("star", "*", None))
            i += 1
        elif c == "?":
            out.append(("q", "?", None))
            i += 1
        elif c == "[":
            j = i + 1
            neg = False
            if j < len(p) and p[j] in "!^":
                neg = True
                j += 1
            k = j
            if k < len(p) and p[k] == "]":
                k += 1
            while k < len(p) and p[k] != "]":
                if p[k] == "\\" and k + 1 < len(p):
                    k += 1
                k += 1
            if k >= len(p):
                out.append(("ubr", "[", "["))       # unterminated bracket: literal '['
                i += 1
                continue
            body = p[j:k]
            items = []
            m = 0
            while m < len(body):
                a = body[m]
                if a == "\\" and m + 1 < len(body):
                    m += 1
                    a = body[m]
                if m + 2 < len(body) and body[m + 1] == "-":
                    b = body[m + 2]
                    if b == "\\" and m + 3 < len(body):
                        b = body[m + 3]
                        m += 1
                    items.append((a, b))
                    m += 3
                else:
                    items.append((a, a))
                    m += 1
            out.append(("negclass" if neg else "class", p[i:k + 1], items))
            i = k + 1
        else:
            out.append(("lit", c, c))
            i += 1
    return out


def _one(tok, ch):
    k = tok[0]
    if k in ("lit", "esc", "ubr"):
        return tok[2] == ch
    if k == "q":
        return True
    hit = any(a <= ch <= b for a, b in tok[2])
    return hit != (k == "negclass")


def match(tokens, name):
    """Returns the list of matched substrings per token, or None."""
    memo = {}

    def go(ti, ni):
        key = (ti, ni)
        if key in memo:
            return memo[key]
        res = None
        if ti == len(tokens):
            res = [] if ni == len(name) else None
        elif tokens[ti][0] == "star":
            for e in range(ni, len(name) + 1):
                rest = go(ti + 1, e)
                if rest is not None:
                    res = [name[ni:e]] + rest
                    break
        elif ni < len(name) and _one(tokens[ti], name[ni]):
            rest = go(ti + 1, ni + 1)
            if rest is not None:
                res = [name[ni]] + rest
        memo[key] = res
        return res
    return go(0, 0)


def model_match(pat, name):
    if pat.startswith('"') and pat.endswith('"') and len(pat) >= 2:
        pat = pat[1:-1]
    return match(tokenize(pat), name) is not None


def pclass(pat):
    """Finite class of a pattern text; the unit of the violation signature."""
    if pat.startswith('"'):
        inner = pclass(pat.strip('"')) if len(pat.strip('"')) >= 4 else "quoted"
        return inner if inner in ("unterminated-bracket", "double-star") else "quoted"
    toks = tokenize(pat)
    if len(pat.encode()) < 4 or (all(t[0] in ("lit", "esc") for t in toks) and len(toks) < 4):
        return "short-prefix<4"
    if "**" in pat and any(toks[i][0] == toks[i + 1][0] == "star" for i in range(len(toks) - 1)):
        return "double-star"
    if any(t[0] == "ubr" for t in toks):
        return "unterminated-bracket"
    off = 0
    kinds = []
    for k, text, _ in toks:
        if k != "lit":
            if off < 4:
                if k == "star" and off == 0:
                    return "leading-wildcard"
                return {"star": "star", "q": "question", "class": "class", "negclass": "class",
                        "esc": "escape"}[k] + "-in-first-4-bytes"
            kinds.append({"q": "question", "esc": "escape"}.get(k, k))
        off += len(text.encode())
    if not kinds:
        return "exact"
    return "literal-prefix>=4:" + "+".join(sorted(set(kinds)))


# ---------------------------------------------------------------------------------------------
# generation

STEMS = [".data", ".dat", ".data.", ".rodx", ".t", ".tx", ".text.", "ab", "abc", "sec_", "my.sec", ".x", "zfoo",
         "foo", ".bar", ".dataA", "qq__", ".a.b.c", "_s", "S1"]
SUFFIX_CH = "abc012._"
SPECIAL_CH = "*?[]"
RESERVED = {".text", ".comment", ".symtab", ".strtab", ".shstrtab", ".bss", ".tbss", ".tdata"}
FILES = ["a1.o", "b2.o", "sub/c3.o", "lib_x.o", "d.e.o"]


def gen_name(r):
    for _ in range(50):
        n = r.choice(STEMS) + "".join(r.choice(SUFFIX_CH) for _ in range(r.choice([0, 0, 1, 2, 3, 4, 6])))
        if r.random() < 0.06:
            i = r.randint(1, len(n))
            n = n[:i] + r.choice(SPECIAL_CH) + n[i:]
        if n not in RESERVED and not n.startswith((".note", ".rel", ".gnu", ".debug", ".init", ".fini")):
            return n
    return "fallback_sec"


def wrap_class(r, ch):
    c = r.random()
    if ch in "]\\^!-":
        return None
    if c < 0.3:
        return f"[{ch}]"
    if c < 0.5 and ch.isalnum():
        lo = chr(max(ord(ch) - r.randint(0, 2), ord("0") if ch.isdigit() else ord("a") if ch.islower() else ord("A")))
        hi = chr(min(ord(ch) + r.randint(0, 2), ord("9") if ch.isdigit() else ord("z") if ch.islower() else ord("Z")))
        return f"[{lo}-{hi}]"
    other = r.choice([x for x in "xyzXYZ9" if x != ch])
    if c < 0.7:
        return f"[!{other}]"
    if c < 0.85:
        return f"[^{other}]"
    return f"[{other}{ch}]"


def mutate(r, n, kind):
    L = len(n)
    if kind == "exact":
        return n
    if kind == "prefix":
        k = r.choice([2, 3, 4, 4, 5, 6, L, L]) if L > 1 else 1
        return n[:min(k, L)] + "*"
    if kind == "leading":
        k = r.randint(0, max(0, L - 1))
        return "*" + n[k:]
    if kind == "midstar":
        i = r.randint(0, L)
        j = r.randint(i, L)
        return n[:i] + "*" + n[j:]
    if kind == "question":
        i = r.randrange(L)
        return n[:i] + "?" + n[i + 1:]
    if kind == "class":
        i = r.randrange(L)
        w = wrap_class(r, n[i])
        return n if w is None else n[:i] + w + n[i + 1:]
    if kind == "escape":
        i = r.randrange(L)
        return n[:i] + "\\" + n[i:]
    if kind == "short":
        return r.choice(["*", "?*", n[:1] + "*", n[:2] + "*", n[:2] + "?", n[:3]])
    if kind == "quoted":
        return '"' + n + '"'
    raise AssertionError(kind)


KINDS = ["exact"] * 3 + ["prefix"] * 4 + ["leading"] * 2 + ["midstar"] * 2 + ["question"] * 2 + ["class"] * 3 + \
    ["escape", "short", "quoted"]


def escape_specials(p, name):
    """A literal special character of the section name inside a pattern has to be written as a
    bracket expression ([*]) for GNU ld to take it literally."""
    return p


def gen_pattern(r, names):
    n = r.choice(names)
    kind = r.choice(KINDS)
    p = mutate(r, n, kind)
    if r.random() < 0.25 and kind not in ("quoted", "short", "exact"):
        k2 = r.choice(["question", "class", "prefix", "midstar"])
        toks = tokenize(p)
        # second mutation applied to the literal run only (keeps the pattern well formed)
        lits = [i for i, t in enumerate(toks) if t[0] == "lit"]
        if lits:
            i = r.choice(lits)
            ch = toks[i][1]
            rep = "?" if k2 == "question" else (wrap_class(r, ch) or ch) if k2 == "class" else "*" if k2 == "midstar" else None
            if rep is not None:
                toks[i] = ("x", rep, None)
            elif k2 == "prefix":
                toks = toks[:i] + [("x", "*", None)]
            p = "".join(t[1] for t in toks)
    if not p or any(c in p for c in " \t\n(){};,") or p in ("/*",) or "/*" in p:
        return n
    return p


def gen_filepat(r, files):
    if r.random() < 0.72:
        return "*"
    f = r.choice(files)
    base = os.path.basename(f)
    c = r.random()
    if c < 0.2:
        return f
    if c < 0.4:
        return "*" + base
    if c < 0.55:
        return base[:1] + "*"
    if c < 0.7:
        return "*" + base[1:]
    if c < 0.8:
        return base
    if c < 0.9:
        return "*.o"
    return os.path.dirname(f) + "/*" if "/" in f else "[a-l]*.o"


def quote_asm(n):
    return '"' + n.replace("\\", "\\\\").replace('"', '\\"') + '"'


def build_case(r, quick):
    files = r.sample(FILES, r.choice([1, 1, 2, 3]))
    nsec = r.randint(5, 30)
    names = [gen_name(r) for _ in range(nsec)]
    # sections: (file, name, live)
    secs = []
    for i, n in enumerate(names):
        secs.append(dict(id=i, file=r.choice(files), name=n, live=r.random() < 0.7))
    ndesc = r.randint(2, 8)
    nout = r.randint(1, min(5, ndesc))
    outs = [[] for _ in range(nout)]
    for d in range(ndesc):
        pats = []
        for _ in range(r.choice([1, 1, 2, 3])):
            pats.append(gen_pattern(r, names))
        desc = dict(keep=r.random() < 0.35, filepat=gen_filepat(r, files), pats=pats)
        outs[d % nout if d < nout else r.randrange(nout)].append(desc)
    return dict(files=files, secs=secs, outs=outs)


def asm_for(case, fname, main):
    lines = []
    mine = [s for s in case["secs"] if s["file"] == fname]
    if main:
        lines += [".globl _start", '.section .text,"ax",@progbits', "_start: mov $60,%eax", " xor %edi,%edi", " syscall"]
        for s in case["secs"]:
            if s["live"]:
                lines.append(f" .quad m_{s['id']}")
    for s in mine:
        lines += [f".section {quote_asm(s['name'])},\"aw\",@progbits", f".globl m_{s['id']}", f"m_{s['id']}: .quad {s['id']}"]
    return "\n".join(lines) + "\n"


def desc_text(d):
    inner = f"{d['filepat']}({' '.join(d['pats'])})"
    return f"KEEP({inner})" if d["keep"] else inner


def script_text(outs):
    t = ["ENTRY(_start)", "SECTIONS {", "  .text : { *(.text) }"]
    for i, descs in enumerate(outs):
        t.append(f"  .out{i} : {{ " + " ".join(desc_text(d) for d in descs) + " }")
    t.append("}")
    return "\n".join(t) + "\n"


# ---------------------------------------------------------------------------------------------
# observation

def placement(path):
    """marker name -> output section name (None: symbol not defined in the output)."""
    e = Elf(path)
    tabs = [s for s in e.sections if s.type == SHT_SYMTAB and s.link < len(e.sections)
            and e.sections[s.link].type == SHT_STRTAB and s.link != 0]
    if not tabs:
        return {}
    out = {}
    for sy in e.symbols(tabs[-1]):
        if sy.name.startswith("m_") and sy.shndx != SHN_UNDEF and sy.shndx < len(e.sections):
            out[sy.name] = e.sections[sy.shndx].name
    return out


ENV = {"RUST_BACKTRACE": "0"}
UNJUDGED = "UNJUDGED"
_lock = threading.Lock()
ALONE = {}      # (pattern) -> effect of wild linking a script with only that pattern ('panic'/'rejected'/None)
SIGCACHE = {}   # raw difference key -> signature found by the full examination (None: agreed in isolation)
RECORDED = {}   # signature -> times recorded


def build_and_link(ctx, case, tag, only=None):
    """Returns (dir, ld Result, wild Result)."""
    d = ctx.scratch.dir("c", tag)
    for i, f in enumerate(case["files"]):
        obj = tools.assemble(ctx, asm_for(case, f, i == 0))
        dst = os.path.join(d, f)
        os.makedirs(os.path.dirname(dst), exist_ok=True)
        if os.path.lexists(dst):
            os.unlink(dst)
        os.link(obj, dst)
    write(os.path.join(d, "s.lds"), script_text(case["outs"]))
    args = [*case["files"], "-T", "s.lds", "--gc-sections"]
    write(os.path.join(d, "cmd.txt"), "cd <this dir>; wild " + " ".join(args) + " -o w.out ; ld " + " ".join(args) + " -o l.out\n")
    tools.fresh(os.path.join(d, "l.out"))
    tools.fresh(os.path.join(d, "w.out"))
    ld = w = None
    ctx.note("links:" + tag.split("-")[-1].rstrip("0123456789") if isinstance(tag, str) and "-" in tag else "links:case")
    if only in (None, "ld"):
        ld = tools.link("ld", args + ["-o", "l.out"], cwd=d, timeout=60)
    if only in (None, "wild"):
        w = tools.link("wild", args + ["-o", "w.out"], cwd=d, timeout=60, extra_env=ENV)
    return d, ld, w


def effect_of(res):
    t = res.text()
    if "panicked at" in t or res.signal is not None:
        return "panic"
    return "rejected"


def file_model(fp, fname):
    if fp == "*":
        return True
    if any(c in fp for c in "*?["):
        return model_match(fp, fname)
    return fp == fname


def isolate(ctx, sec_name, fname, filepat, pat, keep, tag, extra_first=None):
    """One section, one description (optionally preceded by another). Returns dict(ld=sec|None|'FAIL',
    wild=sec|None|'panic'|'rejected'|'TIMEOUT', model=expected section, dir)."""
    descs = [dict(keep=keep, filepat=filepat, pats=[pat])]
    if extra_first is not None:
        descs.insert(0, extra_first)
    case = dict(files=[fname], secs=[dict(id=0, file=fname, name=sec_name, live=not keep)], outs=[descs])
    d, ld, w = build_and_link(ctx, case, tag)
    out = dict(dir=d, ld="FAIL", wild=None, werr=w.errtext())
    hit = any(file_model(dd["filepat"], fname) and any(model_match(p, sec_name) for p in dd["pats"]) for dd in descs)
    out["model"] = ".out0" if hit else (None if keep else sec_name)
    if ld.ok and not ld.timed_out:
        try:
            out["ld"] = placement(os.path.join(d, "l.out")).get("m_0")
        except ElfError:
            out["ld"] = "FAIL"
    if w.timed_out:
        out["wild"] = "TIMEOUT"
    elif not w.ok:
        out["wild"] = effect_of(w)
    else:
        out["wild"] = placement(os.path.join(d, "w.out")).get("m_0")
    return out


def classify_diff(iso, keep):
    """None when ld and wild agree in isolation (or the case cannot be judged), else the effect."""
    l, w = iso["ld"], iso["wild"]
    if l == "FAIL" or w == "TIMEOUT" or l != iso["model"]:
        return None
    if w in ("panic", "rejected"):
        return w
    if l == w:
        return None
    if l == ".out0" and w is None:
        return "keep-discarded" if keep else "never-matches"
    if l == ".out0":
        return "never-matches"
    if w == ".out0":
        return "over-matches"
    return "orphan-differs"


def minimise(ctx, sec_name, fname, filepat, pat, keep, effect, tag):
    """Replaces meta tokens by the literal text they matched while the same effect persists."""
    if pat.startswith('"'):
        return pat
    toks = tokenize(pat)
    spans = match(toks, sec_name)
    if spans is None:
        return pat
    n = 0
    cur = list(toks)
    for i in range(len(toks)):
        if cur[i][0] in ("lit", "ubr"):
            continue
        lit = spans[i]
        if any(c in "*?[]\\" for c in lit):
            continue
        trial = cur[:i] + [("lit", lit, lit)] + cur[i + 1:]
        tp = "".join(t[1] for t in trial)
        if not tp:
            continue
        n += 1
        iso = isolate(ctx, sec_name, fname, filepat, tp, keep, f"{tag}-min{n}")
        if classify_diff(iso, keep) == effect:
            cur = trial
    return "".join(t[1] for t in cur)


def record(ctx, sig, desc, case_id, files, info):
    with _lock:
        RECORDED[sig] = RECORDED.get(sig, 0) + 1
        first = RECORDED[sig] <= 1
    ctx.note("difference:" + sig)
    if first:
        log(f"[C15] case {case_id}: {sig} :: {desc[:300]}")
        ctx.violation(sig, desc, case=case_id, files=files, info=info)


def examine(ctx, case_id, sec, desc, pat, tag):
    """Isolates (section, description, pattern). Returns the signature of the difference between
    GNU ld and wild in isolation (recording it), or None when they agree there."""
    keep = desc["keep"] and not sec["live"]
    iso = isolate(ctx, sec["name"], sec["file"], desc["filepat"], pat, keep, tag)
    eff = classify_diff(iso, keep)
    if eff is None:
        if iso["ld"] not in ("FAIL", iso["model"]):
            ctx.note("isolated-model-disagrees-with-ld:" + pclass(pat))
            return UNJUDGED
        return None
    if eff == "keep-discarded":
        # is KEEP involved at all, or does the pattern simply never match?
        live = dict(sec, live=True)
        r2 = examine(ctx, case_id, live, dict(desc, keep=False), pat, tag + "-live")
        if r2 not in (None, UNJUDGED):
            return r2
    if desc["filepat"] != "*":
        # is the file pattern or the section pattern responsible?
        iso2 = isolate(ctx, sec["name"], sec["file"], "*", pat, keep, tag + "-anyfile")
        if classify_diff(iso2, keep) is not None:
            # the section pattern fails on its own: analyse it without the file pattern
            return examine(ctx, case_id, sec, dict(desc, filepat="*"), pat, tag + "-nofp")
        if iso2["ld"] != iso2["model"]:
            ctx.note("isolated-model-disagrees-with-ld:" + pclass(pat))
            return UNJUDGED
        else:
            fp = desc["filepat"]
            fcls = ("exact" if not any(c in fp for c in "*?[") else "wildcard") + \
                   (":input-in-subdirectory" if "/" in sec["file"] else "") + (":pattern-has-directory" if "/" in fp else "")
            sig = f"file-pattern-class={fcls}:{eff}"
            record(ctx, sig, f"file pattern `{fp}` against input `{sec['file']}` (section {sec['name']!r}, pattern `{pat}`): "
                   f"GNU ld places the section in {iso['ld']}, wild in {iso['wild']}", case_id, {"iso": iso["dir"]},
                   {"file_pattern": fp, "file": sec["file"], "section": sec["name"], "pattern": pat})
            return sig
    small = minimise(ctx, sec["name"], sec["file"], desc["filepat"], pat, keep, eff, tag) if eff in (
        "never-matches", "keep-discarded", "panic", "rejected") else pat
    cls = pclass(small)
    sig = f"pattern-class={cls}:{eff}"
    iso = isolate(ctx, sec["name"], sec["file"], desc["filepat"], small, keep, tag + "-final")
    record(ctx, sig, f"pattern `{small}` (reduced from `{pat}`) against section {sec['name']!r}"
           f"{' under KEEP, unreferenced' if keep else ''}: GNU ld -> {iso['ld']}, wild -> {iso['wild']} "
           f"{iso['werr'].strip()[:160]}", case_id, {"iso": iso["dir"]},
           {"pattern": pat, "minimal": small, "section": sec["name"], "file": sec["file"], "keep": keep, "class": cls})
    return sig


def examine_cached(ctx, case_id, sec, desc, pat, tag, guess):
    key = (pclass(pat), guess, desc["filepat"] == "*" or ("/" in desc["filepat"], "/" in sec["file"],
                                                          any(c in desc["filepat"] for c in "*?[")),
           desc["keep"] and not sec["live"])
    with _lock:
        if key in SIGCACHE and SIGCACHE[key][1] >= 2 and SIGCACHE[key][0] is not None:
            sig = SIGCACHE[key][0]
            ctx.note("difference:" + sig)
            ctx.note("difference-classified-from-cache")
            return sig
    sig = examine(ctx, case_id, sec, desc, pat, tag)
    if sig == UNJUDGED:
        return sig
    with _lock:
        old = SIGCACHE.get(key)
        if sig is not None and (old is None or old[0] == sig):
            SIGCACHE[key] = (sig, (old[1] if old else 0) + 1)
        else:
            SIGCACHE[key] = (None, 0)
    return sig


def model_place(case, sec):
    """(output index, desc, pattern) of the first description the model says matches, else Nones.
    File patterns are matched against the command-line spelling, as GNU ld does."""
    for oi, descs in enumerate(case["outs"]):
        for d in descs:
            if not file_model(d["filepat"], sec["file"]):
                continue
            for p in d["pats"]:
                if model_match(p, sec["name"]):
                    return oi, d, p
    return None, None, None


def model_keep_desc(case, sec):
    for descs in case["outs"]:
        for d in descs:
            if d["keep"] and file_model(d["filepat"], sec["file"]):
                for p in d["pats"]:
                    if model_match(p, sec["name"]):
                        return d, p
    return None, None


def alone_effect(ctx, pat, tag):
    """Does wild fail on a script that contains only this pattern?"""
    with _lock:
        if pat in ALONE:
            return ALONE[pat]
    case = dict(files=["a1.o"], secs=[dict(id=0, file="a1.o", name=".dataXYZ", live=True)],
                outs=[[dict(keep=False, filepat="*", pats=[pat])]])
    d, _, w = build_and_link(ctx, case, tag, only="wild")
    eff = None if (w.ok or w.timed_out) else effect_of(w)
    with _lock:
        ALONE[pat] = eff
    return eff


def strip_patterns(case, badpats):
    outs = []
    for descs in case["outs"]:
        nd = []
        for d in descs:
            ps = [p for p in d["pats"] if p not in badpats]
            if ps:
                nd.append(dict(d, pats=ps))
        if nd:
            outs.append(nd)
    return dict(case, outs=outs)


def one_case(ctx, i):
    r = rng("C15", ctx.seed, i)
    case = build_case(r, ctx.quick)
    for _, dd in [(oi, dd) for oi, descs in enumerate(case["outs"]) for dd in descs]:
        for p in dd["pats"]:
            ctx.note("patclass:" + pclass(p))
        if dd["keep"]:
            ctx.note("desc:KEEP")
        if dd["filepat"] != "*":
            ctx.note("desc:file-pattern")
    violated = False
    for rnd in range(3):
        d, ld, w = build_and_link(ctx, case, f"{i}-r{rnd}")
        if ld.timed_out or w.timed_out:
            ctx.inconclusive("watchdog")
            return
        if not ld.ok:
            ctx.inconclusive("reference linker rejected script")
            return
        if w.ok:
            break
        # wild fails on a script GNU ld accepts: find the patterns that fail on their own, report
        # them, and go on with the rest of the script.
        violated = True
        bad = set()
        n = 0
        for descs in case["outs"]:
            for dd in descs:
                for p in dd["pats"]:
                    n += 1
                    if p not in bad and alone_effect(ctx, p, f"{i}-a{rnd}-{n}") is not None:
                        bad.add(p)
                        cands = [s for s in case["secs"] if model_match(p, s["name"])
                                 and file_model(dd["filepat"], s["file"])]
                        if not cands:
                            cands = [dict(id=0, file=case["files"][0], name=".dataXYZ")]
                        s = dict(cands[0], live=True)
                        examine_cached(ctx, f"{i}", s, dict(dd, keep=False, filepat="*"), p, f"{i}-f{rnd}-{n}", "link-fails")
        if not bad:
            eff = effect_of(w)
            m = re.search(r"panicked at ([^:\n]+):", w.text())
            record(ctx, f"script-{eff}:unattributed" + (f"@{m.group(1)}" if m else ""),
                   f"wild fails on a script GNU ld accepts and no single pattern reproduces it: "
                   f"{w.errtext().strip()[:300]}", f"{i}", {"case": d}, None)
            return
        case = strip_patterns(case, bad)
        ctx.note("residual-script-after-removing-failing-patterns")
        if not case["outs"]:
            return
    else:
        return
    try:
        lp = placement(os.path.join(d, "l.out"))
    except ElfError:
        ctx.inconclusive("reference output unreadable")
        return
    try:
        wp = placement(os.path.join(d, "w.out"))
    except ElfError as ex:
        record(ctx, "output-unreadable", f"wild output cannot be parsed: {ex}", f"{i}", {"case": d}, None)
        return
    checked = 0
    budget = 4
    for s in case["secs"]:
        m = f"m_{s['id']}"
        l = lp.get(m)
        wv = wp.get(m)
        moi, mdesc, mpat = model_place(case, s)
        mexp = f".out{moi}" if moi is not None else s["name"]
        if not s["live"]:
            if l is None:
                ctx.note("dead-and-discarded-by-ld")
                continue
            ctx.note("dead-kept-by-ld")
        elif l is None:
            ctx.inconclusive("reference dropped a referenced section")
            continue
        if l != mexp:
            ctx.note("model-disagrees-with-ld:" + (pclass(mpat) if mpat else "no-model-match"))
            ctx.inconclusive("model and reference linker disagree")
            continue
        checked += 1
        if l == wv:
            continue
        violated = True
        if budget <= 0:
            ctx.note("differences-beyond-per-case-budget")
            continue
        budget -= 1
        guess = ("out" if l.startswith(".out") else "orphan") + "->" + (
            "absent" if wv is None else "out" if wv.startswith(".out") else "orphan")
        # candidates: the description ld used (the model agrees with it), then every description
        # of the output section wild chose.
        cands = []
        if l.startswith(".out"):
            for dd in case["outs"][int(l[4:])]:
                if file_model(dd["filepat"], s["file"]):
                    cands += [(dd, p) for p in dd["pats"] if model_match(p, s["name"]) and (dd, p) not in cands]
        if wv and wv.startswith(".out") and wv[4:].isdigit() and int(wv[4:]) < len(case["outs"]):
            for dd in case["outs"][int(wv[4:])]:
                for p in dd["pats"]:
                    if (dd, p) not in cands:
                        cands.append((dd, p))
        hit = False
        unjudged = False
        # patterns that (per the model) match this section name first: they are the likely culprits
        cands.sort(key=lambda c: 0 if model_match(c[1], s["name"]) else 1)
        for k, (dd, p) in enumerate(cands[:8]):
            res = examine_cached(ctx, f"{i}", s, dd, p, f"{i}-s{s['id']}-{k}", guess)
            if res == UNJUDGED:
                unjudged = True
            elif res:
                hit = True
                break
        if hit:
            continue
        if not s["live"] and wv is None and mdesc is not None and not mdesc["keep"]:
            kd, kp = model_keep_desc(case, s)
            if kd is not None:
                iso = isolate(ctx, s["name"], s["file"], kd["filepat"], kp, True, f"{i}-k{s['id']}",
                              extra_first=dict(mdesc, pats=[mpat]))
                if iso["ld"] == ".out0" and iso["wild"] is None:
                    record(ctx, "keep-after-non-keep-description:discarded",
                           f"unreferenced section {s['name']!r} matches `{desc_text(dict(mdesc, pats=[mpat]))}` first and "
                           f"`{desc_text(dict(kd, pats=[kp]))}` later: GNU ld keeps it (any KEEP match protects the "
                           f"section), wild discards it", f"{i}", {"iso": iso["dir"]},
                           {"section": s["name"], "first": mpat, "keep": kp})
                    continue
        if unjudged:
            ctx.inconclusive("difference involves a pattern on which model and reference linker disagree")
            continue
        lc = pclass(mpat) if mpat else "orphan"
        if guess.startswith("out->") and (lc.endswith("-in-first-4-bytes") or lc == "leading-wildcard"):
            # the rule is found only when the 7-bit hash tags of the pattern's and the name's first
            # four bytes happen to collide, so the isolated script can agree by accident
            record(ctx, f"pattern-class={lc}:never-matches",
                   f"section {s['name']!r} of {s['file']}: GNU ld -> {l} (pattern `{mpat}`), wild -> {wv}",
                   f"{i}", {"case": d}, {"section": s["name"], "ld": l, "wild": wv, "pattern": mpat})
            continue
        record(ctx, f"rule-interaction:ld-rule={lc}:{guess}",
               f"section {s['name']!r} of {s['file']}: GNU ld -> {l}, wild -> {wv}; every single description agrees "
               f"in isolation", f"{i}", {"case": d}, {"section": s["name"], "ld": l, "wild": wv})
    ctx.note("markers-compared", checked)
    if not violated:
        classes = sorted({pclass(p) for descs in case["outs"] for dd in descs for p in dd["pats"]})
        ctx.held(fingerprint=script_text(case["outs"]) + "|" + ",".join(s["name"] for s in case["secs"]),
                 nontrivial=checked >= 3 and any(v.startswith(".out") for v in lp.values()),
                 sample={"script": script_text(case["outs"]), "sections_checked": checked,
                         "classes": classes} if i < 2 else None)


PINNED = [
    # (section name, pattern, keep, input file, file pattern)
    (".data.foo", "*foo", False, "a1.o", "*"),
    (".data.foo", "[.]data.foo", False, "a1.o", "*"),
    (".data.foo", ".d?ta.foo", False, "a1.o", "*"),
    (".data.foo", ".da*", False, "a1.o", "*"),
    (".tx1", ".t*", False, "a1.o", "*"),
    ("abc", "abc", False, "a1.o", "*"),
    (".data.keepme", ".data.k*", True, "a1.o", "*"),
    (".data.keepme", "*keepme", True, "a1.o", "*"),
    (".dataA1", ".data?1", False, "a1.o", "*"),
    (".data*x", ".data[*]x", False, "a1.o", "*"),
    (".dataA1", ".data[!x]1", False, "a1.o", "*"),
    (".dataA1", ".data[^x]1", False, "a1.o", "*"),
    (".dataA1", ".data**", False, "a1.o", "*"),
    (".data[x", ".data[x", False, "a1.o", "*"),
    (".dataA1", '".dataA1"', False, "a1.o", "*"),
    (".dataA1", ".dataA1", False, "sub/c3.o", "sub/c3.o"),
    (".dataA1", ".dataA1", False, "sub/c3.o", "sub/*"),
    (".dataA1", ".dataA1", False, "sub/c3.o", "c*.o"),
    (".dataA1", ".dataA1", False, "a1.o", "a1.o"),
    (".dataA1", ".dataA1", False, "a1.o", "*1.o"),
]


def pinned(ctx):
    for n, (name, pat, keep, fname, fpat) in enumerate(PINNED):
        sec = dict(id=0, file=fname, name=name, live=not keep)
        desc = dict(keep=keep, filepat=fpat, pats=[pat])
        res = examine(ctx, f"pinned{n}", sec, desc, pat, f"p{n}")
        if res == UNJUDGED:
            ctx.inconclusive("pinned: model and reference linker disagree")
        elif res is None:
            ctx.held(fingerprint=f"pinned:{name}:{pat}:{keep}:{fname}:{fpat}", nontrivial=True)
        ctx.note("patclass:" + pclass(pat))
    # KEEP in a later description than a plain one matching the same unreferenced section
    iso = isolate(ctx, ".data.keepme", "a1.o", "*", ".data.keepme", True, "p-keep-later",
                  extra_first=dict(keep=False, filepat="*", pats=[".data.k*"]))
    if iso["ld"] == ".out0" and iso["wild"] is None:
        record(ctx, "keep-after-non-keep-description:discarded",
               "unreferenced section '.data.keepme' matches `*(.data.k*)` first and `KEEP(*(.data.keepme))` later: GNU ld "
               "keeps it (any KEEP match protects the section), wild discards it", "pinned-keep-later",
               {"iso": iso["dir"]}, None)
    elif iso["ld"] == ".out0" and iso["wild"] == ".out0":
        ctx.held(fingerprint="pinned:keep-later", nontrivial=True)
    else:
        ctx.inconclusive("pinned: reference does not keep the section")


def main(ctx):
    ctx.rule = ("random scripts (2-8 input-section descriptions over 1-5 output sections, optional KEEP and file "
                "patterns) against 5-30 custom sections in 1-3 objects; a case counts when GNU ld accepts the script, "
                ">=3 markers were compared where the fnmatch model agrees with GNU ld, and at least one section was "
                "placed by a description; distinct = distinct (script, section-name list)")
    ctx.assumptions = ["GNU ld 2.40 is the arbiter of placement; markers where the POSIX-fnmatch model disagrees with "
                       "it (e.g. backslash escapes, which ld 2.40 compares literally in its prefix pre-check) are "
                       "inconclusive", "both linkers get --gc-sections; dead sections GNU ld discards are not judged"]
    tools.wild()
    n = ctx.pick(150, 1000)
    jobs = [("p", 0)] + [("c", i) for i in range(n)]
    if ctx.replay is not None:
        c = str(ctx.replay.get("case"))
        jobs = [("p", 0)] if c.startswith("pinned") else [("c", int(c))]

    def go(j):
        if j[0] == "p":
            pinned(ctx)
        else:
            one_case(ctx, j[1])
    pmap(go, jobs)
