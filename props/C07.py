"""C07 String merging preserves every referenced string.

Oracle (static, from the generator's knowledge of every literal): for every reference into a
SHF_MERGE|SHF_STRINGS input section - a named symbol + addend, or a section symbol + offset into
the middle of a string - the bytes at the relocated output address, up to and including the NUL,
equal the input bytes from that offset; every distinct input string occurs in the output section;
the same holds with --no-string-merge. The oracle is first run on GNU ld's output of the same
inputs (calibration). Workload: duplicates across objects, shared suffixes, empty strings,
mid-string references, strings straddling 256-byte map blocks, >12 strings per block, 1- and
4-byte characters, alignment 8, sections from 100 B to MiBs, tiny and default split thresholds,
threads x perturbation; an unterminated final string must give a diagnostic or a correct output.
"""
import os
import struct

from vlib import elf, tools
from vlib.common import pmap, rng

LEVEL = "exploration"


def esc(b):
    return "".join(chr(c) if 32 <= c < 127 and c not in (34, 92) else f"\\{c:03o}" for c in b)


def gen_case(ctx, r, ci):
    """Returns (objects, refs, strings, secnames) where refs = list of (marker symbol, expected bytes incl NUL)."""
    nobj = r.choice([2, 3, 6])
    big = r.random() < (0.15 if ctx.quick else 0.3)
    vocab = [bytes(r.choice(b"abcdefghijklmnopqrstuvwxyz0123456789_ %") for _ in range(r.randint(1, 24))) for _ in range(60)]
    objs, refs, allstrings = [], [], {}
    start = [".globl _start\n.text\n_start:\n    mov $60,%eax\n    xor %edi,%edi\n    syscall\n"]
    objs.append(tools.assemble(ctx, "".join(start), name=f"c07-{ci}-start"))
    for oi in range(nobj):
        src = []
        data = [".data\n"]
        nsec = r.choice([1, 2, 3])
        for si in range(nsec):
            kind = r.choice(["str1.1", "str1.1", "str1.8", "str4.4", "custom"])
            if kind == "str1.1":
                sec, width, hdr = ".rodata.str1.1", 1, '.section .rodata.str1.1,"aMS",@progbits,1\n'
            elif kind == "str1.8":
                sec, width, hdr = ".rodata.str1.8", 1, '.section .rodata.str1.8,"aMS",@progbits,1\n.p2align 3\n'
            elif kind == "str4.4":
                sec, width, hdr = ".rodata.str4.4", 4, '.section .rodata.str4.4,"aMS",@progbits,4\n.p2align 2\n'
            else:
                sec, width, hdr = ".mergestr", 1, '.section .mergestr,"aMS",@progbits,1\n'
            src.append(hdr)
            n = r.choice([3, 20, 80, 400]) if not big else r.choice([400, 3000, 20000])
            for k in range(n):
                c = r.random()
                if c < 0.25:
                    s = r.choice(vocab)
                elif c < 0.32:
                    s = b""
                elif c < 0.4:
                    s = r.choice(vocab) + r.choice(vocab)           # shared suffix/prefix material
                elif c < 0.46:
                    s = b"L" * r.randint(250, 800)                     # straddles 256-byte blocks
                elif c < 0.6:
                    s = bytes([r.choice(b"xyz")])                        # many tiny strings per block
                else:
                    s = f"o{oi}s{si}k{k}".encode() + r.choice(vocab)
                lbl = f".Ls{oi}_{si}_{k}"
                if kind == "str1.8":
                    src.append(".p2align 3\n")
                src.append(f"{lbl}:\n")
                if width == 1:
                    src.append(f'    .string "{esc(s)}"\n')
                    raw = s + b"\0"
                else:
                    src.append("    .long " + ",".join(str(c) for c in s) + (",0\n" if s else "0\n"))
                    raw = b"".join(struct.pack("<I", c) for c in s) + b"\0\0\0\0"
                allstrings.setdefault(sec, set()).add(raw)
                # references
                if r.random() < 0.3:
                    off = 0 if not s or r.random() < 0.5 else r.randrange(0, len(s) + 1) * width
                    m = f"r{ci}_{oi}_{si}_{k}"
                    if r.random() < 0.5:
                        # named global symbol + addend
                        g = f"g{ci}_{oi}_{si}_{k}"
                        src.append(f".globl {g}\n.set {g}, {lbl}\n")
                        data.append(f".globl {m}\n{m}: .quad {g}+{off}\n")
                    else:
                        # local label => section symbol + offset (possibly mid-string)
                        data.append(f".globl {m}\n{m}: .quad {lbl}+{off}\n")
                    refs.append((m, raw[off:], width))
        objs.append(tools.assemble(ctx, "".join(src) + "".join(data), name=f"c07-{ci}-{oi}"))
    return objs, refs, allstrings


def read_cstr(e, va, width):
    off = e.vaddr_to_off(va)
    if off is None:
        return None
    d = e.data
    if width == 1:
        end = d.find(b"\0", off)
        return None if end < 0 else d[off:end + 1]
    o = off
    while o + width <= len(d):
        if d[o:o + width] == b"\0" * width:
            return d[off:o + width]
        o += width
    return None


def split_strings(blob, width):
    if width == 1:
        parts = blob.split(b"\0")
        return {p + b"\0" for p in parts[:-1]}
    out, cur = set(), 0
    for o in range(0, len(blob) - width + 1, width):
        if blob[o:o + width] == b"\0" * width:
            out.add(blob[cur:o + width])
            cur = o + width
    return out


def oracle(path, refs, allstrings, check_presence=True):
    """Returns list of (sig, msg)."""
    e = elf.Elf(path)
    syms = {s.name: s for s in e.symtab() if s.name}
    V = []
    for m, want, width in refs:
        sy = syms.get(m)
        if sy is None:
            V.append(("marker-missing", f"marker {m} not in symtab"))
            continue
        ptr = e.u64_at(sy.value)
        got = read_cstr(e, ptr, width) if ptr is not None else None
        if got != want:
            kind = "mid-string" if False else "reference"
            V.append((f"wrong-bytes:width={width}", f"reference {m} -> {ptr:#x} reads {got[:40] if got else got!r}, expected {want[:40]!r}"))
            if len(V) > 5:
                break
    if check_presence:
        for sec, strs in allstrings.items():
            width = 4 if "str4" in sec else 1
            blob = b"".join(e.sec_data(s) for s in e.sections if s.name == sec or (s.name == ".rodata" and sec.startswith(".rodata")))
            present = split_strings(blob, width)
            for raw in strs:
                # exact entry, or (tail merging by a reference linker) a suffix of an entry
                if raw not in present and raw not in blob:
                    V.append(("string-missing", f"input string {raw[:40]!r} of {sec} not found in the output section"))
                    break
    return V


def one(ctx, ci):
    if ctx.replay is not None and str(ctx.replay.get("case")) != str(ci):
        return
    r = rng("C07", ctx.seed, ci)
    objs, refs, allstrings = gen_case(ctx, r, ci)
    wd = ctx.scratch.dir("c", ci)
    base = [*objs, "--no-gc-sections"]
    # calibration
    lo = os.path.join(wd, "ld.out")
    rl = tools.link("ld", [*base, "-o", lo], timeout=300)
    if not rl.ok:
        ctx.inconclusive("reference linker rejected the case")
        return
    cv = oracle(lo, refs, allstrings)
    if cv:
        ctx.inconclusive(f"oracle fails on GNU ld's output: {cv[0][0]}")
        return
    variants = []
    B = r.choice([256, 512, 1024, 4096])
    variants.append(("default", [], {}))
    variants.append(("tiny-groups", [f"--wild-experiments={r.choice([1, 2, 3, 8, 24])},{B}", f"--threads={r.choice([1, 4, 16])}"],
                     {"WILD_VERIF_SCHED": f"{r.randrange(1, 10**6)}:40"}))
    variants.append(("no-merge", ["--no-string-merge"], {}))
    if not ctx.quick:
        variants.append(("threads1", ["--threads=1", f"--wild-experiments=2,{B}"], {}))
    nrefs_mid = sum(1 for m, w, width in refs if True)
    for vname, vargs, venv in variants:
        out = os.path.join(wd, f"wild-{vname}.out")
        rw = tools.link("wild", [*base, *vargs, "-o", out], extra_env=venv, timeout=300)
        if rw.timed_out:
            ctx.inconclusive("watchdog fired")
            return
        if not rw.ok:
            if "panicked" in rw.errtext():
                ctx.violation(f"panic:{vname}", f"wild panicked: {rw.errtext()[:300]}", case=ci, files={"objs": os.path.dirname(objs[0])})
            else:
                ctx.violation(f"rejected-valid-input:{vname}", f"wild failed on inputs GNU ld links: {rw.errtext()[:300]}", case=ci)
            return
        V = oracle(out, refs, allstrings, check_presence=True)
        for sig, msg in V[:2]:
            files = {f"in/{os.path.basename(o)}": o for o in objs}
            files["cmd.txt"] = " ".join(["wild", *base, *vargs]) + "\n" + str(venv)
            ctx.violation(f"{sig}:variant={vname}", msg, case=ci, files=files)
        if V:
            return
    total = sum(len(v) for v in allstrings.values())
    ctx.note("references_checked", len(refs) * len(variants))
    ctx.note("distinct_strings", total)
    ctx.note_max("max_strings_in_case", total)
    ctx.held(fingerprint=f"{ci}:{len(refs)}:{total}", nontrivial=len(refs) >= 3 and total >= 5,
             sample={"case": ci, "objects": len(objs) - 1, "references": len(refs), "distinct_strings": total,
                     "sections": sorted(allstrings)} if ci < 3 else None)


UNTERMINATED = """.globl _start
.text
_start: mov $60,%eax
 syscall
.section .rodata.str1.1,"aMS",@progbits,1
.globl sa
sa: .string "terminated"
.ascii "no terminator"
.data
.globl ra
ra: .quad sa
"""


def unterminated(ctx):
    obj = tools.assemble(ctx, UNTERMINATED, name="c07-unterm")
    wd = ctx.scratch.dir("unterm")
    out = os.path.join(wd, "out")
    r = tools.link("wild", [obj, "--no-gc-sections", "-o", out], timeout=60)
    if r.signal is not None or "panicked" in r.errtext():
        ctx.violation("unterminated:crash", f"unterminated merge string crashed wild: {r.errtext()[:200]}", case="unterminated")
    elif r.ok:
        V = oracle(out, [("ra", b"terminated\0", 1)], {}, check_presence=False)
        if V:
            ctx.violation("unterminated:corrupt-output", V[0][1], case="unterminated")
        else:
            ctx.held(fingerprint="unterminated:linked-correctly")
    else:
        ctx.held(fingerprint="unterminated:diagnostic", sample={"case": "unterminated", "stderr": r.errtext().strip()[:120]})


def main(ctx):
    ctx.rule = ("generated merge-string sections with known literals; non-trivial = GNU ld's output satisfies the oracle, the case "
                "has >=3 references and >=5 distinct strings, and every wild variant (default, tiny split groups + perturbation, "
                "--no-string-merge) was checked; distinct = (case, references, strings)")
    ctx.assumptions = ["static non-PIE freestanding links, so pointers in .data are final in the file",
                       "a string counts as present when its bytes including the terminator occur in the output section"]
    tools.wild()
    n = ctx.pick(40, 500)
    if ctx.replay is None or ctx.replay.get("case") == "unterminated":
        unterminated(ctx)
    pmap(lambda i: one(ctx, i), range(n), workers=8)
