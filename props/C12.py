"""C12 Relocation overflow is reported exactly when a value doesn't fit.

Two layers. (a) In-process (`units range`): wild's `relocation_from_raw / relocation_type_from_raw`
tables + `RelocationKindInfo::write_to_buffer` for every x86-64 / AArch64 type in an independently
written psABI range table x boundary and random values: a value that must fit has to be accepted
and (data fields) written exactly, a value that cannot fit has to be rejected; values on which
GNU ld and lld differ / the psABI is silent are excluded and counted. (b) End-to-end: one-relocation
assembly objects (`.reloc`), the value set through an absolute `--defsym` symbol, a self-relative
addend (PC-relative types) or a calibrated addend (TLS / GOT / PLT types), linked by wild, GNU ld and
ld.lld (x86-64) or wild and ld.lld + the psABI table (AArch64). Both references accept => wild must
accept and write the same field bytes; both reject => wild must reject with a diagnostic; references
disagree => inconclusive. The references also calibrate the table of layer (a): a contradiction is a
harness error, not a verdict.
"""
import json
import os
import threading

from vlib import tools
from vlib.common import HarnessError, pmap, rng
from vlib.elf import Elf
from vlib.units import run_units, units_bin

LEVEL = "exploration"
A64 = "aarch64-linux-gnu"
I64MIN, I64MAX = -(1 << 63), (1 << 63) - 1

_seen_lock = threading.Lock()
_seen = set()


# ---- value classes: same rule as harness/units/src/range.rs (class_of / fmt_num) ----------------
def fmt_num(x):
    if abs(x) < 100000:
        return str(x)
    for k in range(8, 65):
        for d in range(-2, 3):
            p = 1 << k
            if x == p + d:
                return f"2^{k}" if d == 0 else f"2^{k}{d:+d}"
            if x == -p + d:
                return f"-2^{k}" if d == 0 else f"-2^{k}{d:+d}"
    return str(x)


def class_of(bps, x):
    lo = hi = None
    for b in bps:
        if b <= x:
            lo = b
        elif hi is None:
            hi = b
    if lo is None and hi is not None:
        return "<" + fmt_num(hi)
    if hi is None and lo is not None:
        return fmt_num(lo) if lo == I64MAX else ">=" + fmt_num(lo)
    if lo is not None and hi is not None:
        return fmt_num(lo) if lo == hi - 1 else f"{fmt_num(lo)}..{fmt_num(hi - 1)}"
    return "any"


class Tab:
    def __init__(self, d):
        self.arch, self.name, self.r_type = d["arch"], d["name"], d["r_type"]
        self.nbytes, self.align, self.insn = d["nbytes"], d["align"], d["insn"]
        self.acc = (int(d["acc_lo"]), int(d["acc_hi"]))
        self.rej = (int(d["rej_lo"]), int(d["rej_hi"]))
        self.bps = [int(b) for b in d["breakpoints"]]
        self.wild_supports = d["wild_supports"]

    def verdict(self, x):
        if self.acc[0] <= x < self.acc[1]:
            return "accept"
        if x < self.rej[0] or x >= self.rej[1]:
            return "reject"
        return "silent"

    def cls(self, x):
        return class_of(self.bps, x)


def load_table():
    _, _, recs = run_units(["table"])
    return {(r["arch"], r["name"]): Tab(r) for r in recs if r.get("t") == "range"}


# ---- end-to-end cases -----------------------------------------------------------------------
# (name, field bytes, mode, instruction text or None for a data field)
X86 = [
    ("R_X86_64_8", 1, "abs", None), ("R_X86_64_16", 2, "abs", None), ("R_X86_64_32", 4, "abs", None),
    ("R_X86_64_32S", 4, "abs", None), ("R_X86_64_64", 8, "abs", None),
    ("R_X86_64_PC8", 1, "pcself", None), ("R_X86_64_PC16", 2, "pcself", None),
    ("R_X86_64_PC32", 4, "pcself", None), ("R_X86_64_PC64", 8, "pcself", None),
    ("R_X86_64_PLT32", 4, "func", None),
    ("R_X86_64_TPOFF32", 4, "tls", None), ("R_X86_64_GOTPCREL", 4, "got", None),
]
AARCH64 = [
    ("R_AARCH64_ABS16", 2, "abs", None), ("R_AARCH64_ABS32", 4, "abs", None), ("R_AARCH64_ABS64", 8, "abs", None),
    ("R_AARCH64_PREL16", 2, "pcself", None), ("R_AARCH64_PREL32", 4, "pcself", None),
    ("R_AARCH64_PREL64", 8, "pcself", None),
    ("R_AARCH64_MOVW_UABS_G0", 4, "abs", "movz x9, #0"), ("R_AARCH64_MOVW_UABS_G1", 4, "abs", "movz x9, #0, lsl #16"),
    ("R_AARCH64_MOVW_UABS_G2", 4, "abs", "movz x9, #0, lsl #32"),
    ("R_AARCH64_MOVW_SABS_G0", 4, "abs", "movz x9, #0"), ("R_AARCH64_MOVW_SABS_G1", 4, "abs", "movz x9, #0, lsl #16"),
    ("R_AARCH64_MOVW_SABS_G2", 4, "abs", "movz x9, #0, lsl #32"),
    ("R_AARCH64_MOVW_PREL_G0", 4, "pcself", "movz x9, #0"), ("R_AARCH64_MOVW_PREL_G1", 4, "pcself", "movz x9, #0, lsl #16"),
    ("R_AARCH64_MOVW_PREL_G2", 4, "pcself", "movz x9, #0, lsl #32"),
    ("R_AARCH64_ADR_PREL_LO21", 4, "pcself", "adr x9, ."), ("R_AARCH64_LD_PREL_LO19", 4, "pcself", "ldr x9, ."),
    ("R_AARCH64_CONDBR19", 4, "pcself", "b.eq ."), ("R_AARCH64_TSTBR14", 4, "pcself", "tbz w9, #0, ."),
    ("R_AARCH64_TLSLE_MOVW_TPREL_G0", 4, "tls", "movz x9, #0"),
    ("R_AARCH64_TLSLE_MOVW_TPREL_G1", 4, "tls", "movz x9, #0, lsl #16"),
    ("R_AARCH64_TLSLE_ADD_TPREL_HI12", 4, "tls", "add x9, x9, #0, lsl #12"),
    # R_AARCH64_TLSLE_ADD_TPREL_LO12 (checked form) is not implemented by ld.lld 14: no reference
]
PINNED = [("x86_64", "R_X86_64_8", 200), ("x86_64", "R_X86_64_16", 40000), ("x86_64", "R_X86_64_64", I64MAX),
          ("aarch64", "R_AARCH64_ABS64", I64MAX), ("aarch64", "R_AARCH64_MOVW_PREL_G0", 65536),
          ("aarch64", "R_AARCH64_TLSLE_MOVW_TPREL_G0", 1 << 20)]


def source(arch, name, mode, insn, addend, x):
    """Assembly for one relocation at `fld`, followed by a guard word."""
    data = {1: ".byte 0", 2: ".short 0", 4: ".long 0", 8: ".quad 0"}
    flags = '"ax"' if insn else '"aw"'
    body = []
    if arch == "aarch64":
        body.append(".balign 4")
    sym = {"abs": "v", "pcself": "fld", "tls": "tv", "got": "gv", "func": "fn"}[mode]
    if mode == "abs":
        body.append(".globl v")
    a = x if mode == "pcself" else addend
    expr = sym if a == 0 else f"{sym}{a:+d}"
    body += [".globl fld", "fld:", f".reloc fld, {name}, {expr}"]
    s = [f'.section .fld,{flags},%progbits'] + body
    return s, data, expr


def make_source(arch, tab_nbytes, name, mode, insn, addend, x):
    s, data, _ = source(arch, name, mode, insn, addend, x)
    s.append(" " + insn if insn else " " + data[tab_nbytes])
    s.append(" .long 0xAAAAAAAA")
    if mode == "tls":
        s += ['.section .tdata,"awT",%progbits', ".globl tv", "tv:", " .quad 1"]
    if mode == "got":
        s += [".data", ".globl gv", "gv:", " .quad 2"]
    s += [".text", ".globl _start", "_start:", " ret"]
    if mode == "func":
        s += [".globl fn", ".type fn,%function", "fn:", " ret"]
    return "\n".join(s) + "\n"


MARK = 0x1122334455667788
_tmpl_lock = threading.Lock()
_tmpl = {}


def object_for(ctx, arch, nbytes, name, mode, insn, addend, x, tag):
    """Object with one relocation whose addend is `addend` (pcself: x). Assembled once per type with a
    marker addend; the r_addend bytes of the RELA entry are then patched (no compiler per value)."""
    tgt = A64 if arch == "aarch64" else None
    a = x if mode == "pcself" else addend
    if mode == "abs":
        return tools.assemble(ctx, make_source(arch, nbytes, name, mode, insn, 0, 0), target=tgt)
    key = (arch, name)
    with _tmpl_lock:
        data = _tmpl.get(key)
    if data is None:
        t = tools.assemble(ctx, make_source(arch, nbytes, name, mode, insn, MARK, MARK), target=tgt)
        data = open(t, "rb").read()
        if data.count(MARK.to_bytes(8, "little")) != 1:
            raise HarnessError(f"template object for {name}: addend marker not found exactly once")
        with _tmpl_lock:
            _tmpl[key] = data
    d = ctx.scratch.dir("o", tag)
    path = os.path.join(d, "a.o")
    with open(path, "wb") as f:
        f.write(data.replace(MARK.to_bytes(8, "little"), (a & ((1 << 64) - 1)).to_bytes(8, "little")))
    return path


def linkers(arch):
    return ("ld", "lld", "wild") if arch == "x86_64" else ("lld", "wild")


# Self-validation only: a stand-in for wild that is known to break the property (GNU ld told to
# keep going after relocation overflows: it "accepts" and truncates).
FAKE_WILD = None


def do_link(ctx, arch, kind, obj, x, mode, tag, nread=8, fake=None):
    d = ctx.scratch.dir("l", tag + "-" + kind + ("-fake" if fake else ""))
    out = tools.fresh(os.path.join(d, "out"))
    args = (["-m", "aarch64elf"] if (kind == "wild" and arch == "aarch64" and not fake) else []) + [
        obj, "-o", out, "--no-gc-sections"]
    # one thread each: the machine is shared and these links are tiny (no effect on the property)
    if kind == "wild" and not fake:
        args += ["--threads=1", "--no-fork"]
    elif kind == "lld":
        args += ["--threads=1"]
    if mode == "abs":
        args.append(f"--defsym=v=0x{x & ((1 << 64) - 1):x}")
    if fake and kind == "wild":
        from vlib.common import run as _run
        r = _run(fake + args, timeout=120)
        cmd = " ".join(fake + args)
    else:
        r = tools.link(kind, args, timeout=120)
        cmd = " ".join([tools.linker_path(kind)] + args)
    if r.timed_out:
        return ("timeout", None, cmd, r)
    text = r.errtext()
    if r.signal or "panicked at" in text or "RUST_BACKTRACE" in text:
        return ("crash", None, cmd, r)
    if r.rc != 0:
        return ("reject", None, cmd, r) if text.strip() else ("silent-failure", None, cmd, r)
    try:
        e = Elf(out)
        f = e.sym_by_name("fld")
        b = e.read_va(f.value, nread) if f else None
    except Exception as ex:  # unreadable output of a successful link
        return ("bad-output", str(ex), cmd, r)
    if b is None:
        return ("bad-output", "fld not found or unmapped", cmd, r)
    return ("accept", b, cmd, r)


def sext(v, bits):
    v &= (1 << bits) - 1
    return v - (1 << bits) if v >> (bits - 1) else v


class Calib:
    """Per (type, linker): the value the field gets with addend 0 (TLS / GOT modes)."""
    def __init__(self):
        self.lock = threading.Lock()
        self.x0 = {}

    def get(self, ctx, arch, name, nbytes, mode, insn, kind, tab):
        key = (arch, name, kind)
        with self.lock:     # calibrations are few; serialising them keeps their files private
            if key in self.x0:
                return self.x0[key]
            cname, cinsn = name, insn
            if arch == "aarch64" and mode == "tls":
                # the TP offset of `tv` is the same for every TLSLE type; LO12 holds it completely
                cname, cinsn = "R_AARCH64_TLSLE_ADD_TPREL_LO12_NC", "add x9, x9, #0"
            obj = object_for(ctx, arch, nbytes, cname, mode, cinsn, 0, 0, f"cal-{name}-{kind}")
            st, b, cmd, r = do_link(ctx, arch, kind, obj, 0, mode, f"cal-{name}", nread=nbytes + 4)
            val = None
            if st == "accept":
                if insn:
                    val = decode_insn_value(cname, int.from_bytes(b[:4], "little"))
                else:
                    val = sext(int.from_bytes(b[:nbytes], "little"), 8 * nbytes)
            else:
                ctx.note(f"calibration-link-failed:{name}:{kind}:{st}")
            self.x0[key] = val
            return val


def decode_insn_value(name, w):
    """Value held by the instruction after an addend-0 link, for the calibrated AArch64 types (the
    TLS offsets are small and non-negative here)."""
    if "MOVW" in name:
        hw = (w >> 21) & 3
        imm = (w >> 5) & 0xffff
        if (w >> 29) & 3 == 0:   # MOVN
            return ~(imm << (16 * hw))
        return imm << (16 * hw)
    if "ADD_TPREL_HI12" in name:
        return ((w >> 10) & 0xfff) << 12
    if "ADD_TPREL_LO12" in name:
        return (w >> 10) & 0xfff
    return None


def values_for(tab, r, n_random):
    n = 8 * tab.nbytes if tab.nbytes else None
    v = set()
    for b in tab.bps + [tab.acc[0], tab.acc[1], tab.rej[0], tab.rej[1]]:
        for d in (-1, 0):
            v.add(b + d * tab.align)
    v.update([-1 * tab.align, 0, tab.align, I64MIN, I64MAX, I64MAX - tab.align + 1 if tab.align > 1 else I64MAX - 1])
    span = max(tab.rej[1] - tab.rej[0], 4)
    for _ in range(n_random):
        c = r.random()
        if c < 0.5 and span < (1 << 66):
            x = tab.rej[0] - span // 2 + r.randrange(2 * span)
        elif c < 0.8:
            x = r.choice(tab.bps) + r.randrange(-4096, 4097)
        else:
            x = r.randrange(I64MIN, I64MAX + 1)
        v.add(x)
    al = tab.align
    out = sorted(x - (x % al) for x in v if I64MIN <= x - (x % al) <= I64MAX)
    return sorted(set(out))


class Recorder:
    """Stands in for ctx during self-validation: collects what judge() would have reported."""
    def __init__(self, ctx):
        self.scratch, self.sigs = ctx.scratch, []

    def held(self, *a, **k):
        pass

    inconclusive = note = held

    def violation(self, sig, *a, **k):
        self.sigs.append(sig)


def judge(ctx, calib, table, arch, name, nbytes, mode, insn, x, contradictions, fake=None):
    tab = table[(arch, name)]
    case = f"{arch}:{name}:{x}"
    cls = tab.cls(x)
    tgt = A64 if arch == "aarch64" else None
    res = {}
    for kind in linkers(arch):
        addend = 0
        if mode in ("tls", "got", "func"):
            x0 = calib.get(ctx, arch, name, nbytes, mode, insn, kind, tab)
            if x0 is None:
                res[kind] = ("no-calibration", None, "", None)
                continue
            addend = x - x0
            if not I64MIN <= addend <= I64MAX:
                ctx.inconclusive("value not reachable through a 64-bit addend (calibrated mode)")
                return
        src = make_source(arch, nbytes, name, mode, insn, addend, x)
        obj = object_for(ctx, arch, nbytes, name, mode, insn, addend, x, f"{name}-{x & ((1 << 64) - 1):x}-{kind}")
        res[kind] = do_link(ctx, arch, kind, obj, x, mode, f"{name}-{x & ((1 << 64) - 1):x}",
                            nread=nbytes + 4, fake=fake) + (src, obj)
    refs = [k for k in linkers(arch) if k != "wild"]
    rst = [res[k][0] for k in refs]
    if any(s not in ("accept", "reject") for s in rst):
        for k in refs:
            if res[k][0] not in ("accept", "reject"):
                ctx.note(f"reference-unusable:{name}:{k}:{res[k][0]}")
        ctx.inconclusive("reference linker crashed, timed out or could not be calibrated")
        return
    want = tab.verdict(x)
    if arch == "x86_64":
        if rst[0] != rst[1]:
            ctx.inconclusive("reference linkers disagree (GNU ld vs lld)")
            ctx.note(f"refs-disagree:{name}:{cls}")
            if want != "silent":
                contradictions.append(f"{name} value {x} ({cls}): table says {want}, ld={rst[0]} lld={rst[1]}")
            return
        if rst[0] == "accept" and res["ld"][1][:nbytes + 4] != res["lld"][1][:nbytes + 4]:
            ctx.inconclusive("reference linkers wrote different field bytes")
            return
        if want != "silent" and want != rst[0]:
            contradictions.append(f"{name} value {x} ({cls}): table says {want}, both references {rst[0]}")
        expect = rst[0]
    else:
        if want == "silent":
            ctx.inconclusive("psABI table silent for this value")
            return
        if want != rst[0]:
            ctx.inconclusive("ld.lld disagrees with the psABI range table")
            ctx.note(f"lld-vs-psabi:{name}:{cls}:lld={rst[0]}")
            return
        expect = want
    refkind = refs[-1]
    if expect == "accept":
        # the reference field must hold the value (data fields) - otherwise the generator is off
        rb = res[refkind][1]
        if not insn and int.from_bytes(rb[:nbytes], "little") != x & ((1 << (8 * nbytes)) - 1):
            ctx.inconclusive("reference output does not hold the intended value (generator)")
            return
    wst, wb, wcmd, wr = res["wild"][:4]
    if wst in ("timeout", "no-calibration"):
        ctx.inconclusive("wild timed out or could not be calibrated")
        return
    files = {"a.s": res["wild"][4], "a.o": res["wild"][5],
             "commands.txt": "\n".join(res[k][2] for k in linkers(arch)) + "\n",
             "wild.stderr": wr.errtext() if wr else ""}
    for k in refs:
        files[k + ".stderr"] = res[k][3].errtext()
    sig = None
    if wst in ("crash", "silent-failure", "bad-output"):
        sig, desc = f"reloc={name}:value-class={cls}:{wst}", f"wild {wst} ({(wr.errtext() if wr else '')[:200]})"
    elif wst == "timeout" or wst == "no-calibration":
        ctx.inconclusive("wild timed out or could not be calibrated")
        return
    elif expect == "accept" and wst == "reject":
        sig = f"reloc={name}:value-class={cls}:rejected"
        desc = (f"{name} with value {x} ({cls}): {' and '.join(refs)} accept and write it, wild fails: "
                f"{wr.errtext().strip()[-300:]}")
    elif expect == "reject" and wst == "accept":
        sig = f"reloc={name}:value-class={cls}:accepted"
        desc = (f"{name} with value {x} ({cls}) does not fit: {' and '.join(refs)} report an overflow, wild links "
                f"and writes {wb[:nbytes].hex()} (silent truncation)")
    elif expect == "accept":
        rb = res[refkind][1]
        if wb[:nbytes + 4] != rb[:nbytes + 4]:
            sig = f"reloc={name}:value-class={cls}:wrong-bytes"
            desc = (f"{name} with value {x}: wild writes {wb[:nbytes + 4].hex()} (field + guard), {refkind} writes "
                    f"{rb[:nbytes + 4].hex()}")
    if sig is None:
        ctx.held(fingerprint=f"e2e:{case}", nontrivial=True,
                 sample={"reloc": name, "value": x, "class": cls, "expected": expect} if x in (0, 1) else None)
        ctx.note(f"e2e:{arch}:{name}:{expect}ed-by-all")
        return
    with _seen_lock:
        first = fake is not None or sig not in _seen
        if fake is None:
            _seen.add(sig)
    if first:
        ctx.violation(sig, desc, case=case, files=files, info={"arch": arch, "reloc": name, "value": x, "mode": mode})
    else:
        ctx.held(fingerprint=None, nontrivial=False)
        ctx.note(f"further-witnesses:{sig}")


def main(ctx):
    ctx.rule = ("layer (a): one case per relocation type (probes over boundary + random values, counted per "
                "value class); layer (b): one case per (type, value): boundary values of the field width and of "
                "the psABI range, +-1, and random values; a case counts when the references agree with each other "
                "(x86-64) / with the psABI table (AArch64) and wild's exit status and field bytes were compared")
    ctx.assumptions = [
        "GNU ld 2.40 and ld.lld 14 define 'fits' on x86-64; ld.lld 14 + the AArch64 ELF psABI range table on AArch64",
        "a self-relative addend (S == P) sets the value of PC-relative types; TLS/GOT types use an addend calibrated "
        "per linker from an addend-0 link",
        "layer (a) feeds write_to_buffer the final value directly; how values are encoded into instruction fields is "
        "C13's subject (only accept/reject is judged for those here)",
        "misaligned values and values on which the references differ are excluded and counted"]
    table = load_table()
    wild = tools.wild()
    calib = Calib()
    contradictions = []

    if ctx.replay is not None:
        info = ctx.replay.get("info") or {}
        if "args" in info:
            counts, mism, _ = run_units(info["args"])
            inproc(ctx, counts, mism, info["args"])
            return
        arch, name, x = info["arch"], info["reloc"], int(info["value"])
        ent = [t for t in (X86 if arch == "x86_64" else AARCH64) if t[0] == name][0]
        judge(ctx, calib, table, arch, name, ent[1], ent[2], ent[3], x, contradictions)
        return

    # ---- layer (b): end-to-end --------------------------------------------------------------
    jobs = []
    nrand = ctx.pick(3, 40)
    for arch, types in (("x86_64", X86), ("aarch64", AARCH64)):
        for name, nbytes, mode, insn in types:
            tab = table.get((arch, name))
            if tab is None:
                raise HarnessError(f"no range table entry for {name}")
            r = rng("C12", ctx.seed, name)
            for x in values_for(tab, r, nrand):
                jobs.append((arch, name, nbytes, mode, insn, x))
    for arch, name, x in PINNED:
        ent = [t for t in (X86 if arch == "x86_64" else AARCH64) if t[0] == name][0]
        jobs.append((arch, name, ent[1], ent[2], ent[3], x))
    jobs = sorted(set(jobs), key=lambda j: (j[0], j[1], j[5]))
    ctx.extra["e2e_cases"] = len(jobs)
    pmap(lambda j: judge(ctx, calib, table, *j, contradictions), jobs)
    if contradictions:
        raise HarnessError("the in-process range table is contradicted by the reference linkers:\n  "
                           + "\n  ".join(contradictions[:10]))

    # ---- layer (a): in-process ----------------------------------------------------------------
    args = ["range", ctx.seed, ctx.pick(2000, 150000)]
    counts, mism, _ = run_units(args, timeout=3600)
    inproc(ctx, counts, mism, args)
    del wild

    # ---- self-validation on every run: both layers must see a planted fault ---------------------
    rec = Recorder(ctx)
    ent = [t for t in X86 if t[0] == "R_X86_64_PC32"][0]
    judge(rec, calib, table, "x86_64", ent[0], ent[1], ent[2], ent[3], 1 << 31, [],
          fake=[tools.LD_BFD, "--noinhibit-exec"])
    if "reloc=R_X86_64_PC32:value-class=>=2^31:accepted" not in rec.sigs:
        raise HarnessError(f"self-validation: a linker that truncates PC32 overflows was not detected ({rec.sigs})")
    ctx.note_set("self-validation:faults-detected", "e2e:ld --noinhibit-exec as the linker under test")
    for mut, want in (("range_pc32_unsigned", "reloc=R_X86_64_PC32:value-class=>=2^31:accepted"),
                      ("range_32s_rejects_negative", "reloc=R_X86_64_32S:value-class=-2^31..-1:rejected"),
                      ("range_abs32_truncates", "reloc=R_AARCH64_ABS32:value-class=2^31..2^32-1:wrong-bytes")):
        _, mm, _ = run_units(["range", ctx.seed, 300], extra_env={"UNITS_MUTANT": mut})
        if want not in {m["sig"] for m in mm}:
            raise HarnessError(f"self-validation: mutant {mut} was not detected "
                               f"({[m['sig'] for m in mm if mut.split('_')[1] in m['sig'].lower()][:5]})")
        ctx.note_set("self-validation:faults-detected", "inproc:" + mut)


def inproc(ctx, counts, mism, args):
    total = 0
    for c in counts:
        name = c["space"].split("/")[-1]
        if c.get("unsupported_by_wild"):
            ctx.inconclusive("relocation type not implemented by wild")
            ctx.note_set("unsupported-reloc-types", name)
            continue
        total += c.get("probes", 0)
        ctx.note(f"inproc:{name}:must-accept", c.get("must_accept", 0))
        ctx.note(f"inproc:{name}:must-reject", c.get("must_reject", 0))
        ctx.note("inproc:excluded-silent", c.get("silent_excluded", 0))
        ctx.note("inproc:excluded-misaligned", c.get("misaligned_excluded", 0))
        ctx.held(fingerprint="inproc:" + c["space"], nontrivial=c.get("must_accept", 0) > 0 and
                 (c.get("must_reject", 0) > 0 or name.endswith("64")),
                 sample=None)
    ctx.extra["inprocess_probes"] = total
    for m in mism:
        sig = m["sig"]
        s0 = m["samples"][0] if m.get("samples") else {}
        with _seen_lock:
            first = sig not in _seen
            _seen.add(sig)
        if not first:
            ctx.note(f"further-witnesses:{sig}", m["n"])
            continue
        probe = ""
        if s0:
            probe = f"{units_bin()} probe {s0.get('arch')} {s0.get('r_type')} {s0.get('value_hex')} 0x0\n"
        ctx.violation(sig, f"in-process write_to_buffer: {s0.get('what', '')}: {m['n']} probes, e.g. value "
                           f"{s0.get('value')} -> {s0.get('error') or s0.get('bytes_after') or s0.get('after')}",
                      case="inproc", files={"samples.json": json.dumps(m, indent=1),
                                            "command.txt": units_bin() + " " + " ".join(map(str, args)) + "\n" + probe},
                      info={"args": list(args), "count": m["n"]})
