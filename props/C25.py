"""C25 The dependency file lists exactly the files the link read.

Oracle: the link runs under `strace -f -y -e trace=openat,open,read,pread64,mmap`; every regular file
under the case's sandbox that was opened read-only and then read or mapped is the OBSERVED read set.
The Makefile-syntax file written by --dependency-file is parsed and must name the output as target
and list exactly the observed files (canonical paths), each once. GNU ld's --dependency-file for
the same command calibrates: a file wild read but does not list is a violation only when GNU ld
lists it (or the statement names its kind and GNU ld did not read it); otherwise inconclusive.
"""
import os
import re
import shutil

from vlib import tools
from vlib.common import log, pmap, rng, run, write, read, HarnessError

LEVEL = "exploration"
STRACE = shutil.which("strace")

JUDGED_KINDS = {"object", "archive", "thin-archive", "thin-archive-member", "shared-library", "linker-script",
                "script-input", "version-script", "dynamic-list", "export-dynamic-symbol-list"}


def unit_src(i):
    return f".globl f{i}\n.text\nf{i}:\n mov ${i},%eax\n ret\n.data\n.globl d{i}\nd{i}: .quad {i}\n"


def main_src(calls):
    return ".globl _start\n.text\n_start:\n" + "".join(f" call f{i}\n" for i in calls) + " mov $60,%eax\n xor %edi,%edi\n syscall\n"


# ---------------------------------------------------------------------------------------------
# observation

_OPEN = re.compile(r'^\d+\s+(?:openat\(AT_FDCWD<[^>]*>, |open\()"((?:[^"\\]|\\.)*)", ([A-Z_|0-9]+)(?:, \d+)?\)\s+= \d+<([^>]+)>')
_RESUMED_OPEN = re.compile(r'^\d+\s+<\.\.\. openat resumed>.*= \d+<([^>]+)>')
_UNFINISHED_OPEN = re.compile(r'^(\d+)\s+openat\(AT_FDCWD<[^>]*>, "((?:[^"\\]|\\.)*)", ([A-Z_|0-9]+)')
_USE = re.compile(r'^\d+\s+(?:read|pread64|mmap)\((?:[^<\n]*?)(\d+)<([^>]+)>')


def observed_reads(logpath, sandbox):
    """Paths (realpath) of regular files under sandbox opened O_RDONLY and then read/mapped; also the
    set opened for writing."""
    ro, used, wr = set(), set(), set()
    pending = {}
    for line in open(logpath, errors="replace"):
        m = _OPEN.match(line)
        if m:
            flags, path = m.group(2), m.group(3)
            (wr if ("O_WRONLY" in flags or "O_RDWR" in flags) else ro).add(path)
            continue
        m = _UNFINISHED_OPEN.match(line)
        if m and "unfinished" in line:
            pending[m.group(1)] = m.group(3)
            continue
        m = _RESUMED_OPEN.match(line)
        if m:
            pid = line.split()[0]
            flags = pending.pop(pid, "O_RDONLY")
            (wr if ("O_WRONLY" in flags or "O_RDWR" in flags) else ro).add(m.group(1))
            continue
        m = _USE.match(line)
        if m:
            used.add(m.group(2))
    sb = os.path.realpath(sandbox) + os.sep
    out = set()
    for p in ro & used:
        rp = os.path.realpath(p)
        if rp.startswith(sb) and os.path.isfile(rp) and p not in wr:
            out.add(rp)
    return out, {os.path.realpath(p) for p in wr if os.path.realpath(p).startswith(sb)}


def parse_depfile(text):
    """Returns (target, [deps of the first rule], [other rule targets]) or raises ValueError."""
    text = text.replace("\\\n", " ")
    rules = []
    for line in text.split("\n"):
        if not line.strip():
            continue
        # split at the first unescaped ':' followed by space/end
        m = re.match(r"^((?:[^:\\]|\\.|:(?=[^\s]))+):(?:\s|$)(.*)$", line)
        if not m:
            raise ValueError(f"no rule in line {line[:80]!r}")
        tgt = m.group(1).strip()
        toks = re.findall(r"(?:[^\s\\]|\\.)+", m.group(2))
        un = lambda s: re.sub(r"\\(.)", r"\1", s).replace("$$", "$")
        rules.append((un(tgt), [un(t) for t in toks]))
    if not rules:
        raise ValueError("empty dependency file")
    return rules[0][0], rules[0][1], rules[1:]


# ---------------------------------------------------------------------------------------------
# generation

def build_case(ctx, r, sb):
    """Creates files under sb; returns (args, kinds{realpath: kind}, outname, expect_fail)."""
    kinds = {}
    nunits = r.randint(3, 8)
    calls = []
    args = []

    def obj_for(i, rel):
        p = os.path.join(sb, rel)
        os.makedirs(os.path.dirname(p), exist_ok=True)
        shutil.copy(tools.assemble(ctx, unit_src(i)), p)
        return p

    def spell(rel):
        return os.path.join(sb, rel) if r.random() < 0.3 else rel

    def mark(rel, kind):
        kinds[os.path.realpath(os.path.join(sb, rel))] = kind

    feats = set()
    units = list(range(1, nunits + 1))
    r.shuffle(units)
    main_calls = []
    items = []        # argument groups in command-line order
    u = 0
    choices = ["object", "object", "archive", "thin", "lib-static", "lib-shared", "script-input", "symlinked-object"]
    while u < len(units):
        k = r.choice(choices)
        i = units[u]
        if k == "object":
            rel = r.choice(["", "sub/", "sub/deep/"]) + f"u{i}.o"
            obj_for(i, rel)
            mark(rel, "object")
            items.append([spell(rel)])
            main_calls.append(i)
            u += 1
        elif k == "symlinked-object":
            rel = f"real/u{i}.o"
            obj_for(i, rel)
            os.makedirs(os.path.join(sb, "lnk"), exist_ok=True)
            os.symlink(os.path.join("..", rel), os.path.join(sb, "lnk", f"s{i}.o"))
            mark(rel, "object")
            items.append([spell(f"lnk/s{i}.o")])
            main_calls.append(i)
            u += 1
        elif k in ("archive", "thin", "lib-static"):
            n = min(r.randint(1, 3), len(units) - u)
            members = []
            for j in units[u:u + n]:
                rel = f"m/a{j}.o"
                obj_for(j, rel)
                members.append((j, rel))
            needed = [j for j, _ in members if r.random() < 0.7] or [members[0][0]]
            main_calls += needed
            thin = k == "thin"
            name = f"lib{'t' if thin else 'r'}{i}.a"
            rel = ("libs/" if k == "lib-static" else "") + name
            os.makedirs(os.path.join(sb, os.path.dirname(rel) or "."), exist_ok=True)
            rr = run(["ar", "rcsT" if thin else "rcs", rel, *[m[1] for m in members]], cwd=sb)
            if not rr.ok:
                raise HarnessError("ar failed: " + rr.errtext())
            mark(rel, "thin-archive" if thin else "archive")
            for j, mrel in members:
                if thin:
                    mark(mrel, "thin-archive-member" if j in needed else "thin-archive-member-unneeded")
                else:
                    os.unlink(os.path.join(sb, mrel))
            if k == "lib-static":
                items.append(["-L" + spell("libs"), f"-lr{i}"])
            else:
                items.append([spell(rel)])
            feats.add(k)
            u += n
        elif k == "lib-shared":
            src = obj_for(i, f"so/s{i}.o")
            os.makedirs(os.path.join(sb, "solibs"), exist_ok=True)
            so = os.path.join(sb, "solibs", f"libs{i}.so")
            rr = tools.link("ld", ["-shared", src, "-o", so, "-soname", f"libs{i}.so"])
            os.unlink(src)
            if not rr.ok:
                raise HarnessError("ld -shared failed: " + rr.errtext())
            mark(f"solibs/libs{i}.so", "shared-library")
            items.append(["-L" + spell("solibs"), f"-ls{i}"] if r.random() < 0.6 else [spell(f"solibs/libs{i}.so")])
            main_calls.append(i)
            feats.add(k)
            u += 1
        elif k == "script-input":
            rel = f"scr/in{i}.o"
            obj_for(i, rel)
            mark(rel, "script-input")
            how = r.choice(["relative-to-script", "absolute", "relative-to-cwd"])
            ref = {"relative-to-script": f"in{i}.o", "absolute": os.path.join(sb, rel), "relative-to-cwd": rel}[how]
            srel = f"scr/i{i}.lds"
            write(os.path.join(sb, srel), f"{r.choice(['INPUT', 'GROUP'])}({ref})\n")
            mark(srel, "linker-script")
            items.append([spell(srel)])
            main_calls.append(i)
            feats.add("script-input:" + how)
            u += 1
    if r.random() < 0.3:
        # zero-length inputs: an empty (e.g. generated) linker script is a valid input that the link reads
        erel = r.choice(["empty.lds", "scr/gen-empty.ld", "empty.t"])
        write(os.path.join(sb, erel), "")
        mark(erel, "linker-script")
        items.append([spell(erel)])
        feats.add("zero-length-script")
    expect_fail = r.random() < 0.08
    msrc = main_src(sorted(main_calls))
    if expect_fail:
        msrc = msrc.replace("_start:\n", "_start:\n call fbad\n")
    shutil.copy(tools.assemble(ctx, msrc), os.path.join(sb, "main.o"))
    mark("main.o", "object")
    r.shuffle(items)
    items.insert(0, ["main.o"])
    kind = r.choice(["exe", "exe", "shared", "pie"])
    opts = []
    if kind == "shared":
        opts.append("-shared")
    elif kind == "pie":
        opts.append("-pie")
    if r.random() < 0.35:
        write(os.path.join(sb, "v.ver"), "VERS_1 { global: _start; f*; local: *; };\n")
        mark("v.ver", "version-script")
        opts.append("--version-script=" + spell("v.ver"))
        feats.add("version-script")
    c = r.random()
    if c < 0.2:
        write(os.path.join(sb, "dyn.lst"), "{ f1; d1; };\n")
        mark("dyn.lst", "dynamic-list")
        opts.append("--dynamic-list=" + spell("dyn.lst"))
        feats.add("dynamic-list")
    elif c < 0.4:
        write(os.path.join(sb, "exp.lst"), "{ f1; d1; };\n")
        mark("exp.lst", "export-dynamic-symbol-list")
        opts.append("--export-dynamic-symbol-list=" + spell("exp.lst"))
        feats.add("export-dynamic-symbol-list")
    if r.random() < 0.2 and kind == "exe" and "lib-shared" not in feats:
        write(os.path.join(sb, "T.lds"), "ENTRY(_start)\nSECTIONS { .text : { *(.text*) } .data : { *(.data*) } }\n")
        mark("T.lds", "linker-script")
        opts.append("--script=" + spell("T.lds"))
        feats.add("-T")
    if r.random() < 0.12:
        write(os.path.join(sb, "keep.syms"), "_start\nf1\n")
        mark("keep.syms", "retain-symbols-file")
        opts.append("--retain-symbols-file=" + spell("keep.syms"))
        feats.add("retain-symbols-file")
    if expect_fail:
        shutil.copy(tools.assemble(ctx, ".globl fbad\n.text\nfbad: call no_such_symbol\n ret\n"), os.path.join(sb, "bad.o"))
        mark("bad.o", "object")
        items.append(["bad.o"])
        feats.add("failing-link")
    flat = [a for it in items for a in it]
    for o in opts:
        flat += o.split(" ") if " " in o else [o]
    # response files: move a slice of the arguments into one (possibly nested)
    if r.random() < 0.3 and len(flat) > 3:
        a = r.randint(1, len(flat) - 2)
        b = r.randint(a + 1, len(flat))
        inner = flat[a:b]
        if r.random() < 0.4 and len(inner) > 1:
            write(os.path.join(sb, "inner.rsp"), "\n".join(inner[1:]) + "\n")
            mark("inner.rsp", "response-file")
            inner = [inner[0], "@inner.rsp"]
            feats.add("nested-response-file")
        write(os.path.join(sb, "args.rsp"), " ".join(inner) + "\n")
        mark("args.rsp", "response-file")
        flat = flat[:a] + ["@args.rsp"] + flat[b:]
        feats.add("response-file")
    out = r.choice(["out.bin", "o/out.so", os.path.join(sb, "abs.out")])
    os.makedirs(os.path.join(sb, "o"), exist_ok=True)
    return flat, kinds, out, expect_fail, sorted(feats), kind


def canon(sb, p):
    return os.path.realpath(p if os.path.isabs(p) else os.path.join(sb, p))


def one_case(ctx, i, forced=None):
    r = rng("C25", ctx.seed, i)
    sb = ctx.scratch.dir("sb", i)
    logd = ctx.scratch.dir("log", i)
    args, kinds, out, expect_fail, feats, okind = forced(ctx, r, sb) if forced else build_case(ctx, r, sb)
    for f in feats:
        ctx.note("feature:" + f)
    ctx.note("output-kind:" + okind)
    wild = tools.wild()
    wargs = args + ["-o", out, "--dependency-file=w.d"]
    largs = args + ["-o", "ld-" + os.path.basename(out), "--dependency-file=l.d"]
    write(os.path.join(sb, "cmd.txt"), f"cd <sandbox>; strace -f -y -o w.log -e trace=openat,open,read,pread64,mmap wild "
          + " ".join(wargs) + "\nld " + " ".join(largs) + "\n")
    slog = os.path.join(logd, "w.log")
    w = run([STRACE, "-f", "-y", "-o", slog, "-e", "trace=openat,open,read,pread64,mmap", wild, *wargs], cwd=sb, timeout=180)
    ld = run([tools.LD_BFD, *largs], cwd=sb, timeout=120)
    if w.timed_out or ld.timed_out:
        ctx.inconclusive("watchdog")
        return
    wd = os.path.join(sb, "w.d")
    if not w.ok:
        if ld.ok:
            ctx.inconclusive("wild rejects a link GNU ld accepts (not a dependency-file matter)")
            ctx.note("wild-fails:" + w.errtext().strip().split("\n")[0][:80])
        else:
            ctx.note("failing-link:dependency-file-" + ("written" if os.path.exists(wd) else "absent"))
            ctx.held(fingerprint="fail|" + " ".join(feats), nontrivial=False)
        return
    if not ld.ok:
        ctx.inconclusive("reference linker rejected the command")
        ctx.note("ld-fails:" + re.sub(r"[^ ]*/", "", ld.errtext().strip().split("\n")[0])[:100])
        return
    files = {"sandbox": sb, "w.strace.log": slog}
    if not os.path.exists(wd):
        ctx.violation("dependency-file-not-written", "link succeeded but --dependency-file produced no file", case=i, files=files)
        return
    try:
        tgt, deps, others = parse_depfile(read(wd, binary=False))
    except ValueError as ex:
        ctx.violation("dependency-file-unparsable", f"not Makefile syntax: {ex}", case=i, files=files)
        return
    try:
        ltgt, ldeps, _ = parse_depfile(read(os.path.join(sb, "l.d"), binary=False))
    except (ValueError, OSError):
        ctx.inconclusive("reference dependency file unreadable")
        return
    observed, written = observed_reads(slog, sb)
    observed -= {canon(sb, out), canon(sb, "w.d")}
    ldset = {canon(sb, d) for d in ldeps}
    listed = [canon(sb, d) for d in deps]
    bad = False
    if canon(sb, tgt) != canon(sb, out):
        bad = True
        ctx.violation("wrong-target", f"target is `{tgt}`, output is `{out}`", case=i, files=files)
    seen = set()
    for d, c in zip(deps, listed):
        if c in seen:
            k = kinds.get(c, "unknown")
            if [canon(sb, x) for x in ldeps].count(c) > 1:
                ctx.inconclusive("listed twice by the reference too")
            else:
                bad = True
                ctx.violation(f"listed-twice:kind={k}", f"`{d}` appears more than once", case=i, files=files)
        seen.add(c)
    for c in sorted(observed - seen):
        k = kinds.get(c, "unknown")
        rel = os.path.relpath(c, os.path.realpath(sb))
        if k == "response-file":
            ctx.note("response-file-read-but-not-listed (GNU ld does not list them either; not judged)")
            continue
        if c in ldset or (k in JUDGED_KINDS and k == "thin-archive-member"):
            bad = True
            ctx.violation(f"missing:kind={k}", f"wild read `{rel}` ({k}) but the dependency file does not list it"
                          f"{'; GNU ld lists it' if c in ldset else ''}", case=i, files=files,
                          info={"file": rel, "kind": k, "listed": deps, "ld-listed": ldeps, "args": wargs})
        else:
            ctx.note(f"unlisted-and-reference-silent:kind={k}")
            ctx.inconclusive("file read but not listed, and the reference does not list it either")
    for c in sorted(seen - observed):
        k = kinds.get(c, "unknown")
        rel = os.path.relpath(c, os.path.realpath(sb))
        if not c.startswith(os.path.realpath(sb) + os.sep):
            continue
        bad = True
        ctx.violation(f"listed-but-not-read:kind={k}", f"`{rel}` is listed but was never opened read-only and read/mapped",
                      case=i, files=files, info={"file": rel, "listed": deps})
    stray = [t for t, pre in others if pre]
    if stray:
        bad = True
        ctx.violation("extra-rule-with-prerequisites", f"additional rule `{stray[0]}` has prerequisites", case=i, files=files)
    for c in observed:
        ctx.note("read-kind:" + kinds.get(c, "unknown"))
    if not bad:
        ctx.held(fingerprint=" ".join(feats) + "|" + okind + "|" + " ".join(sorted(kinds.get(c, "?") for c in observed)),
                 nontrivial=len(observed) >= 3 and len({kinds.get(c) for c in observed}) >= 2,
                 sample={"args": wargs, "read": sorted(os.path.relpath(c, os.path.realpath(sb)) for c in observed)} if i in (0, 1) else None)


def pinned_case(which):
    def gen(ctx, r, sb):
        kinds = {}
        for n in (1, 2):
            shutil.copy(tools.assemble(ctx, unit_src(n)), os.path.join(sb, f"u{n}.o"))
        shutil.copy(tools.assemble(ctx, main_src([1, 2])), os.path.join(sb, "main.o"))
        kinds[os.path.realpath(os.path.join(sb, "main.o"))] = "object"
        kinds[os.path.realpath(os.path.join(sb, "u1.o"))] = "object"
        args = ["main.o", "u1.o"]
        if which == "thin-archive":
            run(["ar", "rcsT", "libt.a", "u2.o"], cwd=sb)
            kinds[os.path.realpath(os.path.join(sb, "libt.a"))] = "thin-archive"
            kinds[os.path.realpath(os.path.join(sb, "u2.o"))] = "thin-archive-member"
            args.append("libt.a")
        else:
            kinds[os.path.realpath(os.path.join(sb, "u2.o"))] = "object"
            args.append("u2.o")
            fn, opt, text = {"version-script": ("v.ver", "--version-script=", "V { global: _start; local: *; };\n"),
                             "dynamic-list": ("d.lst", "--dynamic-list=", "{ f1; };\n"),
                             "export-dynamic-symbol-list": ("e.lst", "--export-dynamic-symbol-list=", "{ f1; };\n")}[which]
            write(os.path.join(sb, fn), text)
            kinds[os.path.realpath(os.path.join(sb, fn))] = which
            args.append(opt + fn)
        return args, kinds, "out.bin", False, ["pinned:" + which], "exe"
    return gen


PINNED = ["version-script", "dynamic-list", "export-dynamic-symbol-list", "thin-archive"]


def main(ctx):
    if not STRACE:
        raise HarnessError("strace not installed")
    ctx.rule = ("random freestanding link lines over objects (plain, sub-directories, symlinks), archives, thin archives, "
                "-l/-L static and shared libraries, implicit linker scripts with INPUT/GROUP, -T scripts, version scripts, "
                "dynamic/export lists, retain-symbols files, (nested) response files; a case counts when both linkers "
                "succeed, >=3 sandbox files of >=2 kinds were observed being read; distinct = (features, output kind, "
                "kinds read)")
    ctx.assumptions = ["strace -f -y sees every open/read/mmap of the link", "only files under the per-case sandbox are judged",
                       "GNU ld 2.40 --dependency-file calibrates which read files are expected to be listed; response files "
                       "(not listed by GNU ld, not named by the statement) are not judged"]
    tools.wild()
    n = ctx.pick(80, 1000)
    jobs = [("p", k) for k in range(len(PINNED))] + [("c", i) for i in range(n)]
    if ctx.replay is not None:
        c = str(ctx.replay.get("case"))
        jobs = [("p", int(c[6:]))] if c.startswith("pinned") else [("c", int(c))]

    def go(j):
        if j[0] == "p":
            one_case(ctx, f"pinned{j[1]}", forced=pinned_case(PINNED[j[1]]))
        else:
            one_case(ctx, j[1])
    pmap(go, jobs)
