"""C17 The exit status reflects whether the output was written.

Fault enumeration: for each link x {fork, --no-fork} x {mmap, --no-mmap-output-file}, every phase
boundary the link passes (H1 log) x fault kind {panic, abort, sigkill, sigsegv, oom} is injected in
turn. Oracle: exit status 0  =>  the output file is byte-identical to the undisturbed run's output.
Plus natural failures (undefined symbol, relocation overflow, ASSERT, unwritable directory, missing
input, RLIMIT_FSIZE write failure): status must be non-zero.
"""
import os
import resource
import signal

from vlib import faults, tools
from vlib.common import file_sha, pmap, run, write

LEVEL = "fault_enumeration"
KINDS_QUICK = ["panic", "sigkill", "oom"]
KINDS_ALL = ["panic", "abort", "sigkill", "sigsegv", "oom"]


def make_links(ctx):
    links = []
    objs = faults.small_objects(ctx, 3)
    links.append(("asm3", objs, []))
    if not ctx.quick:
        objs8 = faults.small_objects(ctx, 8, tag="b8")
        links.append(("asm8-pie", objs8, ["-pie", "--no-dynamic-linker"]))
        links.append(("asm3-shared", objs, ["-shared"]))
        links.append(("asm3-buildid", objs, ["--build-id=sha1", "--hash-style=both"]))
    return links


def phase_norm(p):
    return p


def run_matrix(ctx, name, objs, largs, mode_name, margs, kinds, threads):
    d = ctx.scratch.dir("m", name, mode_name)
    base = [*objs, *largs, *margs, f"--threads={threads}"]
    # canonical, undisturbed
    out0 = os.path.join(d, "canon", "out")
    os.makedirs(os.path.dirname(out0), exist_ok=True)
    r0 = tools.link("wild", [*base, "-o", out0])
    if not r0.ok or not os.path.exists(out0):
        ctx.inconclusive(f"canonical link failed ({name}/{mode_name})")
        return
    canon = file_sha(out0)
    # recording run
    rd = os.path.join(d, "rec")
    os.makedirs(rd, exist_ok=True)
    rr, phases = faults.record_phases([*base, "-o", os.path.join(rd, "out")], rd)
    if not rr.ok or not phases:
        ctx.inconclusive("recording run failed")
        return
    if file_sha(os.path.join(rd, "out")) != canon:
        ctx.violation("undisturbed-runs-differ", "two undisturbed runs produced different bytes", case=f"{name}/{mode_name}")
        return
    uniq = []
    for _pid, ph in phases:
        if ph not in uniq:
            uniq.append(ph)
    ctx.note_max("phase_instances_per_link", len(uniq))
    for ph in uniq:
        ctx.note_set("phases_seen", ph)
    jobs = [(ph, k) for ph in uniq for k in kinds]

    def one(job):
        ph, kind = job
        cid = f"{name}/{mode_name}/{ph}/{kind}"
        if ctx.replay is not None and ctx.replay.get("case") != cid:
            return
        wd = os.path.join(d, "f", str(abs(hash(cid)) % 10**10))
        os.makedirs(wd, exist_ok=True)
        out = os.path.join(wd, "out")
        log = os.path.join(wd, "phase.log")
        for p in (out, log):
            if os.path.exists(p):
                os.unlink(p)
        r = tools.link("wild", [*base, "-o", out], cwd=wd, timeout=120,
                       extra_env={"WILD_VERIF_PHASELOG": log, "WILD_VERIF_FAULT": f"{kind}@{ph}"})
        _, fl = faults.parse_phaselog(log)
        if r.timed_out:
            ctx.inconclusive("watchdog fired")
            return
        if not fl:
            ctx.inconclusive("fault point not reached")
            return
        if r.rc == 0:
            complete = os.path.exists(out) and file_sha(out) == canon
            if not complete:
                where = "after-output-flushed" if False else ""
                stage = classify(ph, uniq)
                ctx.violation(f"exit0-incomplete-output:mode={mode_name.split('+')[0]}:kind={kind}:stage={stage}",
                              f"exit status 0 although the output is missing or differs from the undisturbed output "
                              f"(fault {kind} at phase '{ph}', mode {mode_name}, link {name})",
                              case=cid, files={"stderr.txt": r.errtext(), "cmd.txt": " ".join(["wild", *base, "-o", out]) +
                                               f"\nWILD_VERIF_FAULT={kind}@{ph}\n", "phase.log": log})
                return
            ctx.held(fingerprint=cid, nontrivial=True)
            ctx.note("status0_with_complete_output")
        else:
            ctx.held(fingerprint=cid, nontrivial=True,
                     sample={"case": cid, "rc": r.rc, "stderr": r.errtext()[:120]} if kind == "sigkill" and "Layout" in ph else None)
            ctx.note(f"nonzero_status:{kind}")
    pmap(one, jobs)


def classify(ph, uniq):
    """Coarse stage of a phase for signatures: before the output exists / while writing / after."""
    names = [u for u in uniq]
    i = names.index(ph)
    def idx(n):
        for j, u in enumerate(names):
            if u.startswith(n):
                return j
        return None
    w = idx("Write output file")
    done = idx("Unmap output file")
    if w is not None and i < w:
        return "before-write"
    if done is not None and i <= done:
        return "during-write"
    return "after-write"


def natural_failures(ctx):
    d = ctx.scratch.dir("nat")
    objs = faults.small_objects(ctx, 2, tag="nat")
    undef = tools.assemble(ctx, ".globl _start\n_start: call missing_fn\n", name="undef")
    ovf = tools.assemble(ctx, ".globl _start\n_start: movl $big, %eax\n", name="ovf")
    ok_assert = write(os.path.join(d, "fail.lds"), 'ASSERT(0, "boom")\n')
    ro = os.path.join(d, "ro")
    os.makedirs(ro, exist_ok=True)
    cases = [
        ("undefined-symbol", [undef], {}, None),
        ("relocation-overflow", [ovf, "--defsym=big=0x123456789"], {}, None),
        ("assert", [*objs, ok_assert], {}, None),
        ("missing-input", [*objs, os.path.join(d, "nonexistent.o")], {}, None),
        ("unwritable-dir", objs, {}, "ro"),
        ("fsize-limit", objs, {}, "fsize"),
    ]
    for mode in ([], ["--no-fork"]):
        for mm in ([], ["--no-mmap-output-file"]):
            for name, args, env, special in cases:
                cid = f"natural/{name}/{'nofork' if mode else 'fork'}/{'nommap' if mm else 'mmap'}"
                if ctx.replay is not None and ctx.replay.get("case") != cid:
                    continue
                wd = ctx.scratch.dir("nat", cid.replace("/", "_"))
                out = os.path.join(wd, "out")
                pre = None
                if special == "ro":
                    out = os.path.join(ro, "sub", "out")  # directory does not exist
                if special == "fsize":
                    def pre():
                        signal.signal(signal.SIGXFSZ, signal.SIG_IGN)
                        resource.setrlimit(resource.RLIMIT_FSIZE, (64, 64))
                r = run([tools.wild(), *args, *mode, *mm, "-o", out], timeout=60, preexec_fn=pre)
                if r.timed_out:
                    ctx.inconclusive("watchdog fired")
                elif r.rc == 0:
                    ctx.violation(f"exit0-on-natural-failure:{name}", f"link that cannot succeed ({name}) exited 0",
                                  case=cid, files={"stderr.txt": r.errtext()})
                else:
                    ctx.held(fingerprint=cid, sample={"case": cid, "rc": r.rc, "stderr": r.errtext()[:100]} if name == "fsize-limit" else None)
                    ctx.note("natural_failure_nonzero")


def main(ctx):
    ctx.rule = ("per link and mode, the H1 phase log of an undisturbed run enumerates every phase instance; one run per "
                "(phase instance, fault kind); non-trivial = the fault line is present in the phase log (the fault fired); "
                "distinct = (link, mode, phase instance, kind)")
    ctx.assumptions = ["phase boundaries are the timing_phase! sites plus explicit points around the fork hand-off and "
                       "output writing; faults between boundaries are not explored",
                       "C06 (determinism) makes 'the complete output' well defined as the undisturbed run's bytes"]
    tools.wild()
    kinds = KINDS_QUICK if ctx.quick else KINDS_ALL
    modes = [("fork+mmap", []), ("nofork+mmap", ["--no-fork"])]
    if not ctx.quick:
        modes += [("fork+nommap", ["--no-mmap-output-file"]), ("nofork+nommap", ["--no-fork", "--no-mmap-output-file"])]
    for name, objs, largs in make_links(ctx):
        for mode_name, margs in modes:
            for threads in ([4] if ctx.quick else [1, 8]):
                run_matrix(ctx, f"{name}-t{threads}", objs, largs, mode_name, margs, kinds, threads)
    natural_failures(ctx)
    ctx.exhaustive = True
    ctx.extra["exhaustive_scope"] = "phase instance x fault kind x mode, per link (finite matrix enumerated completely)"
