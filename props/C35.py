"""C35 Jobserver tokens are conserved.

The harness *is* the jobserver: it creates the FIFO, preloads N distinguishable token bytes, runs
wild with MAKEFLAGS=--jobserver-auth=fifo:PATH, waits until every descendant has exited (EOF on an
inherited liveness pipe) and counts the bytes back: in = out + held by the harness. The hook event
POOL (tokens acquired, pool size) and an strace of clone calls bound the number of threads by
tokens + 1. Outcomes: success, natural error, injected panic at several phases (H1), fork/no-fork,
with and without a competing token consumer.
"""
import os
import re
import select
import threading
import time

from vlib import faults, tools
from vlib.common import pmap, rng, run
from vlib.mon import slottrace

LEVEL = "fault_enumeration"


def drain(fd):
    got = b""
    while True:
        r, _, _ = select.select([fd], [], [], 0)
        if not r:
            return got
        try:
            b = os.read(fd, 4096)
        except BlockingIOError:
            return got
        if not b:
            return got
        got += b


def one(ctx, cid, n, outcome, fork, competitor, use_strace, objs, bad_obj, phases):
    if ctx.replay is not None and ctx.replay.get("case") != cid:
        return
    wd = ctx.scratch.dir("c", re.sub(r"[^A-Za-z0-9_.-]+", "_", cid))   # no spaces: MAKEFLAGS is space separated
    fifo = os.path.join(wd, "js.fifo")
    os.mkfifo(fifo)
    fd = os.open(fifo, os.O_RDWR | os.O_NONBLOCK)
    tokens = bytes([65 + i for i in range(n)])
    if tokens:
        os.write(fd, tokens)
    live_r, live_w = os.pipe()
    os.set_inheritable(live_w, True)
    evlog = os.path.join(wd, "ev.log")
    env = {"MAKEFLAGS": f" -j{n + 1} --jobserver-auth=fifo:{fifo}", "WILD_VERIF_EVLOG": evlog}
    args = list(objs)
    if outcome == "error":
        args = [bad_obj]
    elif outcome.startswith("panic@"):
        env["WILD_VERIF_FAULT"] = "panic@" + outcome[6:]
    out = os.path.join(wd, "out")
    cmd = [tools.wild(), *args, *([] if fork else ["--no-fork"]), "-o", out]
    stlog = os.path.join(wd, "strace.log")
    if use_strace:
        cmd = ["strace", "-f", "-qq", "-o", stlog, "-e", "trace=clone,clone3,fork,vfork", *cmd]
    held = []
    stop = threading.Event()

    def compete():
        # a competing consumer: takes tokens when available and gives them back a little later
        r = rng("C35", ctx.seed, cid, "comp")
        while not stop.is_set():
            try:
                b = os.read(fd, 1)
                if b:
                    held.append(b)
                    time.sleep(r.random() * 0.003)
                    os.write(fd, held.pop())
            except BlockingIOError:
                pass
            time.sleep(0.0005)
    th = None
    if competitor:
        th = threading.Thread(target=compete, daemon=True)
        th.start()
    res = run(cmd, extra_env=env, timeout=120, pass_fds=(live_w,), cwd=wd)
    os.close(live_w)
    # wait until every descendant (the background child in fork mode) is gone
    t0 = time.time()
    gone = False
    while time.time() - t0 < 60:
        r, _, _ = select.select([live_r], [], [], 0.2)
        if r:
            if os.read(live_r, 1) == b"":
                gone = True
                break
    os.close(live_r)
    stop.set()
    if th:
        th.join(2)
    back = drain(fd) + b"".join(held)
    os.close(fd)
    if res.timed_out or not gone:
        ctx.inconclusive("watchdog fired / descendants still alive")
        return
    expected_fail = outcome != "success"
    if (res.rc == 0) == expected_fail and not outcome.startswith("panic@"):
        ctx.inconclusive(f"outcome {outcome} not produced (rc={res.rc})")
        return
    if outcome.startswith("panic@") and "injected panic" not in res.errtext():
        ctx.inconclusive("fault point not reached")
        return
    files = {"cmd.txt": " ".join(cmd) + "\n" + str(env), "stderr.txt": res.errtext()}
    if sorted(back) != sorted(tokens):
        kind = "lost" if len(back) < len(tokens) else ("extra" if len(back) > len(tokens) else "altered")
        ctx.violation(f"tokens-{kind}:outcome={outcome.split('#')[0].split('@')[0]}:{'fork' if fork else 'nofork'}",
                      f"jobserver had {len(tokens)} tokens {tokens!r}, afterwards {len(back)} {back!r} (outcome {outcome}, rc={res.rc})",
                      case=cid, files=files)
        return
    # thread bound
    pool = None
    acquired = None
    if os.path.exists(evlog):
        for e in slottrace.parse(evlog):
            if e[2] == "POOL":
                acquired, pool = e[3], e[4]
    if pool is not None:
        ctx.note_max("max_tokens_acquired", acquired)
        if pool > acquired + 1:
            ctx.violation("pool-larger-than-tokens-plus-one", f"pool size {pool} with {acquired} tokens acquired (N={n})", case=cid, files=files)
            return
        if acquired > n:
            ctx.violation("acquired-more-than-available", f"{acquired} tokens acquired from a jobserver holding {n}", case=cid, files=files)
            return
    if use_strace and os.path.exists(stlog):
        txt = open(stlog).read()
        threads = len(re.findall(r"clone3?\(.*CLONE_THREAD", txt))
        ctx.note_max("max_threads_created", threads)
        if acquired is not None and threads > acquired + 1 + 1:
            # +1: rayon pool of `pool` threads when pool>1, plus nothing else is expected
            ctx.violation("threads-exceed-tokens-plus-one", f"{threads} threads created with {acquired} tokens acquired", case=cid,
                          files={**files, "strace.log": stlog})
            return
    ctx.note(f"outcome:{outcome.split('#')[0]}")
    ctx.held(fingerprint=cid, nontrivial=(n > 0),
             sample={"case": cid, "tokens": n, "acquired": acquired, "pool": pool, "rc": res.rc} if n == 3 else None)


def main(ctx):
    ctx.rule = ("token count x outcome (success, error, injected panic at a phase boundary) x fork/no-fork x competitor; "
                "non-trivial = N>0 and all descendants were seen to exit before counting; distinct = the full tuple")
    ctx.assumptions = ["--threads=N given explicitly is outside the quantifier", "SIGKILL is not judged (a killed process cannot return tokens)",
                       "the harness holds the FIFO open read-write, so tokens written back are never lost by the pipe itself"]
    tools.wild()
    objs = faults.small_objects(ctx, 4, tag="c35")
    bad = tools.assemble(ctx, ".globl _start\n_start: call nowhere_defined\n", name="c35bad")
    rd = ctx.scratch.dir("rec")
    rr, ph = faults.record_phases([*objs, "-o", os.path.join(rd, "out")], rd)
    uniq = []
    for _p, name in ph:
        if name not in uniq and not name.startswith("Parse args") and "parent waiting" not in name:
            uniq.append(name)
    pick = uniq[::6] if ctx.quick else uniq[::2]
    jobs = []
    for n in ([0, 1, 3, 8] if ctx.quick else [0, 1, 2, 3, 8, 32]):
        for outcome in ["success", "error"] + [f"panic@{p}" for p in pick]:
            for fork in (True, False):
                for comp in ((False,) if ctx.quick and outcome.startswith("panic") else (False, True)):
                    cid = f"N{n}/{outcome}/{'fork' if fork else 'nofork'}/{'comp' if comp else 'alone'}"
                    st = (n == 3 and outcome in ("success", "error"))
                    jobs.append((cid, n, outcome, fork, comp, st, objs, bad, uniq))
    pmap(lambda j: one(ctx, *j), jobs, workers=8)
