"""C34 linker-diff is quiet on equal binaries and catches broken relocations.

(quiet) Corpus: wild outputs (with their .layout/.trace side files) of proggen programs linked through gcc
in every output kind the program allows, and of generated freestanding asm programs (static, PIE, shared).
Each is compared with itself (`--ref X X`) and with a byte-identical copy (side files copied too), with and
without `--wild-defaults`: exit status must be 0. GNU ld outputs of the same programs are compared with
themselves as well: linker-diff documents that the file under test needs a .layout, so the single
`error / A .layout file is required` entry is expected there and any *other* reported key is a false report.

(catches) Freestanding asm programs (a few objects, functions that call / jmp / lea / mov / GOT-load each
other and data objects holding pointers, an .init_array), linked by GNU ld (reference) and wild (under test)
with equalised options. Only pairs whose unmodified comparison (`--wild-defaults --ref ld wild`) is clean
are used. Then, one at a time, a relocated reference in a copy of wild's output is redirected to ANOTHER
symbol's address: a call/jmp rel32, a RIP-relative lea/mov displacement, a GOT slot, a data pointer in .data
or .init_array (in PIE/shared the RELATIVE addend is changed with it). Sites come from the input objects'
relocation tables, the .layout placement and the output symbol table; bytes are checked to still have the
unrelaxed instruction shape before they are touched. linker-diff must exit non-zero for every one.
"""
import os
import re
import shutil
import struct

from vlib import build, tools
from vlib import elf as E
from vlib.common import HarnessError, pmap, rng, run, sha, write
from vlib.elf import Elf
from vlib.xlink import SigLimiter, cc

LEVEL = "exploration"
LIM = None
SELFTEST = os.environ.get("VERIF_SELFTEST", "")
R = E.R_X86_64


def ldiff(args, timeout=300):
    exe = build.ensure("hook")["linker_diff"]
    return run([exe, "--colour", "never", *args], timeout=timeout)


def report_keys(text):
    """Top-level keys of a printed report (lines at column 0 that are not the 'name: path' header)."""
    keys = []
    for line in text.split("\n"):
        if not line or line[0] in " \t│┌├└":
            continue
        if re.match(r"^\S*: \S", line):
            continue
        keys.append(line.strip())
    return keys


def key_class(key):
    """Stable class of a diff key for signatures: drops symbol / function names."""
    parts = key.split(".")
    if parts[0] in ("section", "segment", "rel", "dynsym", "symtab") and len(parts) > 1:
        return ".".join(parts[:2]) if parts[0] != "rel" else ".".join(parts[:3])
    return parts[0] if parts[0] else key


def copy_with_side_files(src, dst):
    shutil.copyfile(src, dst)
    shutil.copymode(src, dst)
    for get in (lambda p: p + ".layout", tools.trace_path):
        s, d = get(src), get(dst)
        if os.path.exists(s):
            shutil.copyfile(s, d)
        elif os.path.exists(d):
            os.unlink(d)
    return dst


# ------------------------------------------------------------------------------------------------
# quiet
# ------------------------------------------------------------------------------------------------

def quiet_checks(ctx, path, origin, kind, case, how, is_wild=True):
    """Self and copy comparisons of one binary. Returns number of violations."""
    nv = 0
    d = os.path.dirname(path)
    base, ext = os.path.splitext(os.path.basename(path))
    cp = copy_with_side_files(path, os.path.join(d, base + "-copy" + ext))
    if open(cp, "rb").read() != open(path, "rb").read():
        raise HarnessError("copy differs")
    if SELFTEST == "dirtycopy":
        # monitor self-validation: damage one byte of the copy's .text; the quiet monitor must then fire
        ee = Elf(cp)
        ts = ee.section(".text")
        dd = bytearray(ee.data)
        dd[ts.offset + ts.size // 2] ^= 0x55
        open(cp, "wb").write(bytes(dd))
    for label, ref in (("self", path), ("copy", cp)):
        for defaults in (True, False):
            args = (["--wild-defaults"] if defaults else []) + ["--ref", ref, path]
            r = ldiff(args)
            if r.timed_out:
                ctx.inconclusive("watchdog: linker-diff")
                continue
            ctx.note(f"quiet-runs:{origin}:{'wild' if is_wild else 'ld'}")
            out = r.outtext()
            keys = report_keys(out) if r.rc == 1 else []
            if not is_wild:
                # documented: the file under test needs a .layout file
                rest = [k for k in keys if k != "error"]
                if r.rc == 1 and "A .layout file is required" in out and out.count("\nerror\n") + out.startswith("error\n") <= 1 and not rest:
                    ctx.note("ld-output:only-the-documented-layout-required-entry")
                    continue
                keys = rest or keys
            if r.rc == 0:
                continue
            nv += 1
            if r.rc != 1:
                sig = f"quiet:false-report:linker-diff-failed:{origin}"
                desc = f"linker-diff exit status {r.rc} comparing a {kind} binary with {label}: {r.errtext().strip()[:300]}"
            else:
                kc = sorted({key_class(k) for k in keys}) or ["unparsed"]
                sig = f"quiet:false-report:{kc[0]}"
                desc = (f"linker-diff reports {len(keys)} difference(s) comparing a {'wild' if is_wild else 'GNU ld'}-linked {kind} "
                        f"binary ({origin}) with {'itself' if label == 'self' else 'a byte-identical copy'}"
                        f"{' (--wild-defaults)' if defaults else ''}: keys {sorted(set(keys))[:6]}")
            files = {"binary": path, "report.txt": out + r.errtext(), "how.txt": how +
                     f"\nlinker-diff {' '.join(args)}\n"}
            for sf in (path + ".layout", tools.trace_path(path)):
                if os.path.exists(sf):
                    files["binary" + sf[len(path):] if sf.startswith(path) else os.path.basename(sf)] = sf
            LIM.violation(sig, desc, case=case, files=files, info={"keys": keys[:20], "kind": kind})
            break
    return nv


def quiet_program(ctx, j):
    """proggen program, every legal output kind, wild and GNU ld outputs."""
    from vlib import proggen as pg
    r = rng("C34-prog", ctx.seed, j)
    prog = pg.gen_program(r)
    cm = r.choice(pg.CODE_MODELS)
    kinds = prog.kinds(cm)
    kinds = r.sample(kinds, min(len(kinds), ctx.pick(2, 4)))
    for kind in kinds:
        built = prog.build(ctx, cm, shared=(kind == "shared"))
        gc = r.random() < 0.5
        outs = {}
        for linker in ("wild", "ld"):
            d = ctx.scratch.dir("prog", j, kind, linker)
            lr = pg.link_and_run(ctx, linker, prog, built, kind, workdir=d, gc=gc, run_it=False, link_timeout=600,
                                 extra_link_args=("-Wl,-z,now",),
                                 extra_env={"WILD_WRITE_LAYOUT": "1", "WILD_WRITE_TRACE": "1"} if linker == "wild" else None)
            if lr.link is None or lr.link.timed_out or (lr.lib_link is not None and lr.lib_link.timed_out):
                ctx.inconclusive("watchdog: program link")
                continue
            if (lr.lib_link is not None and not lr.lib_link.ok) or not lr.link.ok:
                ctx.inconclusive(f"program does not link with {linker}")
                continue
            how = f"proggen rng=('C34-prog',{ctx.seed},{j}) code model {cm}\n" + pg.command_text(ctx, linker, prog, lr)
            nv = 0
            outs[linker] = ([lr.out] + ([lr.lib] if lr.lib else []), how)
            for p in outs[linker][0]:
                which = "lib" if p.endswith(".so") else "exe"
                nv += quiet_checks(ctx, p, "program", f"{kind}/{which}", f"prog-{j}", how, is_wild=(linker == "wild"))
                ctx.note_set("quiet-kinds", f"program:{kind}/{which}:{linker}")
            if nv == 0:
                ctx.held(fingerprint=f"quiet:prog:{j}:{kind}:{linker}:{sha(repr(sorted(prog.features)))[:8]}", nontrivial=True,
                         sample=dict(quiet="program", kind=kind, linker=linker, features=sorted(prog.features)[:8]) if j == 0 else None)
        # catches on real programs, where the unmodified pair happens to compare clean
        if len(outs) == 2:
            for wp, lp in zip(outs["wild"][0], outs["ld"][0]):
                which = "lib" if wp.endswith(".so") else "exe"
                base = ldiff(["--wild-defaults", "--ref", lp, wp])
                if base.timed_out:
                    continue
                if base.rc != 0:
                    ctx.note(f"program-pair-not-clean:{kind}/{which}")
                    for k in sorted({key_class(k) for k in report_keys(base.outtext())})[:3]:
                        ctx.note_set("program-pair-diff-keys", k)
                    continue
                ctx.note(f"program-pair-clean:{kind}/{which}")
                objs = [b.obj for b in built if (which == "lib") == (kind == "shared" and b.unit.group == "lib")]
                funcs, datas = [], []
                for op in objs:
                    for sy in Elf(op).symtab():
                        if sy.defined and sy.name and sy.bind != E.STB_LOCAL and sy.shndx < 0xff00:
                            if sy.type == E.STT_FUNC:
                                funcs.append(sy.name)
                            elif sy.type == E.STT_OBJECT:
                                datas.append(sy.name)
                run_corruptions(ctx, r, wp, lp, objs, "shared" if which == "lib" else kind, f"prog-{j}", {}, outs["wild"][1] + outs["ld"][1],
                                funcs, datas, ctx.scratch.dir("prog", j, kind, "corrupt-" + which), per_kind=2)


# ------------------------------------------------------------------------------------------------
# freestanding programs
# ------------------------------------------------------------------------------------------------

FS_KINDS = ["static", "pie", "shared"]


def gen_fs(r, kind=None):
    kind = kind or r.choice(["static", "static", "pie", "pie", "shared"])
    nobj = r.randint(1, 3)
    nf = r.randint(3, 7)
    nd = r.randint(2, 5)
    funcs = [dict(name=f"fn{i}", obj=r.randrange(nobj), ops=[]) for i in range(nf)]
    datas = [dict(name=f"dat{i}", obj=r.randrange(nobj), ptrs=[]) for i in range(nd)]
    norelax = kind == "static" and r.random() < 0.4
    for f in funcs:
        for _ in range(r.randint(1, 4)):
            c = r.random()
            if c < 0.35:
                f["ops"].append(("call", r.choice(funcs)["name"]))
            elif c < 0.55:
                f["ops"].append(("lea", r.choice(datas)["name"]))
            elif c < 0.7:
                f["ops"].append(("mov", r.choice(datas)["name"]))
            elif c < 0.9:
                forms = ["got", "gotpush", "gotpush", "gotcmp"] + (["gotadd", "gotcmp"] if kind != "static" else [])
                f["ops"].append((r.choice(forms), r.choice(datas + funcs)["name"]))
            else:
                f["ops"].append(("leaf", r.choice(funcs)["name"]))
        f["tail"] = ("jmp", r.choice(funcs)["name"]) if r.random() < 0.35 else None
    for dd in datas:
        for _ in range(r.randint(1, 3)):
            dd["ptrs"].append(r.choice(funcs + datas)["name"])
        dd["pad"] = r.choice([0, 8, 16])
    init = [r.choice(funcs)["name"] for _ in range(r.randint(1, 3))]
    start_calls = [r.choice(funcs)["name"] for _ in range(r.randint(1, 3))]
    return dict(kind=kind, nobj=nobj, funcs=funcs, datas=datas, init=init, start=start_calls, norelax=norelax,
                gc=r.random() < 0.3, init_obj=r.randrange(nobj))


def emit_fs(case, oi, tag):
    shared = case["kind"] == "shared"
    L = [f"# C34 {tag} object {oi}", '.section .note.GNU-stack,"",@progbits']
    names = [f["name"] for f in case["funcs"]] + [d["name"] for d in case["datas"]]
    if shared:
        # references inside the library use direct addressing: every symbol but the entry point is hidden
        L += [f".hidden {n}" for n in names]
    L.append(".text")
    if oi == 0:
        ent = "lib_entry" if shared else "_start"
        L += [f".globl {ent}", f".type {ent},@function", f"{ent}:"]
        L += [f"    call {n}" for n in case["start"]]
        L += ["    mov $60, %eax", "    xor %edi, %edi", "    syscall", f".size {ent}, .-{ent}"]
    for f in case["funcs"]:
        if f["obj"] != oi:
            continue
        n = f["name"]
        L += [f".globl {n}", f".type {n},@function", f"{n}:"]
        for op, t in f["ops"]:
            if op == "call":
                L.append(f"    call {t}")
            elif op == "lea":
                L.append(f"    lea {t}(%rip), %rax")
            elif op == "leaf":
                L.append(f"    lea {t}(%rip), %rdx")
            elif op == "mov":
                L.append(f"    mov {t}(%rip), %rcx")
            elif op == "got":
                L.append(f"    mov {t}@GOTPCREL(%rip), %rsi")
            elif op == "gotpush":
                L.append(f"    push {t}@GOTPCREL(%rip)")
            elif op == "gotcmp":
                L.append(f"    cmp {t}@GOTPCREL(%rip), %rax")
            elif op == "gotadd":
                L.append(f"    add {t}@GOTPCREL(%rip), %rsi")
        L += [f"    jmp {f['tail'][1]}"] if f["tail"] else ["    ret"]
        L.append(f".size {n}, .-{n}")
    L.append(".data")
    for dd in case["datas"]:
        if dd["obj"] != oi:
            continue
        n = dd["name"]
        L += [".balign 8", f".globl {n}", f".type {n},@object", f"{n}:"]
        L += [f"    .quad {p}" for p in dd["ptrs"]]
        if dd["pad"]:
            L.append(f"    .zero {dd['pad']}")
        L.append(f".size {n}, .-{n}")
    if oi == case["init_obj"]:
        L += ['.section .init_array,"aw",@init_array', ".balign 8"] + [f"    .quad {n}" for n in case["init"]]
    return "\n".join(L) + "\n"


class FS:
    pass


def build_fs(ctx, case, d, tag):
    fs = FS()
    fs.d, fs.case = d, case
    fs.srcs, fs.objs = {}, []
    # --no-relax is only used for static links of objects assembled without the relaxable GOT relocation types: the
    # other combinations are known not to compare clean (wild keeps relaxing GOTPCRELX / calls through the PLT)
    fs.asflags = ("-Wa,-mrelax-relocations=no",) if case["norelax"] else ()
    for oi in range(case["nobj"]):
        src = emit_fs(case, oi, tag)
        fs.srcs[f"o{oi}.s"] = src
        p = os.path.join(d, f"o{oi}.o")
        write(p, open(cc(ctx, src, fs.asflags, "s"), "rb").read())
        fs.objs.append(p)
    args = {"static": [], "pie": ["-pie"], "shared": ["-shared"]}[case["kind"]]
    args += ["--gc-sections" if case["gc"] else "--no-gc-sections", "-z", "now", "--hash-style=gnu", "--build-id=none"]
    if case["kind"] == "pie":
        args.append("--dynamic-linker=/lib64/ld-linux-x86-64.so.2")
    if case["kind"] == "shared":
        args += ["-soname", "libfs.so"]
    if case["norelax"]:
        args.append("--no-relax")
    fs.args = args
    return fs


def link_fs(fs, linker):
    out = os.path.join(fs.d, "fs." + ("w" if linker == "wild" else "l"))
    tools.fresh(out)
    for p in (tools.trace_path(out),):
        if os.path.exists(p):
            os.unlink(p)
    env = {"WILD_WRITE_LAYOUT": "1", "WILD_WRITE_TRACE": "1"} if linker == "wild" else None
    res = tools.link(linker, [*fs.args, *fs.objs, "-o", out], cwd=fs.d, timeout=300, extra_env=env)
    return res, out


def fs_how(fs):
    names = [os.path.basename(o) for o in fs.objs]
    t = "".join(f"gcc -c {' '.join(fs.asflags)} {n[:-2]}.s -o {n}\n" for n in names)
    t += "WILD_WRITE_LAYOUT=1 WILD_WRITE_TRACE=1 $WILD " + " ".join(fs.args) + " " + " ".join("$PWD/" + n for n in names) + " -o fs.w\n"
    t += "ld.bfd " + " ".join(fs.args) + " " + " ".join(names) + " -o fs.l\n"
    t += "linker-diff --wild-defaults --ref fs.l fs.w\n"
    return t


def find_sites(objs, wout):
    """Relocated references of wild's output: list of dicts(kind, site, width, orig_sym, addr_of_slot...)."""
    e = Elf(wout)
    lay = tools.read_layout(wout + ".layout")
    symaddr = {}
    symsize = {}
    seen = {}
    for sy in e.symtab():
        if sy.name and sy.defined and sy.type in (E.STT_FUNC, E.STT_OBJECT):
            seen[sy.name] = seen.get(sy.name, 0) + 1
            symaddr[sy.name] = sy.value
            symsize[sy.name] = sy.size
    for n, c in seen.items():
        if c > 1:                       # same name twice (file-local symbols): not a unique identity
            del symaddr[n]
            del symsize[n]
    relative = {}
    for rs in e.rela_sections():
        if not (rs.flags & E.SHF_ALLOC):
            continue
        for i, rl in enumerate(e.relas(rs)):
            if rl.type == R["RELATIVE"]:
                relative[rl.offset] = (rs.offset + 24 * i + 16, rl.addend)
    relr = set(e.relr_addrs()) if e.section_by_type(E.SHT_RELR) is not None else set()
    got = e.section(".got")
    sites = []
    byobj = {os.path.realpath(f["path"]): f for f in lay["files"] if not f["member"]}
    for op in objs:
        o = Elf(op)
        lf = byobj.get(os.path.realpath(op))
        if lf is None:
            continue
        osyms = o.symtab()
        for rs in o.rela_sections():
            target = o.sections[rs.info]
            if target.index >= len(lf["sections"]) or lf["sections"][target.index] is None:
                continue
            start = lf["sections"][target.index][0]
            tdata = o.sec_data(target)
            for rl in o.relas(rs):
                sname = osyms[rl.sym].name
                if sname not in symaddr:
                    continue
                site = start + rl.offset
                if target.name.startswith(".text") and rl.type in (R["PLT32"], R["PC32"]) and rl.addend == -4:
                    opc = tdata[rl.offset - 1]
                    if opc in (0xe8, 0xe9):
                        cur = e.u32_at(site)
                        if cur is None or e.read_va(site - 1, 1)[0] != opc:
                            continue
                        tgt = (site + 4 + struct.unpack("<i", struct.pack("<I", cur))[0]) & ((1 << 64) - 1)
                        if tgt != symaddr[sname]:
                            continue      # through a PLT / thunk: not a plain reference
                        sites.append(dict(kind="call-rel32", site=site, sym=sname, form="call" if opc == 0xe8 else "jmp", pcrel=True))
                    elif rl.offset >= 3 and tdata[rl.offset - 2] in (0x8d, 0x8b) and tdata[rl.offset - 1] & 0xc7 == 0x05:
                        if e.read_va(site - 2, 2) != tdata[rl.offset - 2:rl.offset]:
                            continue
                        cur = e.u32_at(site)
                        tgt = (site + 4 + struct.unpack("<i", struct.pack("<I", cur))[0]) & ((1 << 64) - 1)
                        if tgt != symaddr[sname]:
                            continue
                        sites.append(dict(kind="rip-lea", site=site, sym=sname, form="lea" if tdata[rl.offset - 2] == 0x8d else "mov",
                                          pcrel=True))
                elif target.name.startswith(".text") and rl.type in (R["GOTPCREL"], R["GOTPCRELX"], R["REX_GOTPCRELX"]) and rl.addend == -4:
                    if got is None:
                        continue
                    now = e.read_va(site - 2, 2)
                    if now is None or now[0] not in (0x8b, 0x03, 0x3b, 0xff) or now[1] & 0xc7 != 0x05 or now != tdata[rl.offset - 2:rl.offset]:
                        continue          # relaxed to lea / mov $imm / cmp $imm: no GOT slot behind it
                    cur = e.u32_at(site)
                    slot = (site + 4 + struct.unpack("<i", struct.pack("<I", cur))[0]) & ((1 << 64) - 1)
                    if not (got.addr <= slot < got.addr + got.size):
                        continue
                    val = relative[slot][1] if slot in relative else e.u64_at(slot)
                    if slot in relr:
                        val = e.u64_at(slot)
                    if val != symaddr[sname]:
                        continue
                    sites.append(dict(kind="got-slot", site=slot, sym=sname, pcrel=False, via=site,
                                      form={0x8b: "mov", 0x03: "add", 0x3b: "cmp", 0xff: "push"}[now[0]]))
                elif rl.type == R["R64"] and rl.addend == 0 and (target.name.startswith(".data") or target.name == ".init_array"):
                    val = relative[site][1] if site in relative else e.u64_at(site)
                    if val != symaddr[sname]:
                        continue
                    sites.append(dict(kind="data-pointer", site=site, sym=sname, form=".init_array" if target.name == ".init_array" else ".data",
                                      pcrel=False))
    return e, sites, symaddr, symsize, relative


def corrupt(src, dst, e, site, pcrel, target, relative):
    copy_with_side_files(src, dst)
    data = bytearray(open(dst, "rb").read())
    off = e.vaddr_to_off(site)
    if off is None:
        return False
    if pcrel:
        disp = target - (site + 4)
        if not -(1 << 31) <= disp < (1 << 31):
            return False
        struct.pack_into("<i", data, off, disp)
    else:
        struct.pack_into("<Q", data, off, target)
        if site in relative:
            struct.pack_into("<q", data, relative[site][0], target)
    open(dst, "wb").write(bytes(data))
    return True


EXT_LIB_S = """.globl ext_table, ext_other, ext_fn
.data
.type ext_table,@object
.size ext_table,96
ext_table: .zero 96
.type ext_other,@object
.size ext_other,64
ext_other: .zero 64
.text
.type ext_fn,@function
ext_fn: ret
.size ext_fn,.-ext_fn
.section .note.GNU-stack,"",@progbits
"""


def addend_case(ctx, i):
    """A PIE / shared object whose data holds pointers into objects of ANOTHER shared library: the loader
    resolves them through symbolic relocations with addends."""
    case_id = f"ext-{i}"
    r = rng("C34", ctx.seed, "ext", i)
    d = ctx.scratch.dir("ext", case_id)
    kind = r.choice(["pie", "shared"])
    ptrs = [(r.choice(["ext_table", "ext_other"]), 4 * r.randint(0, 12)) for _ in range(r.randint(2, 6))]
    src = ".globl _start\n.text\n_start: ret\n.data\n.globl ptab\nptab:\n" + "".join(f"    .quad {sy}+{a}\n" for sy, a in ptrs) + \
          "    .quad ext_fn\n.section .note.GNU-stack,\"\",@progbits\n"
    lib_o = os.path.join(d, "ext.o")
    write(lib_o, open(cc(ctx, EXT_LIB_S, (), "s"), "rb").read())
    main_o = os.path.join(d, "main.o")
    write(main_o, open(cc(ctx, src, (), "s"), "rb").read())
    so = os.path.join(d, "libext.so")
    if not tools.link("ld", ["-shared", "-soname", "libext.so", lib_o, "-o", so], cwd=d).ok:
        return ctx.inconclusive("helper library does not link")
    args = {"pie": ["-pie", "--dynamic-linker=/lib64/ld-linux-x86-64.so.2"], "shared": ["-shared", "-soname", "libmain.so"]}[kind]
    args += ["-z", "now", "--hash-style=gnu", "--build-id=none", main_o, so]
    lout, wout = os.path.join(d, "m.l"), os.path.join(d, "m.w")
    rl = tools.link("ld", [*args, "-o", lout], cwd=d, timeout=120)
    rw = tools.link("wild", [*args, "-o", wout], cwd=d, timeout=120, extra_env={"WILD_WRITE_LAYOUT": "1", "WILD_WRITE_TRACE": "1"})
    if not rl.ok or not rw.ok:
        return ctx.inconclusive("program with external data pointers does not link")
    base = ldiff(["--wild-defaults", "--ref", lout, wout])
    if base.timed_out:
        return ctx.inconclusive("watchdog: linker-diff")
    if base.rc != 0:
        ctx.note("unmodified-pair-not-clean:ext:" + kind)
        return ctx.inconclusive("unmodified ld-vs-wild comparison is not clean")
    ctx.note("clean-pairs:ext:" + kind)
    files = {"main.s": src, "ext.s": EXT_LIB_S,
             "how.txt": "as ext.s -o ext.o; as main.s -o main.o; ld -shared -soname libext.so ext.o -o libext.so\n"
                        f"WILD_WRITE_LAYOUT=1 WILD_WRITE_TRACE=1 $WILD {' '.join(args[:-2])} main.o libext.so -o m.w; same with ld.bfd -o m.l\n"}
    run_addend_corruptions(ctx, r, wout, lout, kind, case_id, files, d)


def catch_case(ctx, i, pinned=None):
    case_id = f"pinned-{pinned['id']}" if pinned else f"fs-{i}"
    tag = f"{ctx.seed}-{case_id}"
    r = rng("C34", ctx.seed, i if pinned is None else pinned["id"])
    case = pinned["case"] if pinned else gen_fs(r)
    d = ctx.scratch.dir("fs", case_id)
    fs = build_fs(ctx, case, d, tag)
    rl, lout = link_fs(fs, "ld")
    if rl.timed_out:
        return ctx.inconclusive("watchdog: GNU ld")
    if not rl.ok:
        ctx.note_set("ld-reject", rl.errtext().strip().split("\n")[0][-140:])
        return ctx.inconclusive("GNU ld rejects the freestanding program")
    rw, wout = link_fs(fs, "wild")
    if rw.timed_out:
        return ctx.inconclusive("watchdog: wild")
    if not rw.ok:
        ctx.note_set("wild-reject", rw.errtext().strip().split("\n")[0][-140:])
        return ctx.inconclusive("wild rejects the freestanding program")
    kind = case["kind"]
    how = fs_how(fs)
    files = dict(fs.srcs)
    files["how.txt"] = how
    # quiet on both outputs
    nv = quiet_checks(ctx, wout, "freestanding", kind, case_id, how, is_wild=True)
    nv += quiet_checks(ctx, lout, "freestanding", kind, case_id, how, is_wild=False)
    ctx.note_set("quiet-kinds", f"freestanding:{kind}")
    if nv == 0:
        ctx.held(fingerprint=f"quiet:{case_id}:{sha(repr(case))[:10]}", nontrivial=True)
    # unmodified comparison must be clean
    base = ldiff(["--wild-defaults", "--ref", lout, wout])
    if base.timed_out:
        return ctx.inconclusive("watchdog: linker-diff")
    if base.rc != 0:
        ks = sorted({key_class(k) for k in report_keys(base.outtext())})
        for k in ks[:4]:
            ctx.note("unmodified-pair-not-clean:" + k)
        ctx.note("unmodified-pair-not-clean:" + kind)
        return ctx.inconclusive("unmodified ld-vs-wild comparison is not clean")
    ctx.note("clean-pairs:" + kind)
    funcs = [f["name"] for f in case["funcs"]]
    datas = [dd["name"] for dd in case["datas"]]
    run_corruptions(ctx, r, wout, lout, fs.objs, kind, case_id, files, how, funcs, datas, d,
                    tag="/no-relax" if case["norelax"] else "", sample=bool(pinned) or i < 3)


def run_corruptions(ctx, r, wout, lout, objs, kind, case_id, files, how, funcs, datas, d, tag="", sample=False, per_kind=None):
    """One corruption at a time in copies of `wout`; each must make linker-diff report something."""
    run_addend_corruptions(ctx, r, wout, lout, kind, case_id, files, d, tag)
    e, sites, symaddr, symsize, relative = find_sites(objs, wout)
    if not sites:
        return ctx.inconclusive("no corruptible site found")
    r.shuffle(sites)
    # spread over kinds
    chosen, per = [], {}
    for s in sites:
        if per.get(s["kind"], 0) < (per_kind or ctx.pick(2, 4)):
            per[s["kind"]] = per.get(s["kind"], 0) + 1
            chosen.append(s)
    funcs = [n for n in funcs if n in symaddr]
    datas = [n for n in datas if n in symaddr]
    fset = set(funcs)
    for n, s in enumerate(chosen):
        orig = s["sym"]
        pool = funcs if orig in fset else datas
        if s["kind"] in ("got-slot", "data-pointer") and r.random() < 0.3:
            pool = funcs + datas
        cands = [t for t in pool if t != orig and not (symaddr[orig] <= symaddr[t] < symaddr[orig] + max(symsize[orig], 1))
                 and symaddr[t] != symaddr[orig]]
        if not cands:
            ctx.inconclusive("no other symbol to redirect to")
            continue
        t = r.choice(cands)
        dst = os.path.join(d, f"corrupt{n}.w")
        if not corrupt(wout, dst, e, s["site"], s["pcrel"], symaddr[t], relative):
            ctx.inconclusive("site not patchable")
            continue
        if SELFTEST == "nocorrupt":
            copy_with_side_files(wout, dst)
        res = ldiff(["--wild-defaults", "--ref", lout, dst])
        if res.timed_out:
            ctx.inconclusive("watchdog: linker-diff")
            continue
        ctx.note(f"corruptions:{s['kind']}:{kind}")
        ctx.note_set("corruption-forms", f"{s['kind']}/{s['form']}/{kind}" + tag)
        desc = (f"{s['kind']} ({s['form']}) at {s['site']:#x} in a {kind} output redirected from {orig} ({symaddr[orig]:#x}) to {t} "
                f"({symaddr[t]:#x})")
        if res.rc == 0:
            f2 = dict(files)
            f2.update({"under-test.w": wout, "under-test.w.layout": wout + ".layout", "reference.l": lout, "corrupt.w": dst,
                       "corrupt.w.layout": dst + ".layout", "patch.py": PATCH_PY,
                       "how.txt": how + f"# corruption: {desc}\npython3 patch.py <wild-output> corrupt.w {s['site']:#x} {symaddr[t]:#x} "
                       f"{'pcrel' if s['pcrel'] else 'abs'}\nlinker-diff --wild-defaults --ref <ld-output> corrupt.w   # exits 0\n"})
            LIM.violation(f"missed-corruption:kind={s['kind']}:{kind}:site-in={site_class(e, s['site'])}", f"linker-diff reports nothing although {desc}",
                          case=f"{case_id}.{n}", files=f2, info=dict(site=hex(s["site"]), orig=orig, new=t, form=s["form"]))
        elif res.rc != 1:
            LIM.violation(f"linker-diff-failed:catch:{kind}", f"linker-diff exit status {res.rc} on a corrupted binary: "
                          f"{res.errtext().strip()[:300]}", case=f"{case_id}.{n}", files=files)
        else:
            keys = sorted({key_class(k) for k in report_keys(res.outtext())})
            for k in keys[:3]:
                ctx.note_set("report-keys:" + s["kind"], k)
            ctx.held(fingerprint=f"catch:{case_id}:{s['kind']}:{s['form']}:{s['site']:#x}->{t}", nontrivial=True,
                     sample=dict(corruption=desc, reported=keys[:3]) if n == 0 and sample else None)


def site_class(e, site):
    """What kind of object of the output holds the corrupted site (by the symbol that covers it)."""
    best = None
    for sy in e.symtab():
        if sy.name and sy.defined and sy.type in (E.STT_OBJECT, E.STT_FUNC, E.STT_NOTYPE) and sy.value <= site < sy.value + max(sy.size, 1):
            if best is None or sy.size > best.size:
                best = sy
    if best is None:
        return "no-symbol"
    n = best.name
    for pre, cls in (("_ZTV", "c++-vtable"), ("_ZTI", "c++-typeinfo"), ("_ZTS", "c++-typeinfo-name"), ("DW.ref.", "DW.ref"),
                     ("_ZTT", "c++-vtt"), ("_ZGV", "c++-guard")):
        if n.startswith(pre):
            return cls
    return "function" if best.type == E.STT_FUNC else "plain-object"


def run_addend_corruptions(ctx, r, wout, lout, kind, case_id, files, d, tag=""):
    """Data pointers that the loader resolves through a *symbolic* dynamic relocation (R_X86_64_64 sym+A in a
    writable non-GOT section): changing A in a copy redirects the pointer, so linker-diff must report it."""
    e = Elf(wout)
    dyn = e.dynsym()
    got = [s for s in e.sections if s.name.startswith(".got")]
    cands = []
    for rs in e.rela_sections():
        if not (rs.flags & E.SHF_ALLOC):
            continue
        for i, rl in enumerate(e.relas(rs)):
            if rl.type != R["R64"] or not rl.sym or rl.sym >= len(dyn):
                continue
            if any(g.addr <= rl.offset < g.addr + g.size for g in got):
                continue
            sec = next((x for x in e.sections if x.alloc and x.addr <= rl.offset < x.addr + x.size), None)
            if sec is None or not (sec.flags & E.SHF_WRITE) or sec.type == E.SHT_NOBITS:
                continue
            cands.append((rs.offset + 24 * i + 16, rl, sec.name, dyn[rl.sym].name))
    if not cands:
        return
    r.shuffle(cands)
    for n, (aoff, rl, secname, symname) in enumerate(cands[:2]):
        dst = os.path.join(d, f"corrupt-addend{n}.w")
        copy_with_side_files(wout, dst)
        data = bytearray(open(dst, "rb").read())
        new = rl.addend + r.choice([8, 16, 32, 40])
        struct.pack_into("<q", data, aoff, new)
        open(dst, "wb").write(bytes(data))
        res = ldiff(["--wild-defaults", "--ref", lout, dst])
        if res.timed_out:
            ctx.inconclusive("watchdog: linker-diff")
            continue
        k = "dynamic-symbolic-data-pointer"
        ctx.note(f"corruptions:{k}:{kind}")
        ctx.note_set("corruption-forms", f"{k}/{secname}/{kind}" + tag)
        desc = (f"data pointer at {rl.offset:#x} ({secname}) of a {kind} output, resolved at load time by R_X86_64_64 {symname}"
                f"{rl.addend:+#x}, redirected to {symname}{new:+#x}")
        if res.rc == 0:
            f2 = dict(files)
            f2.update({"under-test.w": wout, "under-test.w.layout": wout + ".layout", "reference.l": lout, "corrupt.w": dst,
                       "corrupt.w.layout": dst + ".layout",
                       "how.txt": f"# corruption: {desc}\n# r_addend at file offset {aoff:#x} changed from {rl.addend} to {new}\n"
                                  f"linker-diff --wild-defaults --ref <ld-output> corrupt.w   # exits 0\n"})
            LIM.violation(f"missed-corruption:kind={k}:{kind}:site-in={site_class(e, rl.offset)}", f"linker-diff reports nothing although {desc}",
                          case=f"{case_id}.a{n}", files=f2, info=dict(site=hex(rl.offset), sym=symname, addend=rl.addend, new=new))
        elif res.rc != 1:
            LIM.violation(f"linker-diff-failed:catch:{kind}", f"linker-diff exit status {res.rc} on a corrupted binary: "
                          f"{res.errtext().strip()[:300]}", case=f"{case_id}.a{n}", files=files)
        else:
            ctx.held(fingerprint=f"catch:{case_id}:{k}:{rl.offset:#x}", nontrivial=True)


PATCH_PY = r'''#!/usr/bin/env python3
"""patch.py SRC DST SITE TARGET pcrel|abs : copy SRC (+ .layout) to DST and redirect the reference at SITE to TARGET."""
import struct, sys, shutil
src, dst, site, target, mode = sys.argv[1], sys.argv[2], int(sys.argv[3], 16), int(sys.argv[4], 16), sys.argv[5]
shutil.copy(src, dst); shutil.copy(src + ".layout", dst + ".layout")
d = bytearray(open(dst, "rb").read())
phoff, phentsize, phnum = struct.unpack_from("<Q", d, 32)[0], *struct.unpack_from("<HH", d, 54)
shoff, shentsize, shnum = struct.unpack_from("<Q", d, 40)[0], *struct.unpack_from("<HH", d, 58)
def off(va):
    for i in range(phnum):
        t, fl, o, v, pa, fs, ms, al = struct.unpack_from("<IIQQQQQQ", d, phoff + i * phentsize)
        if t == 1 and v <= va < v + fs:
            return o + va - v
    raise SystemExit("address not in a loaded segment")
if mode == "pcrel":
    struct.pack_into("<i", d, off(site), target - (site + 4))
else:
    struct.pack_into("<Q", d, off(site), target)
    for i in range(shnum):
        nm, ty, fl, ad, o, sz = struct.unpack_from("<IIQQQQ", d, shoff + i * shentsize)
        if ty == 4 and fl & 2:
            for j in range(sz // 24):
                ro, info, add = struct.unpack_from("<QQq", d, o + 24 * j)
                if ro == site and info & 0xffffffff == 8:
                    struct.pack_into("<q", d, o + 24 * j + 16, target)
open(dst, "wb").write(bytes(d))
'''


def pinned_cases():
    mk = lambda name, obj, ops, tail=None: dict(name=name, obj=obj, ops=ops, tail=tail)  # noqa: E731
    out = []
    for kind, norelax in (("static", False), ("static", True), ("pie", False), ("shared", False)):
        out.append(dict(id=f"basic-{kind}" + ("-norelax" if norelax else ""), case=dict(
            kind=kind, nobj=2, norelax=norelax, gc=False, init_obj=1, init=["fn1", "fn2"], start=["fn0", "fn2"],
            funcs=[mk("fn0", 0, [("call", "fn1"), ("lea", "dat0"), ("gotpush", "dat1")], ("jmp", "fn2")),
                   mk("fn1", 1, [("mov", "dat1"), ("gotpush", "fn2"), ("call", "fn2")]),
                   mk("fn2", 0, [("leaf", "fn1"), ("lea", "dat2"), ("got", "dat0")]),
                   mk("fn3", 1, [("call", "fn0"), ("gotcmp" if kind != "static" else "gotpush", "dat0")])],
            datas=[dict(name="dat0", obj=0, ptrs=["fn1", "dat1"], pad=8), dict(name="dat1", obj=1, ptrs=["fn2"], pad=0),
                   dict(name="dat2", obj=1, ptrs=["dat0", "fn3", "fn0"], pad=16)])))
    return out


PINNED_QUIET = {
    # global-dynamic TLS access compiled with -fno-plt in a dynamically linked non-PIE executable: wild keeps the GD sequence with a
    # link-time constant module id; linker-diff's analysis of that site fails and the failure is printed as a difference
    "tlsgd-noplt-dyn": (["-O2", "-fPIC", "-fno-plt"], ["-no-pie"]),
    # TLS descriptors (gnu2 dialect) relaxed to local-exec by wild
    "tlsdesc-dyn": (["-O1", "-fPIC", "-mtls-dialect=gnu2"], ["-no-pie"]),
}
PINNED_QUIET_ASM = {
    # `add x@gottpoff(%rip), %reg` relaxed by wild to `add $tpoff, %reg`: linker-diff does not know the add form
    "gottpoff-add-static": ('.section .note.GNU-stack,"",@progbits\n.text\n.globl _start\n.type _start,@function\n_start:\n'
                            '    mov %fs:0, %rax\n    add tv@gottpoff(%rip), %rax\n    mov $60, %eax\n    xor %edi, %edi\n    syscall\n'
                            '.size _start, .-_start\n.section .tdata,"awT",@progbits\n.globl tv\n.type tv,@object\ntv: .long 7\n.size tv, 4\n'),
}
PINNED_QUIET_SRC = ('#include <stdio.h>\n__thread int t1 = 5;\nint *addr(void) { return &t1; }\n'
                    'int main() { printf("%d\\n", *addr()); return 0; }\n')


def pinned_quiet(ctx, name):
    d = ctx.scratch.dir("pinned-quiet", name)
    if name in PINNED_QUIET_ASM:
        obj = os.path.join(d, "t.o")
        write(obj, open(cc(ctx, PINNED_QUIET_ASM[name], (), "s"), "rb").read())
        out = tools.fresh(os.path.join(d, "t.w"))
        res = tools.link("wild", [obj, "-o", out], timeout=300, extra_env={"WILD_WRITE_LAYOUT": "1", "WILD_WRITE_TRACE": "1"})
        if res.timed_out or not res.ok:
            return ctx.inconclusive("pinned program does not link with wild")
        how = (f"cat > t.s <<'EOF'\n{PINNED_QUIET_ASM[name]}EOF\ngcc -c t.s -o t.o\nWILD_WRITE_LAYOUT=1 wild $PWD/t.o -o t.w\n"
               "linker-diff --wild-defaults --ref t.w t.w\n")
        if quiet_checks(ctx, out, "freestanding", "static", f"pinned-quiet-{name}", how) == 0:
            ctx.held(fingerprint=f"quiet:pinned:{name}", nontrivial=True)
        return
    cflags, lflags = PINNED_QUIET[name]
    obj = os.path.join(d, "t.o")
    write(obj, open(cc(ctx, PINNED_QUIET_SRC, cflags, "c"), "rb").read())
    out = tools.fresh(os.path.join(d, "prog.w"))
    res = tools.gcc_link(ctx, "wild", [*lflags, obj], out, timeout=600, extra_env={"WILD_WRITE_LAYOUT": "1", "WILD_WRITE_TRACE": "1"})
    if res.timed_out:
        return ctx.inconclusive("watchdog: program link")
    if not res.ok:
        return ctx.inconclusive("pinned program does not link with wild")
    how = (f"cat > t.c <<'EOF'\n{PINNED_QUIET_SRC}EOF\ngcc {' '.join(cflags)} -c t.c -o t.o\n"
           f"WILD_WRITE_LAYOUT=1 gcc -B<dir with ld -> wild> {' '.join(lflags)} $PWD/t.o -o prog.w\nlinker-diff --wild-defaults --ref prog.w prog.w\n")
    if quiet_checks(ctx, out, "program", "dyn/exe", f"pinned-quiet-{name}", how) == 0:
        ctx.held(fingerprint=f"quiet:pinned:{name}", nontrivial=True)


def main(ctx):
    global LIM
    LIM = SigLimiter(ctx, 2)
    ctx.rule = ("quiet: one (binary, linker) of a proggen or freestanding program per case, compared with itself and with a copy, "
                "with and without --wild-defaults; catches: one corruption = one relocated reference of a wild output (whose "
                "unmodified comparison against GNU ld's output is clean) redirected to another symbol; distinct = distinct "
                "(program, site, new target)")
    ctx.assumptions = ["GNU ld 2.40 outputs are the references", "sites are taken from the input relocation tables + wild's .layout + "
                       "the output symbol table and verified in the output bytes before patching",
                       "a GNU ld output compared with itself yields the documented 'A .layout file is required' entry only"]
    build.ensure("hook")
    tools.wild()
    nq = ctx.pick(6, 30)
    nc = ctx.pick(36, 450)
    jobs = ([("p", p) for p in pinned_cases()] + [("pq", n) for n in list(PINNED_QUIET) + list(PINNED_QUIET_ASM)] + [("q", j) for j in range(nq)]
            + [("c", i) for i in range(nc)] + [("x", i) for i in range(ctx.pick(8, 60))])
    if ctx.replay is not None:
        c = str(ctx.replay.get("case")).split(".")[0]
        jobs = [j for j in jobs if (j[0] == "p" and c == f"pinned-{j[1]['id']}") or (j[0] == "q" and c == f"prog-{j[1]}")
                or (j[0] == "pq" and c == f"pinned-quiet-{j[1]}")
                or (j[0] == "c" and c == f"fs-{j[1]}") or (j[0] == "x" and c == f"ext-{j[1]}")]

    def go(j):
        if j[0] == "p":
            catch_case(ctx, None, pinned=j[1])
        elif j[0] == "pq":
            pinned_quiet(ctx, j[1])
        elif j[0] == "q":
            quiet_program(ctx, j[1])
        elif j[0] == "x":
            addend_case(ctx, j[1])
        else:
            catch_case(ctx, j[1])
    pmap(go, jobs)
