"""C08 Dynamic symbol hash tables find every exported symbol.

Oracle (a): a Python re-implementation of glibc's do_lookup_x paths (dl_new_hash + bloom word and
two bits + bucket + chain walk with symoffset; _dl_elf_hash bucket/chain walk) reading the tables the
way the loader does (through DT_GNU_HASH/DT_HASH/DT_SYMTAB/DT_STRTAB), run for every defined .dynsym
entry and for absent names (bounded "not found"), plus structural checks. Oracle (b): the real
consumer - dlsym-driver dlopen()s each generated shared object under glibc and dlsym()/dlvsym()s every
exported name, calls it and checks the id (for -E executables the driver is linked into the
executable by the linker under test and uses RTLD_DEFAULT). GNU ld links the same inputs first and
both oracles must accept its output (calibration).
"""
import os
import struct

from vlib import tools, dyngen
from vlib.elf import Elf, ElfError, DT, SHN_UNDEF, SHN_ABS, STB_LOCAL, STT_TLS, elf_hash, gnu_hash
from vlib.common import pmap, rng, run, write

LEVEL = "exploration"

COUNTS = [0, 1, 2, 3, 31, 32, 33, 1000, 5000]
STYLES = ["gnu", "sysv", "both"]
FLAVOURS = ["random", "bucket", "gnuhash", "sysvhash", "prefix", "versioned", "mixed"]


# ---- loader view -----------------------------------------------------------------------------------

class Problem(Exception):
    def __init__(self, sig, desc):
        Exception.__init__(self, desc)
        self.sig, self.desc = sig, desc


class LoaderView:
    """The dynamic symbol table and hash tables as ld.so finds them (via PT_DYNAMIC tags)."""

    def __init__(self, path):
        e = self.e = Elf(path)
        self.d = e.data
        dyn = {}
        for k, v in e.dynamic():
            dyn.setdefault(k, v)
        self.dyn = dyn
        if DT["SYMTAB"] not in dyn or DT["STRTAB"] not in dyn:
            raise Problem("structure:no-DT_SYMTAB", "no DT_SYMTAB/DT_STRTAB")
        self.symoff = self.off(dyn[DT["SYMTAB"]], "DT_SYMTAB")
        self.stroff = self.off(dyn[DT["STRTAB"]], "DT_STRTAB")
        self.strsz = dyn.get(DT["STRSZ"], 0)
        ds = e.section_by_type(11)
        if ds is None:
            raise Problem("structure:no-dynsym-section", "no SHT_DYNSYM section")
        if ds.addr != dyn[DT["SYMTAB"]]:
            raise Problem("structure:DT_SYMTAB-mismatch", "DT_SYMTAB does not point at .dynsym")
        self.nsyms = ds.size // 24
        self.versym = None
        if DT["VERSYM"] in dyn:
            vo = self.off(dyn[DT["VERSYM"]], "DT_VERSYM")
            self.versym = struct.unpack_from(f"<{self.nsyms}H", self.d, vo)
        self.syms = []
        for i in range(self.nsyms):
            name_off, info, other, shndx, value, size = struct.unpack_from("<IBBHQQ", self.d, self.symoff + 24 * i)
            self.syms.append((name_off, info, other, shndx, value, size))
        self._names = {}

    def off(self, va, what):
        o = self.e.vaddr_to_off(va)
        if o is None:
            raise Problem(f"structure:{what}-unmapped", f"{what} address {va:#x} is not in a PT_LOAD")
        return o

    def name(self, i):
        n = self._names.get(i)
        if n is None:
            o = self.stroff + self.syms[i][0]
            end = self.d.find(b"\0", o)
            n = self._names[i] = self.d[o:end]
        return n

    def defined(self, i):
        _, info, other, shndx, value, size = self.syms[i]
        return i > 0 and shndx != SHN_UNDEF and (info >> 4) != STB_LOCAL

    def loader_accepts(self, i):
        """The part of glibc's check_match that is independent of the name and version."""
        _, info, other, shndx, value, size = self.syms[i]
        stt = info & 0xf
        if value == 0 and shndx != SHN_ABS and stt != STT_TLS:
            return False
        if stt not in (0, 1, 2, 5, 6, 10):
            return False
        return True

    # ---- GNU hash ---------------------------------------------------------------------------------
    def gnu_table(self):
        va = self.dyn.get(DT["GNU_HASH"])
        if va is None:
            return None
        o = self.off(va, "DT_GNU_HASH")
        nbuckets, symoffset, bloom_size, bloom_shift = struct.unpack_from("<IIII", self.d, o)
        t = dict(off=o, nbuckets=nbuckets, symoffset=symoffset, bloom_size=bloom_size, bloom_shift=bloom_shift)
        if nbuckets == 0:
            raise Problem("gnu:structure:nbuckets=0", "nbuckets == 0 (the loader would divide by zero)")
        if bloom_size == 0 or bloom_size & (bloom_size - 1):
            raise Problem("gnu:structure:bloom-size-not-power-of-two", f"bloom size {bloom_size} (glibc asserts a power of two)")
        if symoffset > self.nsyms:
            raise Problem("gnu:structure:symoffset>nsyms", f"symoffset {symoffset} > {self.nsyms} dynsym entries")
        t["bloom"] = struct.unpack_from(f"<{bloom_size}Q", self.d, o + 16)
        bo = o + 16 + 8 * bloom_size
        t["buckets"] = struct.unpack_from(f"<{nbuckets}I", self.d, bo)
        nch = self.nsyms - symoffset
        co = bo + 4 * nbuckets
        if co + 4 * nch > len(self.d):
            raise Problem("gnu:structure:chains-past-eof", "chain array extends past the end of the file")
        t["chains"] = struct.unpack_from(f"<{nch}I", self.d, co)
        t["nchains"] = nch
        t["end"] = co + 4 * nch
        return t

    def gnu_lookup(self, t, name):
        """Returns (list of symbol indices whose chain hash and name match, in walk order, steps).
        Raises Problem when the walk leaves the table."""
        h = gnu_hash_b(name)
        word = t["bloom"][(h // 64) & (t["bloom_size"] - 1)]
        b1 = h & 63
        b2 = (h >> t["bloom_shift"]) & 63
        if not ((word >> b1) & (word >> b2) & 1):
            return [], 0, "bloom"
        b = t["buckets"][h % t["nbuckets"]]
        if b == 0:
            return [], 0, "bucket"
        if b < t["symoffset"]:
            raise Problem("gnu:walk:bucket<symoffset", f"bucket value {b} below symoffset {t['symoffset']}")
        found = []
        steps = 0
        i = b
        while True:
            ci = i - t["symoffset"]
            if ci >= t["nchains"]:
                raise Problem("gnu:walk:leaves-table", f"chain walk for {name!r} runs past the last chain entry (no end bit)")
            c = t["chains"][ci]
            steps += 1
            if ((c ^ h) >> 1) == 0:
                if self.name(i) == name:
                    found.append(i)
            if c & 1:
                break
            i += 1
        return found, steps, "chain"

    def check_gnu_structure(self, t, stats):
        so = t["symoffset"]
        for i in range(1, min(so, self.nsyms)):
            if self.defined(i):
                raise Problem("gnu:structure:defined-symbol-below-symoffset",
                              f"defined symbol {self.name(i)!r} (index {i}) is below symoffset {so}: not hashed")
        prev = -1
        for i in range(so, self.nsyms):
            h = gnu_hash_b(self.name(i))
            c = t["chains"][i - so]
            if (c | 1) != (h | 1):
                raise Problem("gnu:structure:chain-hash-mismatch",
                              f"chain entry of {self.name(i)!r} is {c:#x}, its name hashes to {h:#x}")
            bk = h % t["nbuckets"]
            if bk < prev:
                raise Problem("gnu:structure:not-sorted-by-bucket", f"symbol {i} ({self.name(i)!r}) bucket {bk} after bucket {prev}")
            last = i + 1 == self.nsyms or gnu_hash_b(self.name(i + 1)) % t["nbuckets"] != bk
            if last != bool(c & 1):
                raise Problem("gnu:structure:end-bit", f"end bit of chain entry {i} is {c & 1}, expected {int(last)}")
            if bk != prev and t["buckets"][bk] != i:
                raise Problem("gnu:structure:bucket-start", f"bucket {bk} holds {t['buckets'][bk]}, first symbol of the bucket is {i}")
            prev = bk
        used = set(gnu_hash_b(self.name(i)) % t["nbuckets"] for i in range(so, self.nsyms))
        for bk, v in enumerate(t["buckets"]):
            if v and bk not in used:
                raise Problem("gnu:structure:stale-bucket", f"bucket {bk} = {v} but no symbol hashes there")
        sec = self.e.section_by_type(0x6ffffff6)
        if sec is not None:
            if sec.addr != self.dyn[DT["GNU_HASH"]]:
                raise Problem("gnu:structure:DT_GNU_HASH-mismatch", "DT_GNU_HASH does not point at .gnu.hash")
            if sec.offset + sec.size < t["end"]:
                raise Problem("gnu:structure:section-too-small", f".gnu.hash size {sec.size} < tables need {t['end'] - sec.offset}")
        stats["gnu_nbuckets"] = t["nbuckets"]
        stats["gnu_bloom_words"] = t["bloom_size"]

    # ---- SysV hash --------------------------------------------------------------------------------
    def sysv_table(self):
        va = self.dyn.get(DT["HASH"])
        if va is None:
            return None
        o = self.off(va, "DT_HASH")
        nbucket, nchain = struct.unpack_from("<II", self.d, o)
        if nbucket == 0:
            raise Problem("sysv:structure:nbucket=0", "nbucket == 0")
        if nchain != self.nsyms:
            raise Problem("sysv:structure:nchain!=dynsym-count", f"nchain {nchain} != {self.nsyms} dynsym entries")
        buckets = struct.unpack_from(f"<{nbucket}I", self.d, o + 8)
        chains = struct.unpack_from(f"<{nchain}I", self.d, o + 8 + 4 * nbucket)
        return dict(nbucket=nbucket, nchain=nchain, buckets=buckets, chains=chains)

    def sysv_lookup(self, t, name):
        h = elf_hash_b(name)
        i = t["buckets"][h % t["nbucket"]]
        found = []
        steps = 0
        while i != 0:
            if i >= t["nchain"]:
                raise Problem("sysv:walk:leaves-table", f"walk for {name!r} reaches index {i} >= nchain {t['nchain']}")
            steps += 1
            if steps > t["nchain"]:
                raise Problem("sysv:walk:loop", f"walk for {name!r} does not terminate")
            if self.name(i) == name:
                found.append(i)
            i = t["chains"][i]
        return found, steps


def gnu_hash_b(b):
    h = 5381
    for c in b:
        h = (h * 33 + c) & 0xffffffff
    return h


def elf_hash_b(b):
    h = 0
    for c in b:
        h = ((h << 4) + c) & 0xffffffff
        g = h & 0xf0000000
        if g:
            h ^= g >> 24
        h &= ~g & 0xffffffff
    return h


def check_tables(path, style, absent, expect_defined):
    """Runs oracle (a) on an output file. Returns (problems, stats). `expect_defined`: names the
    generator exported (each must be a defined dynsym entry)."""
    stats = {}
    problems = []
    try:
        lv = LoaderView(path)
    except Problem as p:
        return [(p.sig, p.desc)], stats
    except (ElfError, struct.error) as ex:
        return [("structure:unreadable", str(ex))], stats
    defined = [i for i in range(1, lv.nsyms) if lv.defined(i)]
    stats["dynsyms"] = lv.nsyms
    stats["defined"] = len(defined)
    names_defined = set(lv.name(i) for i in defined)
    for n in expect_defined:
        if n.encode() not in names_defined:
            problems.append(("dynsym:exported-name-missing", f"{n} is not a defined .dynsym entry"))
            break
    want_gnu = style in ("gnu", "both")
    want_sysv = style in ("sysv", "both")
    try:
        g = lv.gnu_table()
        if want_gnu and g is None and defined:
            problems.append(("gnu:missing-table", "--hash-style requests .gnu.hash but DT_GNU_HASH is absent"))
        if g is not None:
            lv.check_gnu_structure(g, stats)
            mx = 0
            for i in defined:
                if not lv.loader_accepts(i):
                    stats["loader_unacceptable"] = stats.get("loader_unacceptable", 0) + 1
                found, steps, where = lv.gnu_lookup(g, lv.name(i))
                mx = max(mx, steps)
                if i not in found:
                    problems.append(("gnu:lookup:defined-symbol-not-found",
                                     f"GNU lookup of {lv.name(i)!r} (index {i}) stops at {where} without reaching it"))
                    break
            stats["gnu_lookups"] = len(defined)
            stats["gnu_max_steps"] = mx
            nb = 0
            for n in absent:
                found, steps, where = lv.gnu_lookup(g, n.encode())
                if found:
                    problems.append(("gnu:lookup:absent-name-found", f"{n} found at {found}"))
                    break
                nb += where == "bloom"
            stats["gnu_absent"] = len(absent)
            stats["gnu_absent_bloom_rejected"] = nb
    except Problem as p:
        problems.append((p.sig, p.desc))
    except (struct.error, IndexError) as ex:
        problems.append(("gnu:structure:unreadable", str(ex)))
    try:
        s = lv.sysv_table()
        if want_sysv and s is None and defined:
            problems.append(("sysv:missing-table", "--hash-style requests .hash but DT_HASH is absent"))
        if s is not None:
            mx = 0
            for i in defined:
                found, steps = lv.sysv_lookup(s, lv.name(i))
                mx = max(mx, steps)
                if i not in found:
                    problems.append(("sysv:lookup:defined-symbol-not-found",
                                     f"SysV lookup of {lv.name(i)!r} (index {i}) does not reach it"))
                    break
            # every bucket's walk terminates inside the table
            for bk in range(s["nbucket"]):
                i = s["buckets"][bk]
                steps = 0
                while i:
                    if i >= s["nchain"]:
                        raise Problem("sysv:walk:leaves-table", f"bucket {bk} reaches index {i}")
                    steps += 1
                    if steps > s["nchain"]:
                        raise Problem("sysv:walk:loop", f"bucket {bk} chain loops")
                    if elf_hash_b(lv.name(i)) % s["nbucket"] != bk:
                        raise Problem("sysv:structure:symbol-in-wrong-bucket", f"symbol {i} {lv.name(i)!r} chained in bucket {bk}")
                    i = s["chains"][i]
            for n in absent:
                found, steps = lv.sysv_lookup(s, n.encode())
                if found:
                    problems.append(("sysv:lookup:absent-name-found", f"{n} found at {found}"))
                    break
            stats["sysv_lookups"] = len(defined)
            stats["sysv_max_steps"] = mx
            stats["sysv_nbucket"] = s["nbucket"]
    except Problem as p:
        problems.append((p.sig, p.desc))
    except (struct.error, IndexError) as ex:
        problems.append(("sysv:structure:unreadable", str(ex)))
    return problems, stats


# ---- workload --------------------------------------------------------------------------------------

def make_names(r, n, flavour):
    """Returns (plain names, versioned base names). plain: exported as is; versioned: each base b is
    exported as b@V1 (hidden) and b@@V2 (default)."""
    taken = set()
    if n == 0:
        return [], []
    if flavour == "versioned":
        nv = max(1, min(n // 2, r.choice([1, 2, 5, 40])))
        vb = dyngen.unique_names(r, nv, lambda: dyngen.rand_name(r, 2, 12), taken)
        rest = n - 2 * nv
        plain = dyngen.unique_names(r, max(rest, 0), lambda: dyngen.rand_name(r), taken)
        return plain, vb
    if flavour == "bucket":
        fn = gnu_hash if r.random() < 0.6 else elf_hash
        k = min(n, r.choice([2, 8, 40]))
        coll = dyngen.names_same_low_bits(r, k, fn, bits=r.choice([6, 10]), taken=taken)
        return coll + dyngen.unique_names(r, n - k, lambda: dyngen.rand_name(r), taken), []
    if flavour in ("gnuhash", "sysvhash"):
        out = []
        pair = ("az", "bY") if flavour == "gnuhash" else ("aq", "ba")
        variants = dyngen.same_gnu_hash_variants if flavour == "gnuhash" else dyngen.same_sysv_hash_variants
        while len(out) < n:
            k = r.choice([1, 2, 3])
            base = dyngen.rand_name(r, 1, 6) + "".join(pair[0] + dyngen.rand_name(r, 1, 3) for _ in range(k))
            for v in variants(base):
                if v not in taken and len(out) < n:
                    taken.add(v)
                    out.append(v)
            if r.random() < 0.3:
                out += dyngen.unique_names(r, min(2, n - len(out)), lambda: dyngen.rand_name(r), taken)
        return out[:n], []
    if flavour == "prefix":
        pre = dyngen.rand_name(r, 4, 30) + "_"
        out = []
        for i in range(n):
            s = f"{pre}{i}" if r.random() < 0.8 else pre + "x" * (i % 7) + str(i)
            if s not in taken:
                taken.add(s)
                out.append(s)
        return out, []
    if flavour == "mixed":
        a, _ = make_names(r, n // 3, "gnuhash")
        taken.update(a)
        b = [x for x in make_names(r, n // 3, "prefix")[0] if x not in taken]
        taken.update(b)
        c = dyngen.unique_names(r, n - len(a) - len(b), lambda: dyngen.rand_name(r, 1, 40), taken)
        out = a + b + c
        r.shuffle(out)
        return out, []
    return dyngen.unique_names(r, n, lambda: dyngen.rand_name(r, 1, r.choice([3, 8, 24, 60])), taken), []


def build_case(ctx, r, i, n, style, kind, flavour):
    d = ctx.scratch.dir("c", i)
    plain, vbases = make_names(r, n, flavour)
    ids = {}
    next_id = [r.randint(1, 1000)]

    def nid():
        next_id[0] += r.randint(1, 3)
        return next_id[0]
    defs = [(nm, nid()) for nm in plain]
    for nm, v in defs:
        ids[nm] = v
    nobj = 1 if len(defs) < 4 else r.choice([1, 1, 2, 4])
    chunks = [defs[k::nobj] for k in range(nobj)]
    extra0 = ""
    expect = []  # list lines for the consumer
    script = None
    if vbases:
        keep_alias = r.random() < 0.5
        vdefs = []
        for b in vbases:
            i1, i2 = nid(), nid()
            l1, l2 = f"{b}_impl_v1", f"{b}_impl_v2"
            vdefs += [(l1, i1), (l2, i2)]
            vis = "" if keep_alias else ", remove"
            extra0 += f".symver {l1}, {b}@V1{vis}\n.symver {l2}, {b}@@V2{vis}\n"
            expect += [f"V {b} V1 {i1}", f"V {b} V2 {i2}", f"D {b} {i2}", f"W {b} V3"]
            if keep_alias:
                expect += [f"D {l1} {i1}", f"D {l2} {i2}"]
        chunks[0] = chunks[0] + vdefs
        star = r.random() < 0.5
        script = ("V1 { global: *; };\nV2 { } V1;\n" if star else "V1 { };\nV2 { } V1;\n")
        for nm, v in defs:
            expect.append(f"V {nm} V1 {v}" if star else f"W {nm} V1")
    weakref = ""
    if kind == "shared" and n > 0 and r.random() < 0.4:
        weakref = ".weak c08_undefined_import\n.globl c08_caller\n.type c08_caller,@function\nc08_caller: call c08_undefined_import@PLT\n ret\n"
    objs = []
    for k, ch in enumerate(chunks):
        src = dyngen.func_asm(ch, (extra0 if k == 0 else "") + (weakref if k == 0 else ""))
        objs.append(tools.assemble(ctx, src))
    for nm, v in defs:
        expect.append(f"D {nm} {v}")
    taken = set(plain) | set(vbases)
    absent = dyngen.unique_names(r, 30, lambda: "zq" + dyngen.rand_name(r, 3, 20), set(taken))
    # absent names that share hashes / low hash bits with present ones
    for nm in plain[:20]:
        for v in (dyngen.same_gnu_hash_variants(nm) + dyngen.same_sysv_hash_variants(nm)):
            if v not in taken and v not in absent:
                absent.append(v)
        absent.append(nm + "x")
        if len(nm) > 1:
            absent.append(nm[:-1])
    absent = [a for a in dict.fromkeys(absent) if a not in taken and a not in dyngen.RESERVED and a]
    if kind == "exe":
        # names that libc/ld.so might define are excluded by the prefix rule: only generated ones
        absent = [a for a in absent if a.startswith("zq")]
    for a in absent:
        expect.append(f"A {a}")
    lst = write(os.path.join(d, "list.txt"), "\n".join(expect) + "\n")
    sp = write(os.path.join(d, "v.map"), script) if script else None
    return dict(dir=d, objs=objs, list=lst, script=sp, exported=plain, vbases=vbases, absent=absent,
                n_expect=len(expect))


def do_link(ctx, linker, case, style, kind, out):
    tools.fresh(out)
    if kind == "shared":
        args = ["-shared", "--hash-style=" + style, *case["objs"], "-o", out]
        if case["script"]:
            args.insert(1, "--version-script=" + case["script"])
        res = tools.link(linker, args, timeout=300)
        cmd = " ".join([linker] + args)
    else:
        args = [dyngen.dlsym_driver_obj(ctx), *case["objs"], "-rdynamic", "-Wl,--hash-style=" + style, "-ldl"]
        res = tools.gcc_link(ctx, linker, args, out, timeout=300)
        cmd = f"gcc -B<{linker}> " + " ".join(args) + " -o " + out
    return res, cmd


def consume(ctx, case, kind, out):
    if kind == "shared":
        return run([dyngen.dlsym_driver(ctx), out, case["list"]], timeout=120)
    return run([out, "-", case["list"]], timeout=120)


def parse_consumer(res):
    """-> (status, fails) status: 'ok' | 'loadfail' | 'crash' | 'fails'."""
    t = res.outtext()
    if res.timed_out:
        return "timeout", []
    if "LOADFAIL" in t:
        return "loadfail", [t.strip()[:300]]
    if "DONE checked=" not in t:
        return "crash", [f"rc={res.rc} {t[-200:]} {res.errtext()[-200:]}"]
    fails = [l for l in t.splitlines() if l.startswith("FAIL ")]
    return ("fails" if fails else "ok"), fails


def corrupt(path, mode):
    """Self-validation fault injection (VERIF_C08_INJECT): damages the wild output before the
    oracles read it."""
    e = Elf(path)
    data = bytearray(e.data)
    g = e.section_by_type(0x6ffffff6)
    h = e.section_by_type(5)
    if mode == "endbit" and g is not None and g.size > 32:
        o = g.offset + g.size - 4
        data[o] &= 0xfe
    elif mode == "chainhash" and g is not None and g.size > 32:
        o = g.offset + g.size - 4
        data[o + 1] ^= 0x10
    elif mode == "bloom" and g is not None:
        data[g.offset + 16:g.offset + 24] = b"\0" * 8
    elif mode == "sysvchain" and h is not None:
        nb, nc = struct.unpack_from("<II", data, h.offset)
        for k in range(nb):
            o = h.offset + 8 + 4 * k
            v = struct.unpack_from("<I", data, o)[0]
            if v:
                struct.pack_into("<I", data, h.offset + 8 + 4 * nb + 4 * v, v)  # self loop
                break
    else:
        return False
    open(path, "wb").write(data)
    return True


def one_case(ctx, i, spec=None):
    r = rng("C08", ctx.seed, i)
    if spec is None:
        if i < 3 * len(COUNTS):
            # every listed count with every hash style
            n = COUNTS[i % len(COUNTS)]
            style = STYLES[(i // len(COUNTS)) % 3]
        else:
            c = r.random()
            n = (r.choice(COUNTS[:7]) if c < 0.5 else r.randint(4, 400) if c < 0.85 else 1000 if c < 0.97 else 5000)
            style = r.choice(STYLES)
        kind = "exe" if r.random() < 0.25 else "shared"
        flavour = r.choice(FLAVOURS)
    else:
        n, style, kind, flavour = spec
    if kind == "exe" and flavour == "versioned":
        flavour = "mixed"
    if n < 2 and flavour == "versioned":
        flavour = "random"
    case = build_case(ctx, r, i, n, style, kind, flavour)
    d = case["dir"]
    tag = f"{kind}:{style}:n={n}:{flavour}"
    files = {"list.txt": case["list"]}
    for k, o in enumerate(case["objs"]):
        files[f"in{k}.o"] = o
    if case["script"]:
        files["v.map"] = case["script"]
    # -- calibration with GNU ld
    lout = os.path.join(d, "ld.out" if kind == "exe" else "libld.so")
    lres, lcmd = do_link(ctx, "ld", case, style, kind, lout)
    if lres.timed_out:
        return ctx.inconclusive("reference link timed out")
    if not lres.ok:
        ctx.note_set("ld-reject", lres.errtext().strip()[:160])
        return ctx.inconclusive("reference linker rejected the case")
    exported = case["exported"] + case["vbases"]
    lprob, lstats = check_tables(lout, style, case["absent"], exported)
    if lprob:
        ctx.note_set("ld-disagrees", lprob[0][0])
        return ctx.inconclusive("reference output fails the table oracle: " + lprob[0][0])
    lc = consume(ctx, case, kind, lout)
    lstatus, lfails = parse_consumer(lc)
    if lstatus != "ok":
        ctx.note_set("ld-consumer", f"{lstatus}:{(lfails or [''])[0][:100]}")
        return ctx.inconclusive("reference output fails the dlsym consumer: " + lstatus)
    # -- wild
    wout = os.path.join(d, "wild.out" if kind == "exe" else "libwild.so")
    wres, wcmd = do_link(ctx, "wild", case, style, kind, wout)
    files["cmd.txt"] = f"{wcmd}\n# reference: {lcmd}\n# consumer: dlsym-driver {wout} list.txt\n"
    if wres.timed_out:
        return ctx.inconclusive("wild link timed out")
    if not wres.ok:
        txt = wres.errtext()
        ctx.note_set("wild-reject", txt.strip()[:200])
        if "panicked" in txt or wres.signal:
            files["stderr.txt"] = txt
            return ctx.violation("link-crash:" + tag.split(":n=")[0], f"wild crashed linking inputs GNU ld accepts: {txt.strip()[:300]}",
                                 case=i, files=files)
        return ctx.inconclusive("wild rejected the case (no output)")
    inj = os.environ.get("VERIF_C08_INJECT")
    if inj and not corrupt(wout, inj):
        return ctx.inconclusive("injection not applicable")
    files[os.path.basename(wout)] = wout
    prob, stats = check_tables(wout, style, case["absent"], exported)
    bad = False
    seen = set()
    for sig, desc in prob:
        if sig in seen:
            continue
        seen.add(sig)
        bad = True
        ctx.violation(f"{sig}:style={style}:kind={kind}", f"{desc} [{tag}]", case=i, files=files,
                      info={"stats": stats, "ld_stats": lstats})
    wc = consume(ctx, case, kind, wout)
    status, fails = parse_consumer(wc)
    if status == "timeout":
        ctx.inconclusive("consumer timed out")
    elif status != "ok":
        bad = True
        what = fails[0].split()[1] if status == "fails" and fails else status
        files["consumer.out"] = wc.outtext() + wc.errtext()
        versioned = any(f.split()[3] != "-" for f in fails if len(f.split()) > 3) if status == "fails" else False
        ctx.violation(f"consumer:{what}{':versioned' if versioned else ''}:style={style}:kind={kind}",
                      f"glibc dlsym/dlvsym on the wild output: {status}: {'; '.join(fails[:3])[:300]} [{tag}]",
                      case=i, files=files, info={"stats": stats})
    if bad:
        return
    for k in ("gnu_nbuckets", "sysv_nbucket", "gnu_bloom_words"):
        if k in stats:
            ctx.note_max("max_" + k, stats[k])
    ctx.note("python_lookups", stats.get("gnu_lookups", 0) + stats.get("sysv_lookups", 0))
    ctx.note("absent_lookups", stats.get("gnu_absent", 0))
    ctx.note("absent_rejected_by_bloom", stats.get("gnu_absent_bloom_rejected", 0))
    ctx.note("consumer_expectations", case["n_expect"])
    ctx.note_max("max_gnu_chain_steps", stats.get("gnu_max_steps", 0))
    ctx.note_max("max_sysv_chain_steps", stats.get("sysv_max_steps", 0))
    ctx.note_set("styles", style)
    ctx.note_set("kinds", kind)
    ctx.note_set("flavours", flavour)
    ctx.note_set("counts", n)
    ctx.held(fingerprint=f"{tag}:{stats.get('defined')}:{case['n_expect']}",
             nontrivial=stats.get("defined", 0) >= 1 and (stats.get("gnu_lookups", 0) + stats.get("sysv_lookups", 0)) >= 1,
             sample={"case": tag, "defined_dynsyms": stats.get("defined"), "consumer_expectations": case["n_expect"],
                     "gnu_nbuckets": stats.get("gnu_nbuckets"), "sysv_nbucket": stats.get("sysv_nbucket")} if i < 4 else None)


def main(ctx):
    ctx.rule = ("asm objects exporting N id-returning functions (N in 0,1,2,3,31,32,33,1000,5000 and random), names "
                "random / same-bucket / same GNU hash / same SysV hash / shared prefix / versioned duplicates, "
                "-shared or -E executable, --hash-style gnu|sysv|both; a case counts when GNU ld's output passes both "
                "oracles, wild links it, and >=1 defined dynsym was looked up; distinct = (kind, style, N, flavour, sizes)")
    ctx.assumptions = ["glibc 2.36 dlopen/dlsym/dlvsym is the consumer", "GNU ld 2.40 output calibrates the oracles",
                       "-E executables are consumed through RTLD_DEFAULT from inside the executable (PIE cannot be dlopen()ed)"]
    tools.wild()
    dyngen.dlsym_driver(ctx)
    dyngen.dlsym_driver_obj(ctx)
    n = ctx.pick(40, 800)
    cases = list(range(n))
    if ctx.replay is not None:
        cases = [int(str(ctx.replay["case"]).split(".")[0])]
    pmap(lambda i: one_case(ctx, i), cases)
