"""C01 Relocated values are correct at run time.

Two oracles. (1) relcheck (vlib/mon/relcheck.py): for generated x86-64 and AArch64 assembly
programs the psABI value of every relocation site is recomputed from the INPUT relocation tables,
wild's .layout placement and the output symbol table, and compared with the field decoded from
the output (absolute, PC-relative, PLT/branch incl. thunks, page/lo12, MOVW, TLS LE forms).
(2) Execution: proggen programs (multi-object C / C++ / asm with cross-unit calls, data
pointers, TLS in every model, ifuncs, weak/common/hidden symbols, shared library) are linked by
wild in every output kind their code model allows and their self-describing transcript must equal
the transcript of the same objects linked by GNU ld.
"""
import os

from vlib import proggen, tools
from vlib.common import pmap, rng
from vlib.mon import relcheck

LEVEL = "exploration"


# ---------------------------------------------------------------------------------------- x86 asm
def gen_x86(r, ci, nobj):
    names = [(f"g{ci}_{o}_{k}") for o in range(nobj) for k in range(3)]
    srcs = []
    for o in range(nobj):
        s = []
        loc = [f".Lloc{o}_{k}" for k in range(3)]
        # definitions
        s.append(f'.section .text.d{o},"ax",@progbits\n')
        for k in range(3):
            s.append(f".globl g{ci}_{o}_{k}\n.type g{ci}_{o}_{k},@function\ng{ci}_{o}_{k}:\n    nop\n" + "    nop\n" * r.randrange(0, 9) + "    ret\n")
            s.append(f".size g{ci}_{o}_{k}, .-g{ci}_{o}_{k}\n")
        s.append(f'.section .data.d{o},"aw",@progbits\n')
        for k in range(3):
            s.append(f"{loc[k]}:\n    .zero {r.choice([1, 3, 8, 13])}\n")
        s.append(f'.section .tdata,"awT",@progbits\n.p2align 4\n.globl tl{ci}_{o}\ntl{ci}_{o}: .quad {o}\n')
        # uses
        s.append(f'.section .text.u{o},"ax",@progbits\n')
        if o == 0:
            s.append(".globl _start\n_start:\n")
        for _ in range(r.randint(6, 25)):
            t = r.choice(names + loc)
            a = r.choice([0, 0, 1, 4, -4, 16, 0x70])
            ta = f"{t}{'+' if a >= 0 else ''}{a}"
            form = r.choice(["abs32", "abs32s", "pc32", "call", "jmp", "tpoff", "movabs"])
            if form == "abs32":
                s.append(f"    movl ${ta}, %eax\n")
            elif form == "abs32s":
                s.append(f"    movq ${ta}, %rax\n")
            elif form == "pc32":
                s.append(f"    lea {ta}(%rip), %rax\n")
            elif form == "call" and t in names:
                s.append(f"    call {t}\n")
            elif form == "jmp" and t in names:
                s.append(f"    jmp {t}\n")
            elif form == "tpoff":
                s.append(f"    movq %fs:tl{ci}_{r.randrange(nobj)}@tpoff, %rax\n")
            else:
                s.append(f"    movabs ${ta}, %rax\n")
        s.append("    mov $60,%eax\n    xor %edi,%edi\n    syscall\n")
        s.append(f'.section .data.u{o},"aw",@progbits\n')
        for _ in range(r.randint(4, 20)):
            t = r.choice(names + loc)
            a = r.choice([0, 0, 2, -8, 0x100])
            ta = f"{t}{'+' if a >= 0 else ''}{a}"
            form = r.choice(["q", "l", "pcl", "pcq", "w", "b"])   # @SIZE relocations are unsupported by wild
            if form == "q":
                s.append(f"    .quad {ta}\n")
            elif form == "l":
                s.append(f"    .long {ta}\n")
            elif form == "pcl":
                s.append(f"    .long {ta} - .\n")
            elif form == "pcq":
                s.append(f"    .quad {ta} - .\n")
            elif form == "size" and t in names:
                s.append(f"    .long {t}@SIZE\n")
            else:
                s.append(f"    .quad {ta}\n")
        srcs.append("".join(s))
    return srcs


# ------------------------------------------------------------------------------------ aarch64 asm
def gen_a64(r, ci, nobj):
    names = [(f"g{ci}_{o}_{k}") for o in range(nobj) for k in range(3)]
    dnames = [(f"v{ci}_{o}_{k}") for o in range(nobj) for k in range(2)]
    srcs = []
    for o in range(nobj):
        s = []
        s.append(f'.section .text.d{o},"ax",@progbits\n.p2align 2\n')
        for k in range(3):
            s.append(f".globl g{ci}_{o}_{k}\n.type g{ci}_{o}_{k},%function\ng{ci}_{o}_{k}:\n" + "    nop\n" * r.randrange(1, 6) + "    ret\n")
        s.append(f'.section .data.d{o},"aw",@progbits\n.p2align 4\n')
        for k in range(2):
            s.append(f".globl v{ci}_{o}_{k}\nv{ci}_{o}_{k}: .xword {k}\n    .zero {r.choice([8, 24, 40])}\n")
        s.append(f'.section .tdata,"awT",@progbits\n.p2align 4\n.globl tl{ci}_{o}\ntl{ci}_{o}: .xword {o}\n')
        s.append(f'.section .text.u{o},"ax",@progbits\n.p2align 2\n')
        if o == 0:
            s.append(".globl _start\n_start:\n")
        for _ in range(r.randint(6, 25)):
            form = r.choice(["adrp_add", "adrp_ldr", "adr", "bl", "b", "bcond", "tbz", "movw", "tlsle", "ldrlit"])
            f = r.choice(names)
            v = r.choice(dnames)
            a = r.choice([0, 0, 8, 16])
            if form == "adrp_add":
                s.append(f"    adrp x0, {v}+{a}\n    add x0, x0, :lo12:{v}+{a}\n")
            elif form == "adrp_ldr":
                w = r.choice(["ldr x1, [x0, :lo12:%s]", "ldr w1, [x0, :lo12:%s]", "ldrb w1, [x0, :lo12:%s]", "ldrh w1, [x0, :lo12:%s]", "ldr q1, [x0, :lo12:%s]"])
                aa = 0 if "q1" in w else a
                s.append(f"    adrp x0, {v}+{aa}\n    " + (w % f"{v}+{aa}") + "\n")
            elif form == "adr":
                s.append(f"    adr x2, {f}\n")
            elif form == "bl":
                s.append(f"    bl {f}\n")
            elif form == "b":
                s.append(f"    b {f}\n")
            elif form == "bcond":
                s.append(f"    b.ne {f}\n")
            elif form == "tbz":
                s.append(f"    tbz x3, #5, {f}\n")
            elif form == "movw":
                s.append(f"    movz x4, #:abs_g3:{v}\n    movk x4, #:abs_g2_nc:{v}\n    movk x4, #:abs_g1_nc:{v}\n    movk x4, #:abs_g0_nc:{v}\n")
            elif form == "tlsle":
                t = f"tl{ci}_{r.randrange(nobj)}"
                s.append(f"    mrs x5, tpidr_el0\n    add x5, x5, :tprel_hi12:{t}\n    add x5, x5, :tprel_lo12_nc:{t}\n")
            else:
                s.append(f"    ldr x6, {v}\n" if False else f"    adr x6, {v}\n")
        s.append("    mov x8, #93\n    mov x0, #0\n    svc #0\n")
        s.append(f'.section .data.u{o},"aw",@progbits\n.p2align 3\n')
        for _ in range(r.randint(4, 16)):
            t = r.choice(names + dnames)
            a = r.choice([0, 4, 0x40])
            form = r.choice(["x", "w", "pcw", "pcx"])
            if form == "x":
                s.append(f"    .xword {t}+{a}\n")
            elif form == "w":
                s.append(f"    .word {t}+{a}\n")
            elif form == "pcw":
                s.append(f"    .word {t}+{a} - .\n")
            else:
                s.append(f"    .xword {t}+{a} - .\n")
        srcs.append("".join(s))
    return srcs


def relcheck_case(ctx, ci):
    cid = f"rel{ci}"
    if ctx.replay is not None and ctx.replay.get("case") != cid:
        return
    r = rng("C01", ctx.seed, "rel", ci)
    arch = r.choice(["x86_64", "x86_64", "aarch64"])
    nobj = r.randint(2, 6)
    if arch == "x86_64":
        srcs = gen_x86(r, ci, nobj)
        objs = [tools.assemble(ctx, s, name=f"c01x-{ci}-{i}") for i, s in enumerate(srcs)]
        margs = []
    else:
        srcs = gen_a64(r, ci, nobj)
        objs = [tools.assemble(ctx, s, name=f"c01a-{ci}-{i}", target="aarch64-linux-gnu") for i, s in enumerate(srcs)]
        margs = ["-m", "aarch64linux"]
    wd = ctx.scratch.dir("rel", ci)
    out = os.path.join(wd, "out")
    extra = r.choice([[], ["--no-relax"], ["--gc-sections"], ["--no-gc-sections"], ["--threads=1"]])
    args = [*margs, *objs, "-static", *extra]
    rw = tools.link("wild", [*args, "-o", out], extra_env={"WILD_WRITE_LAYOUT": "1"}, timeout=120)
    if rw.timed_out:
        ctx.inconclusive("watchdog fired")
        return
    files = {f"in/{os.path.basename(o)}": o for o in objs}
    files["cmd.txt"] = "wild " + " ".join(args)
    if not rw.ok:
        ref = tools.link("ld" if arch == "x86_64" else "lld", [*[a for a in args], "-o", out + ".ref"], timeout=120)
        if ref.ok:
            # the property quantifies over links wild accepts; rejections are counted, not judged here
            ctx.inconclusive("wild rejected a program the reference links: " + rw.errtext().strip().splitlines()[-1][:80])
        else:
            ctx.inconclusive("generator produced a program the reference rejects too")
        return
    try:
        layout = tools.read_layout(out + ".layout")
    except Exception as ex:  # noqa
        ctx.inconclusive(f"layout file unreadable: {ex}")
        return
    V, stats = relcheck.check_link(out, layout, objs, arch)
    files["out"] = out
    for sig, msg in V[:3]:
        ctx.violation(f"{sig}:{arch}", msg, case=cid, files=files)
    if V:
        return
    ok = {k[3:]: v for k, v in stats.items() if k.startswith("ok:")}
    for k, v in stats.items():
        ctx.note(f"{arch}:{k}", v)
    nsites = sum(ok.values())
    ctx.held(fingerprint=f"{cid}:{arch}:{sorted(ok.items())}", nontrivial=nsites >= 20 and len(ok) >= 5,
             sample={"case": cid, "arch": arch, "sites_checked": nsites, "kinds": ok} if ci < 4 else None)


def exec_case(ctx, ci):
    cid = f"exec{ci}"
    if ctx.replay is not None and ctx.replay.get("case") != cid:
        return
    r = rng("C01", ctx.seed, "exec", ci)
    prog = proggen.gen_program(r)
    cm = r.choice(list(proggen.CODE_MODELS))
    kinds = list(prog.kinds(cm))
    if not kinds:
        ctx.inconclusive("no output kind for this code model")
        return
    kind = r.choice(kinds)
    try:
        objs = prog.build(ctx, cm, shared=(kind == "shared"))
    except Exception as ex:  # noqa
        ctx.inconclusive(f"generator/compile problem: {str(ex)[:80]}")
        return
    wd = ctx.scratch.dir("exec", ci)
    ref = proggen.link_and_run(ctx, "ld", prog, objs, kind, workdir=os.path.join(wd, "ld"))
    if not ref.link.ok or ref.run is None or ref.run.rc != 0 or not ref.transcript:
        ctx.inconclusive("reference link/run failed")
        return
    w = proggen.link_and_run(ctx, "wild", prog, objs, kind, workdir=os.path.join(wd, "wild"))
    if w.link.timed_out or (w.run is not None and w.run.timed_out):
        ctx.inconclusive("watchdog fired")
        return
    if not w.link.ok:
        ctx.inconclusive("wild rejected a program GNU ld links: " + w.link.errtext().strip().splitlines()[-1][:80])
        return
    if w.run is None or w.run.rc != 0:
        ctx.violation(f"program-crashes:{kind}:{cm}", f"wild-linked program exits {w.run.rc if w.run else None}; the ld-linked one runs", case=cid,
                      files={"cmd.txt": str(w.cmd), "stdout.txt": w.run.outtext() if w.run else ""})
        return
    d = proggen.diff_transcripts(ref.transcript, w.transcript)
    if d:
        k0 = d[0]
        ctx.violation(f"transcript-diff:probe={k0[0]}:{kind}:{cm}", f"{len(d)} probe lines differ from the GNU ld link, first: {k0}", case=cid,
                      files={"cmd.txt": str(w.cmd), "wild.txt": w.transcript, "ld.txt": ref.transcript})
        return
    kinds_seen = {ln.split()[0] for ln in w.transcript.splitlines() if ln.strip()}
    for k in kinds_seen:
        ctx.note("probe:" + k)
    ctx.note(f"exec-kind:{kind}")
    ctx.held(fingerprint=f"{cid}:{kind}:{cm}:{len(w.transcript)}", nontrivial=len(kinds_seen) >= 4,
             sample={"case": cid, "kind": kind, "code_model": cm, "probe_lines": len(w.transcript.splitlines()), "features": sorted(prog.features)} if ci < 3 else None)


def main(ctx):
    ctx.rule = ("relcheck cases: generated asm programs (x86-64 / AArch64), non-trivial = link accepted and >=20 relocation sites "
                "of >=5 kinds recomputed; execution cases: proggen programs, non-trivial = GNU ld's link runs and >=4 probe kinds "
                "were compared; distinct = (case, kinds histogram)")
    ctx.assumptions = ["relocation kinds relcheck does not model, and instructions rewritten by relaxations, are counted as unobserved",
                       "no AArch64 execution is possible: AArch64 is decided by static decoding only",
                       "GOT/PLT/TLS-GD/IE forms are exercised by execution (here and in C14), not by relcheck"]
    tools.wild()
    nrel = ctx.pick(60, 800)
    nexec = ctx.pick(24, 300)
    pmap(lambda i: relcheck_case(ctx, i), range(nrel), workers=8)
    pmap(lambda i: exec_case(ctx, i), range(nexec), workers=6)
