"""C33 --wrap redirects references exactly as GNU ld does.

Oracle: generated multi-file programs (objects, archive members, shared libraries built by GNU ld)
in which every definition of S / __wrap_S holds a unique tag and every file prints the tag each of
its references to S, __wrap_S, __real_S reaches. The transcript of the wild-linked program must
equal the GNU-ld-linked one; a model written from the statement (undefined S -> __wrap_S,
__real_S -> S, the defining object unaffected, shared libraries bound by the dynamic loader)
calibrates each case (model != ld => inconclusive) and names the rule that broke.
"""
import os
import re

from vlib import tools, xlink
from vlib.common import pmap, rng, sha

LEVEL = "exploration"
LIM = None


def gen(r, quick):
    nunits = r.randint(2, 5 if quick else 7)
    has_libs = r.random() < 0.6
    units = []
    for u in range(nunits):
        c = r.random()
        kind = "obj" if c < 0.5 else ("mem" if c < 0.75 else ("lib" if has_libs else "obj"))
        units.append(dict(idx=u, kind=kind, forced=r.random() < 0.6, defs={}, refs={}))
    if not any(u["kind"] == "obj" for u in units):
        units[0]["kind"] = "obj"
    exe_units = [u for u in units if u["kind"] in ("obj", "mem")]
    libs = [u for u in units if u["kind"] == "lib"]
    syms = []
    tag = [100]

    def newtag():
        tag[0] += 1
        return tag[0]
    for i in range(r.randint(1, 3)):
        s = f"w{i}"
        typ = "func" if r.random() < 0.7 else "data"
        syms.append(dict(name=s, typ=typ))
        # definition(s) of S
        c = r.random()
        definers = []
        if c < 0.9:
            d = r.choice(units)
            d["defs"][s] = dict(tag=newtag(), weak=r.random() < 0.2)
            definers.append(d)
            if r.random() < 0.2:
                others = [u for u in units if s not in u["defs"] and (u["kind"] == "lib" or d["kind"] == "lib")]
                others += [u for u in exe_units if s not in u["defs"]]
                if others:
                    o = r.choice(others)
                    # a second definition: weak when both are in the executable
                    o["defs"][s] = dict(tag=newtag(), weak=(o["kind"] != "lib" and d["kind"] != "lib") or r.random() < 0.5)
                    if o["kind"] != "lib" and d["kind"] != "lib" and d["defs"][s]["weak"] and r.random() < 0.5:
                        o["defs"][s]["weak"] = False
                    definers.append(o)
        # definition of __wrap_S
        if r.random() < 0.8:
            d = r.choice(units)
            d["defs"]["__wrap_" + s] = dict(tag=newtag(), weak=False)
        # references
        # GNU ld does not export an executable's S for a library's reference when S is wrapped (the program then
        # fails to start with either linker), so libraries only reference S when a library defines it
        solid = any(d["kind"] == "lib" for d in definers)
        for u in exe_units:
            for nm, p in ((s, 0.55), ("__wrap_" + s, 0.2), ("__real_" + s, 0.35)):
                if nm in u["defs"]:
                    continue
                if r.random() < p:
                    u["refs"][nm] = dict(weak=r.random() < 0.12)
        for u in libs:
            if s not in u["defs"] and solid and r.random() < 0.4:
                u["refs"][s] = dict(weak=False)
    # a name defined in a lazily loaded member and in another file of the executable makes the member set
    # order-sensitive (C03's subject, and ld/lld differ there): load such members unconditionally
    for u in units:
        if u["kind"] == "mem" and not u["forced"] and any(nm in o["defs"] for nm in u["defs"] for o in exe_units if o is not u):
            u["forced"] = True
    kind = r.choice(["nopie", "pie"]) if libs else r.choice(["nopie", "pie", "static"])
    order = [u["idx"] for u in units if u["kind"] != "mem"] + ["M"]
    r.shuffle(order)
    return dict(units=units, syms=syms, kind=kind, order=order, thin=r.random() < 0.3,
                wrapopt=r.choice(["-Wl,--wrap={}", "-Wl,--wrap,{}", "-Wl,-wrap={}"]), repeat_wrap=r.random() < 0.2)


def unit_src(case, u):
    typ = {}
    for s in case["syms"]:
        for p in ("", "__wrap_", "__real_"):
            typ[p + s["name"]] = s["typ"]
    t = "#include <stdio.h>\n"
    lines = []
    for nm, d in sorted(u["defs"].items()):
        w = "__attribute__((weak)) " if d["weak"] else ""
        if typ[nm] == "func":
            t += f"{w}int {nm}(void) {{ return {d['tag']}; }}\n"
            lines.append(f'  printf("u{u["idx"]}:{nm}=%d\\n", {nm}());\n')
        else:
            t += f"{w}int {nm} = {d['tag']};\n"
            lines.append(f'  printf("u{u["idx"]}:{nm}=%d\\n", {nm});\n')
    for nm, d in sorted(u["refs"].items()):
        w = " __attribute__((weak))" if d["weak"] else ""
        if typ[nm] == "func":
            t += f"extern int {nm}(void){w};\n"
            e = f"({nm} ? {nm}() : 0)" if d["weak"] else f"{nm}()"
        else:
            t += f"extern int {nm}{w};\n"
            e = f"(&{nm} ? {nm} : 0)" if d["weak"] else nm
        lines.append(f'  printf("u{u["idx"]}:{nm}=%d\\n", {e});\n')
    t += f"void view_u{u['idx']}(void) {{\n" + "".join(lines) + "}\n"
    return t


def model(case, loaded):
    """Expected transcript lines {label: tag or 0}, or ('reject', reason). `loaded` = set of unit
    indexes taking part in the executable link (objects + members the reference linker loaded)."""
    units = case["units"]
    cmd_pos = {}
    pos = 0
    for tok in case["order"]:
        if tok != "M":
            cmd_pos[tok] = pos
            pos += 1
    for u in units:   # archive comes last, members in index order
        if u["kind"] == "mem":
            cmd_pos[u["idx"]] = pos
            pos += 1
    exe = sorted([u for u in units if u["kind"] in ("obj", "mem") and u["idx"] in loaded], key=lambda u: cmd_pos[u["idx"]])
    libs = sorted([u for u in units if u["kind"] == "lib"], key=lambda u: cmd_pos[u["idx"]])
    wrapped = {s["name"] for s in case["syms"]}

    def exe_def(nm):
        strong = [u for u in exe if nm in u["defs"] and not u["defs"][nm]["weak"]]
        if len(strong) > 1:
            return "dup"
        if strong:
            return strong[0]["defs"][nm]["tag"]
        weak = [u for u in exe if nm in u["defs"]]
        return weak[0]["defs"][nm]["tag"] if weak else None

    def resolve(nm):
        t = exe_def(nm)
        if t is not None:
            return t
        for l in libs:
            if nm in l["defs"]:
                return l["defs"][nm]["tag"]
        return None
    out = {}
    for u in exe:
        for nm in list(u["defs"]) + list(u["refs"]):
            label = f"u{u['idx']}:{nm}"
            if nm in u["defs"]:
                t = resolve(nm)
            elif nm in wrapped:
                t = resolve("__wrap_" + nm)
            elif nm.startswith("__real_") and nm[7:] in wrapped:
                t = resolve(nm[7:])
            else:
                t = resolve(nm)
            if t == "dup":
                return ("reject", "duplicate")
            if t is None:
                if nm in u["refs"] and u["refs"][nm]["weak"]:
                    t = 0
                else:
                    return ("reject", "undefined")
            out[label] = t
    for l in libs:
        for nm in list(l["defs"]) + list(l["refs"]):
            # dynamic loader: executable first, then libraries in DT_NEEDED order; a wrapped S defined in the
            # executable is not exported for library references (GNU ld behaviour)
            t = resolve(nm)
            if nm in wrapped and not any(nm in x["defs"] for x in libs):
                t = None
            if t is None or t == "dup":
                return ("reject", "undefined-in-lib")
            out[f"u{l['idx']}:{nm}"] = t
    return out


def name_class(nm):
    return "__wrap_S" if nm.startswith("__wrap_") else ("__real_S" if nm.startswith("__real_") else "S")


def describe_tag(case, t):
    if t == 0:
        return "null"
    for u in case["units"]:
        for nm, d in u["defs"].items():
            if d["tag"] == t:
                return f"{name_class(nm)}@{u['kind']}{'(weak)' if d['weak'] else ''}"
    return "garbage"


def where_defined(case, nm, loaded):
    ks = sorted({u["kind"] for u in case["units"] if nm in u["defs"] and (u["kind"] != "mem" or u["idx"] in loaded)})
    return "+".join(ks) if ks else "none"


def build(ctx, case, d, rec):
    kind = case["kind"]
    exe_flags = ("-O0", "-fPIE") if kind == "pie" else ("-O0", "-fno-pic")
    objs = {}
    libpaths = {}
    for u in case["units"]:
        if u["kind"] == "lib":
            o = rec.obj(f"u{u['idx']}", unit_src(case, u), ("-O0", "-fPIC"))
            so = rec.name(os.path.join(d, f"libu{u['idx']}.so"), f"libu{u['idx']}.so")
            res = rec.link("ld", ["-shared", o, "-Wl,-soname," + os.path.basename(so)], so)
            if not res.ok:
                return None
            libpaths[u["idx"]] = so
        else:
            objs[u["idx"]] = rec.obj(f"u{u['idx']}", unit_src(case, u), exe_flags)
    calls = ""
    decls = ""
    for u in case["units"]:
        if u["kind"] == "mem" and not u["forced"]:
            continue
        decls += f"void view_u{u['idx']}(void);\n"
        calls += f"  view_u{u['idx']}();\n"
    mainobj = rec.obj("main", "#include <stdio.h>\n" + decls + "int main(void) {\n" + calls + '  printf("end\\n");\n  return 0;\n}\n', exe_flags)
    members = [u for u in case["units"] if u["kind"] == "mem"]
    args = {"pie": ["-pie"], "nopie": ["-no-pie"], "static": ["-static"]}[kind]
    args += ["-Wl,--no-as-needed", "-Wl,--no-gc-sections"]
    for s in case["syms"]:
        args += case["wrapopt"].format(s["name"]).split(" ")
    if case.get("repeat_wrap") and case["syms"]:
        # build systems concatenate flag lists: the same --wrap given twice must mean the same as once
        args += case["wrapopt"].format(case["syms"][0]["name"]).split(" ")
    for tok in case["order"]:
        if tok == "M":
            args.append(mainobj)
        elif tok in objs:
            args.append(objs[tok])
        else:
            args.append(libpaths[tok])
    member_of = {}
    if members:
        ar = rec.archive("libw.a", [objs[u["idx"]] for u in members], thin=case["thin"])
        args.append(ar)
        for u in members:
            member_of[os.path.basename(objs[u["idx"]])] = u["idx"]
    return args, member_of


def parse_transcript(text):
    out = {}
    for line in text.splitlines():
        m = re.match(r"^(u\d+:\w+)=(-?\d+)$", line)
        if m:
            out[m.group(1)] = int(m.group(2))
    return out, text.rstrip().endswith("end")


def ld_reason(err):
    if re.search(r"undefined reference to `__wrap_", err):
        return "undefined-__wrap_S"
    if re.search(r"undefined reference to `__real_", err):
        return "undefined-__real_S"
    if "undefined reference" in err:
        return "undefined-S"
    if "multiple definition" in err:
        return "duplicate"
    return "other"


def relocatable_case(ctx, ci, r, forced=None):
    """--wrap applied by a partial link (-r) of a subset of the objects; the final link (GNU ld, no
    --wrap) and the run show which definitions the renamed references reach. Differential only."""
    case = forced or gen(r, True)
    for u in case["units"]:
        u["kind"], u["forced"] = "obj", True
    if not forced:
        for n, sy in enumerate(case["syms"]):   # keep the final link resolvable: S and __wrap_S both exist
            for k, nm in enumerate((sy["name"], "__wrap_" + sy["name"])):
                if not any(nm in u["defs"] for u in case["units"]):
                    u = r.choice(case["units"])
                    u["defs"][nm] = dict(tag=900 + 2 * n + k, weak=False)
                    u["refs"].pop(nm, None)
    case["kind"] = "nopie"
    d = ctx.scratch.dir("rcase", ci)
    rec = xlink.Recipe(ctx, d)
    objs = {u["idx"]: rec.obj(f"u{u['idx']}", unit_src(case, u), ("-O0", "-fno-pic")) for u in case["units"]}
    decls = "".join(f"void view_u{u['idx']}(void);\n" for u in case["units"])
    calls = "".join(f"  view_u{u['idx']}();\n" for u in case["units"])
    mainobj = rec.obj("main", "#include <stdio.h>\n" + decls + "int main(void) {\n" + calls + '  printf("end\\n");\n  return 0;\n}\n', ("-O0", "-fno-pic"))
    # units referencing __real_S must be inside the partial link (the final link has no --wrap)
    inside = forced["inside"] if forced else [u["idx"] for u in case["units"] if r.random() < 0.6
                                              or any(nm.startswith("__real_") for nm in u["refs"])] or [case["units"][0]["idx"]]
    outside = [u["idx"] for u in case["units"] if u["idx"] not in inside]
    wraps = ["--wrap=" + s["name"] for s in case["syms"]]
    res = {}
    for kind in ("ld", "wild"):
        ro = rec.name(os.path.join(d, f"r.{kind}.o"), f"r.{kind}.o")
        tools.fresh(ro)
        a = ["-r", *wraps, *[objs[i] for i in inside], "-o", ro]
        lr = tools.link(kind, a)
        rec.step(("ld.bfd " if kind == "ld" else "$B_WILD/ld ") + " ".join(rec.sub(a)) + ("" if lr.ok else f"   # failed rc={lr.rc}"))
        if not lr.ok or not os.path.exists(ro):
            res[kind] = ("r-fails", lr.errtext().strip()[:300])
            continue
        exe = os.path.join(d, f"{kind}.out")
        fl = rec.link("ld", ["-no-pie", mainobj, ro, *[objs[i] for i in outside]], exe)
        if not xlink.linked_ok(fl, exe):
            res[kind] = ("final-fails:" + ld_reason(fl.errtext()), fl.errtext().strip()[:300])
            continue
        rr = xlink.runprog(exe)
        rec.step(f"./{kind}.out")
        t, end = parse_transcript(rr.outtext())
        res[kind] = ("ran", t) if end and rr.rc == 0 and not rr.timed_out else ("run-fails", rr.errtext()[:200])
    ctx.note("relocatable-cases")
    if res["ld"][0] != "ran":
        ctx.inconclusive("relocatable: GNU ld -r --wrap result does not link or run")
        return
    fp = "r:" + sha(repr((inside, [(sorted(u["defs"]), sorted(u["refs"])) for u in case["units"]])))[:16]
    if res["wild"] == res["ld"]:
        ctx.held(fingerprint=fp, nontrivial=len(inside) >= 1 and any(u["refs"] for u in case["units"] if u["idx"] in inside))
        return
    if res["wild"][0] != "ran":
        LIM.violation(f"relocatable:{res['wild'][0]}", f"wild -r --wrap output {res['wild'][0]} where GNU ld's -r output links and runs: "
                      f"{res['wild'][1]}", case=ci, files=rec.files())
        return
    tl, tw = res["ld"][1], res["wild"][1]
    sigs = {}
    for label in sorted(set(tl) | set(tw)):
        if tl.get(label) != tw.get(label):
            uidx = int(label[1:label.index(":")])
            nm = label.split(":")[1]
            u = case["units"][uidx]
            role = "definer" if nm in u["defs"] else ("weak-ref" if u["refs"][nm]["weak"] else "ref")
            where = "inside" if uidx in inside else "outside"
            sigs.setdefault(f"relocatable:bind:{name_class(nm)}:{where}-r:ld={describe_tag(case, tl.get(label, 0)).split('@')[0]}:"
                            f"wild={describe_tag(case, tw.get(label, 0)).split('@')[0]}", label)
    for sig, label in sigs.items():
        LIM.violation(sig, f"{label}: after ld -r --wrap + final link prints {tl.get(label)}, after wild -r --wrap prints {tw.get(label)}",
                      case=ci, files=rec.files(), info={"inside": inside})


def pinned_cases():
    def unit(i, defs=None, refs=None, kind="obj"):
        return dict(idx=i, kind=kind, forced=True, defs=defs or {}, refs=refs or {})
    base = dict(kind="nopie", thin=False, wrapopt="-Wl,--wrap={}")
    return [
        # no __wrap_S anywhere: GNU ld still redirects S -> __wrap_S (undefined => error)
        dict(base, syms=[dict(name="w0", typ="func")], order=[0, 1, "M"], units=[
            unit(0, defs={"w0": dict(tag=101, weak=False)}), unit(1, refs={"w0": dict(weak=False)})]),
        # ... and a weak reference becomes null
        dict(base, syms=[dict(name="w0", typ="data")], order=[0, 1, "M"], units=[
            unit(0, defs={"w0": dict(tag=101, weak=False)}), unit(1, refs={"w0": dict(weak=True)})]),
        # -r: __real_S must be renamed to S even when S is not defined inside the partial link
        dict(base, rmode=True, inside=[1], syms=[dict(name="w0", typ="func")], order=[0, 1, "M"], units=[
            unit(0, defs={"w0": dict(tag=101, weak=False)}),
            unit(1, defs={"__wrap_w0": dict(tag=102, weak=False)}, refs={"w0": dict(weak=False), "__real_w0": dict(weak=False)})]),
        # control: plain wrapper + __real_
        dict(base, syms=[dict(name="w0", typ="func")], order=[0, 1, "M"], units=[
            unit(0, defs={"w0": dict(tag=101, weak=False)}, refs={"__wrap_w0": dict(weak=False)}),
            unit(1, defs={"__wrap_w0": dict(tag=102, weak=False)}, refs={"w0": dict(weak=False), "__real_w0": dict(weak=False)})]),
    ]


def one_case(ctx, ci, forced=None):
    r = rng("C33", ctx.seed, ci)
    if (forced and forced.get("rmode")) or (not forced and r.random() < 0.15):
        return relocatable_case(ctx, ci, r, forced)
    case = forced or gen(r, ctx.quick)
    d = ctx.scratch.dir("case", ci)
    rec = xlink.Recipe(ctx, d)
    b = build(ctx, case, d, rec)
    if b is None:
        ctx.inconclusive("GNU ld could not build an input shared library")
        return
    args, member_of = b
    libdirs = [d]
    outl = os.path.join(d, "ld.out")
    outw = os.path.join(d, "wild.out")
    mapf = os.path.join(d, "ld.map")
    rl = rec.link("ld", args + ["-Wl,-Map=" + mapf], outl)
    wargs = [a for a in args if "wrap" not in a] if os.environ.get("VERIF_SELFTEST") == "nowrap" else args
    rw = rec.link("wild", wargs, outw)
    rec.step("LD_LIBRARY_PATH=. ./ld.out; LD_LIBRARY_PATH=. ./wild.out")
    fp = sha(repr((case["kind"], case["order"], [(u["kind"], u["forced"], sorted(u["defs"]), sorted(u["refs"])) for u in case["units"]])))[:16]
    for u in case["units"]:
        for nm in u["refs"]:
            ctx.note(f"ref:{name_class(nm)}:from={u['kind']}")
        for nm in u["defs"]:
            ctx.note(f"def:{name_class(nm)}:in={u['kind']}")
    if rl.timed_out or rw.timed_out:
        ctx.inconclusive("link watchdog")
        return
    if not xlink.linked_ok(rl, outl):
        reason = ld_reason(rl.errtext())
        loaded = {u["idx"] for u in case["units"] if u["kind"] != "lib"}
        if reason == "other":
            ctx.inconclusive("GNU ld rejected the program for an unclassified reason")
            return
        ctx.note("ld-rejects:" + reason)
        if xlink.linked_ok(rw, outw):
            # what does the accepted program do?
            rr = xlink.runprog(outw, libdirs=libdirs)
            wd = "+".join(sorted({u["kind"] for u in case["units"] for nm in u["defs"] if nm.startswith("__wrap_")
                                  and reason == "undefined-__wrap_S" and re.search("`" + nm + "'", rl.errtext())})) or "none"
            LIM.violation(f"accept:ld-rejects({reason}):wrap-def={wd}:wild-links", f"GNU ld rejects the link ({rl.errtext().strip().splitlines()[0][:160]}) "
                          f"but wild links it; the program prints: {rr.outtext()[:300]!r}", case=ci, files=rec.files(),
                          info={"ld_stderr": rl.errtext()[:1000]})
        else:
            ctx.held(fingerprint="rej:" + fp, nontrivial=False)
        return
    # members loaded by GNU ld
    loaded = {u["idx"] for u in case["units"] if u["kind"] == "obj"}
    maptext = open(mapf, errors="replace").read() if os.path.exists(mapf) else ""
    for bn, ui in member_of.items():    # "libw.a(<member>)", or the member's own path for thin archives
        if bn in maptext:
            loaded.add(ui)
    exp = model(case, loaded)
    run_l = xlink.runprog(outl, libdirs=libdirs)
    if run_l.timed_out:
        ctx.inconclusive("run watchdog")
        return
    tl, endl = parse_transcript(run_l.outtext())
    if isinstance(exp, tuple):
        ctx.inconclusive("model predicts rejection but GNU ld links")
        if os.environ.get("C33_DEBUG"):
            print("DBG reject", ci, exp, loaded, case["order"], [(u["idx"], u["kind"], u["forced"], u["defs"], u["refs"]) for u in case["units"]], run_l.outtext(), file=__import__("sys").stderr)
        return
    # lines of members whose view is not called do not appear
    called = {u["idx"] for u in case["units"] if u["kind"] != "mem" or u["forced"]}
    exp_lines = {k: v for k, v in exp.items() if int(k[1:k.index(":")]) in called}
    if not endl or run_l.rc != 0 or tl != exp_lines:
        ctx.inconclusive("model disagrees with the GNU ld program")
        ctx.note("model-vs-ld-disagreement")
        if os.environ.get("C33_DEBUG"):
            print("DBG differ", ci, {k: (exp_lines.get(k), tl.get(k)) for k in set(exp_lines) | set(tl) if exp_lines.get(k) != tl.get(k)}, loaded, case["order"], [(u["idx"], u["kind"], u["forced"], u["defs"], u["refs"]) for u in case["units"]], file=__import__("sys").stderr)
        return
    if not xlink.linked_ok(rw, outw):
        err = rw.errtext().strip()
        LIM.violation("reject:ld-links:wild-rejects:" + ld_reason(err.replace("undefined symbol", "undefined reference to `").replace("`: ", "`")),
                      f"wild rejects a --wrap link GNU ld accepts: {err[:300]}", case=ci, files=rec.files())
        return
    run_w = xlink.runprog(outw, libdirs=libdirs)
    if run_w.timed_out:
        ctx.inconclusive("run watchdog")
        return
    tw, endw = parse_transcript(run_w.outtext())
    if tw == tl and endw and run_w.rc == 0:
        nref = sum(1 for u in case["units"] for nm in u["refs"])
        redirected = sum(1 for u in case["units"] if u["kind"] != "lib" for nm in u["refs"] if name_class(nm) in ("S", "__real_S"))
        ctx.held(fingerprint=fp, nontrivial=redirected >= 1 and nref >= 2,
                 sample={"kind": case["kind"], "transcript": run_l.outtext()[:300]} if ci in (0, 1, 2, 3) else None)
        return
    sigs = {}
    for label in sorted(set(tl) | set(tw)):
        if tl.get(label) == tw.get(label):
            continue
        uidx = int(label[1:label.index(":")])
        nm = label.split(":")[1]
        u = case["units"][uidx]
        base = nm[7:] if nm.startswith(("__wrap_", "__real_")) else nm
        typ = next(s["typ"] for s in case["syms"] if s["name"] == base)
        role = "definer" if nm in u["defs"] else ("weak-ref" if u["refs"][nm]["weak"] else "ref")
        got = describe_tag(case, tw[label]) if label in tw else "no-line"
        sig = (f"bind:{role}:{name_class(nm)}:in={u['kind']}:S-def={where_defined(case, base, loaded)}:"
               f"wrap-def={where_defined(case, '__wrap_' + base, loaded)}:{typ}:ld={describe_tag(case, tl[label]) if label in tl else 'no-line'}:wild={got}")
        if where_defined(case, "__wrap_" + base, loaded) == "none" and name_class(nm) == "S" and role != "definer":
            sig = (f"bind:{role}:S:no-definition-of-__wrap_S:ld={describe_tag(case, tl[label]).split('@')[0] if label in tl else 'no-line'}:"
                   f"wild={got.split('@')[0]}")
        sigs.setdefault(sig, label)
    if not sigs:
        sigs["run:exit-or-end-marker-differs"] = "-"
    for sig, label in sigs.items():
        LIM.violation(sig, f"{label}: GNU ld program prints {tl.get(label)}, wild program prints {tw.get(label)} "
                      f"(rc ld={run_l.rc} wild={run_w.rc})", case=ci, files=rec.files(),
                      info={"ld": run_l.outtext(), "wild": run_w.outtext(), "wild_stderr": run_w.errtext()[:300]})


def main(ctx):
    global LIM
    LIM = xlink.SigLimiter(ctx, 2)
    ctx.rule = ("random programs of 2-7 files (objects, lazily or forcibly loaded archive members, shared libraries) "
                "with 1-3 wrapped names (functions and data; strong/weak/second definitions; wrapper present or absent; "
                "weak references); a case counts when GNU ld links it, its transcript equals the model's, and at least one "
                "reference to S or __real_S from outside the defining object is redirected")
    ctx.assumptions = ["GNU ld 2.40 is the arbiter; the model only calibrates and names the rule",
                       "archives follow all objects on the command line (ld is order-sensitive there; that is C03's subject)"]
    tools.wild()
    n = ctx.pick(100, 500)
    jobs = [f"pinned{i}" for i in range(len(pinned_cases()))] + list(range(n))
    if ctx.replay is not None:
        c = str(ctx.replay["case"])
        jobs = [c if c.startswith("pinned") else int(c)]

    def go(j):
        if isinstance(j, str):
            one_case(ctx, j, forced=pinned_cases()[int(j[6:])])
        else:
            one_case(ctx, j)
    pmap(go, jobs, workers=12)
