"""C16 Linker-script expressions evaluate as in GNU ld.

Oracle: a big-int model of the statement computes V for a random expression E; GNU ld must accept
ASSERT((E) == V) (calibration: otherwise the case is inconclusive); then wild must accept it too,
and must reject ASSERT((E) == V+1). A failing expression is minimised to the smallest sub-tree
that wild mis-evaluates, which gives the narrow signature used for known-finding matching.
"""
import os

from vlib import tools
from vlib.common import pmap, rng, write

LEVEL = "exploration"
M = (1 << 64) - 1

BIN = ["*", "/", "+", "-", "<<", ">>", "&", "|", "==", "!=", "<", "<=", ">", ">=", "&&", "||"]
# C / GNU ld precedence (higher binds tighter)
PREC = {"||": 1, "&&": 2, "|": 3, "&": 5, "==": 6, "!=": 6, "<": 7, "<=": 7, ">": 7, ">=": 7,
        "<<": 8, ">>": 8, "+": 9, "-": 9, "*": 10, "/": 10}
SPECIAL = [0, 1, 2, 3, 7, 8, 63, 64, 65, 127, 255, 1 << 31, (1 << 32) - 1, 1 << 32, (1 << 63) - 1, 1 << 63,
           M, M - 1, M - 7]


def signed(v):
    return v - (1 << 64) if v >> 63 else v


def ev(t):
    """Model evaluation per the statement. Returns None when the statement leaves it open
    (division by zero)."""
    k = t[0]
    if k == "n":
        return t[1] & M
    if k == "p":
        return ev(t[1])
    if k == "u":
        v = ev(t[2])
        if v is None:
            return None
        return {"-": (-v) & M, "~": (~v) & M, "!": int(v == 0)}[t[1]]
    if k == "f":
        a, b = ev(t[2]), ev(t[3])
        if a is None or b is None:
            return None
        return min(a, b) if t[1] == "MIN" else max(a, b)
    a, b = ev(t[2]), ev(t[3])
    if a is None or b is None:
        return None
    op = t[1]
    if op == "+":
        return (a + b) & M
    if op == "-":
        return (a - b) & M
    if op == "*":
        return (a * b) & M
    if op == "/":
        if b == 0:
            return None
        sa, sb = signed(a), signed(b)
        q = abs(sa) // abs(sb)
        if (sa < 0) != (sb < 0):
            q = -q
        return q & M
    if op == "<<":
        return (a << (b % 64)) & M
    if op == ">>":
        return a >> (b % 64)
    if op == "&":
        return a & b
    if op == "|":
        return a | b
    if op == "==":
        return int(a == b)
    if op == "!=":
        return int(a != b)
    if op == "<":
        return int(a < b)
    if op == "<=":
        return int(a <= b)
    if op == ">":
        return int(a > b)
    if op == ">=":
        return int(a >= b)
    if op == "&&":
        return int(a != 0 and b != 0)
    if op == "||":
        return int(a != 0 or b != 0)
    raise AssertionError(op)


def lit(r, v):
    v &= M
    c = r.random()
    if c < 0.15 and v % 1024 == 0 and v:
        return f"{v // 1024}K" if r.random() < 0.5 else f"0x{v // 1024:x}K"
    if c < 0.2 and v % (1 << 20) == 0 and v:
        return f"{v >> 20}M"
    return f"0x{v:x}" if r.random() < 0.6 else str(v)


def gen(r, depth):
    if depth <= 0 or r.random() < 0.15:
        v = r.choice(SPECIAL) if r.random() < 0.6 else r.getrandbits(r.choice([4, 8, 16, 32, 64]))
        return ("n", v, lit(r, v))
    c = r.random()
    if c < 0.18:
        return ("u", r.choice("-~!"), gen(r, depth - 1))
    if c < 0.24:
        return ("f", r.choice(["MIN", "MAX"]), gen(r, depth - 1), gen(r, depth - 1))
    op = r.choice(BIN)
    return ("b", op, gen(r, depth - 1), gen(r, depth - 1))


def show(t, r, minimal_parens=True):
    """Renders with only the parentheses C precedence requires (so precedence is exercised),
    or fully parenthesised."""
    k = t[0]
    if k == "n":
        return t[2]
    if k == "p":
        return f"({show(t[1], r, minimal_parens)})"
    if k == "u":
        inner = show(t[2], r, minimal_parens)
        if t[2][0] == "b" or not minimal_parens:
            inner = f"({inner})"
        elif t[2][0] == "u" and t[2][1] == t[1] == "-":
            inner = f"({inner})"
        return f"{t[1]}{inner}"
    if k == "f":
        return f"{t[1]}({show(t[2], r, minimal_parens)}, {show(t[3], r, minimal_parens)})"
    op = t[1]
    p = PREC[op]

    def side(x, right):
        s = show(x, r, minimal_parens)
        if x[0] == "b":
            q = PREC[x[1]]
            need = q < p or (q == p and right) or not minimal_parens
            # chains of comparison operators are kept explicit: a<b<c is legal C but obscure
            if q == p and p in (6, 7):
                need = True
            if need:
                return f"({s})"
        return s
    return f"{side(t[2], False)} {op} {side(t[3], True)}"


def link_script(ctx, kind, obj, script_text, tag):
    d = ctx.scratch.dir("w", tag)
    sp = write(os.path.join(d, "a.lds"), script_text)
    out = tools.fresh(os.path.join(d, "out"))
    return tools.link(kind, [obj, sp, "-o", out], timeout=60)


def failing_ids(res):
    """Assertion ids (E<n>) named in the linker's error output."""
    import re
    return set(int(m) for m in re.findall(r"\bE(\d+)\b", res.text()))


def wild_eval_ok(ctx, obj, expr_text, value, tag):
    r = link_script(ctx, "wild", obj, f'ASSERT(({expr_text}) == 0x{value:x}, "E0")\n', tag)
    return r


def minimise(ctx, obj, t, r, tag):
    """Returns the smallest sub-tree wild mis-evaluates (children all fine)."""
    def bad(x, n=[0]):
        v = ev(x)
        if v is None:
            return False
        n[0] += 1
        res = wild_eval_ok(ctx, obj, show(x, r), v, f"{tag}-m{n[0]}")
        return not res.ok
    cur = t
    while True:
        kids = [c for c in cur[2:] if isinstance(c, tuple)]
        nxt = None
        for c in kids:
            if bad(c):
                nxt = c
                break
        if nxt is None:
            return cur
        cur = nxt


def cls(v):
    if v == 0:
        return "0"
    if v >> 63:
        return "neg"
    return "pos"


OPCLASS = {"*": "mul", "/": "div", "+": "add", "-": "add", "<<": "shift", ">>": "shift", "&": "bitand",
           "|": "bitor", "==": "eq", "!=": "eq", "<": "rel", "<=": "rel", ">": "rel", ">=": "rel",
           "&&": "land", "||": "lor"}


def node_class(t):
    if t[0] == "n":
        return "num"
    if t[0] == "u":
        return "unary" + t[1]
    if t[0] == "f":
        return "func"
    return OPCLASS[t[1]]


def unparen_children(t):
    """(position, child) for binary children that are rendered without parentheses."""
    p = PREC[t[1]]
    out = []
    for pos, right, c in ((2, False, t[2]), (3, True, t[3])):
        if c[0] == "b":
            q = PREC[c[1]]
            parens = q < p or (q == p and right) or (q == p and p in (6, 7))
            if not parens:
                out.append((pos, c))
    return out


def signature(t, errtext="", probe=None):
    """Class of the smallest mis-evaluated sub-tree: how it failed (parse/eval), the operator class
    of the node, and the classes of those unparenthesised children whose explicit parenthesisation
    makes wild agree (found by re-testing through `probe`). Finite and exact, so a different
    failure gets a different signature."""
    how = "parse-error" if "parse" in errtext.lower() else "wrong-value"
    k = t[0]
    if k == "n":
        return f"{how}:literal"
    if k == "u":
        return f"{how}:unary{t[1]}({node_class(t[2])}:{cls(ev(t[2]))})"
    if k == "f":
        return f"{how}:func:{t[1]}"
    op = t[1]
    a, b = ev(t[2]), ev(t[3])
    extra = ""
    if op in ("<<", ">>"):
        extra = ":count>=64" if b >= 64 else ""
    elif op == "/":
        extra = f":{cls(a)}/{cls(b)}"
    # Known grammar defect class: a comparison that is the unparenthesised operand of | & == !=.
    # If parenthesising every such operand in the sub-tree makes wild agree, the failure is
    # explained by exactly that construct.
    if probe is not None:
        t2, n = wrap_comparisons(t)
        if n and probe(t2):
            return f"{how}:comparison-operand-of-bitwise-or-equality-unparenthesised"
    return f"{how}:{OPCLASS[op]}{extra}"


def wrap_comparisons(t):
    """Returns (tree, count) with parentheses forced around every comparison node that is rendered
    as an unparenthesised operand of a bitor/bitand/eq node."""
    if t[0] == "n":
        return t, 0
    if t[0] == "p":
        x, n = wrap_comparisons(t[1])
        return ("p", x), n
    if t[0] == "u":
        x, n = wrap_comparisons(t[2])
        return (t[0], t[1], x), n
    if t[0] == "f":
        a, n1 = wrap_comparisons(t[2])
        b, n2 = wrap_comparisons(t[3])
        return (t[0], t[1], a, b), n1 + n2
    a, n1 = wrap_comparisons(t[2])
    b, n2 = wrap_comparisons(t[3])
    n = n1 + n2
    if OPCLASS[t[1]] in ("bitor", "bitand", "eq"):
        unp = {pos for pos, _ in unparen_children(t)}
        if 2 in unp and OPCLASS[t[2][1]] in ("eq", "rel"):
            a = ("p", a)
            n += 1
        if 3 in unp and OPCLASS[t[3][1]] in ("eq", "rel"):
            b = ("p", b)
            n += 1
    return (t[0], t[1], a, b), n


def run_batch(ctx, obj, bi, per):
    r = rng("C16", ctx.seed, bi)
    exprs = []
    for i in range(per):
        t = gen(r, r.randint(1, 7 if not ctx.quick else 6))
        v = ev(t)
        if v is None:
            ctx.inconclusive("division by zero (statement silent)")
            continue
        exprs.append((i, t, v, show(t, r, minimal_parens=r.random() < 0.8)))
    if not exprs:
        return
    # calibration with GNU ld
    live = dict((i, (t, v, s)) for i, t, v, s in exprs)
    for _ in range(len(exprs) + 1):
        script = "".join(f'ASSERT(({s}) == 0x{v:x}, "E{i}")\n' for i, (t, v, s) in sorted(live.items()))
        res = link_script(ctx, "ld", obj, script, f"b{bi}-ld")
        if res.ok:
            break
        ids = failing_ids(res) & set(live)
        if not ids:
            # syntax the reference rejects: drop the whole batch
            for _i in live:
                ctx.inconclusive("reference linker rejected script")
            return
        for i in ids:
            ctx.inconclusive("reference linker disagrees with model")
            del live[i]
    else:
        return
    # wild: positive form
    pending = dict(live)
    for _ in range(len(live) + 1):
        if not pending:
            break
        script = "".join(f'ASSERT(({s}) == 0x{v:x}, "E{i}")\n' for i, (t, v, s) in sorted(pending.items()))
        res = link_script(ctx, "wild", obj, script, f"b{bi}-w")
        if res.ok:
            break
        ids = failing_ids(res) & set(pending)
        if not ids:
            # cannot attribute: test each alone
            ids = set()
            for i, (t, v, s) in sorted(pending.items()):
                r1 = wild_eval_ok(ctx, obj, s, v, f"b{bi}-s{i}")
                if not r1.ok:
                    ids.add(i)
            if not ids:
                ctx.inconclusive("wild failed on batch but on no single expression")
                return
        for i in ids:
            t, v, s = pending.pop(i)
            live.pop(i, None)
            small = minimise(ctx, obj, t, r, f"b{bi}-e{i}")
            ssmall = show(small, r)
            r2 = wild_eval_ok(ctx, obj, ssmall, ev(small), f"b{bi}-v{i}")
            sig = signature(small, r2.text(), probe=lambda x, _n=[0]: wild_eval_ok(
                ctx, obj, show(x, r), ev(x), f"b{bi}-q{i}-{_n.__setitem__(0, _n[0] + 1) or _n[0]}").ok)
            if "anic" in r2.text():
                sig = "panic:" + sig
            ctx.violation(sig, f"wild rejects ASSERT(({ssmall}) == 0x{ev(small):x}) which GNU ld accepts "
                          f"(found inside ({s})): {r2.errtext().strip()[:200]}",
                          case=f"{bi}.{i}", files={"a.lds": f'ASSERT(({ssmall}) == 0x{ev(small):x}, "E0")\n', "s.o": obj},
                          info={"expr": s, "minimal": ssmall, "expected": hex(ev(small))})
    # wild: negative form (must fail, naming the id). One link per expression is needed because the
    # first failing ASSERT ends the link; sample a few per batch.
    sample = sorted(live.items())
    r.shuffle(sample)
    for i, (t, v, s) in sample[: (3 if ctx.quick else 6)]:
        res = link_script(ctx, "wild", obj, f'ASSERT(({s}) == 0x{(v + 1) & M:x}, "E{i}")\n', f"b{bi}-n{i}")
        if res.ok:
            ctx.violation("assert-zero-passes", f"ASSERT(({s}) == 0x{(v + 1) & M:x}) evaluates to zero but the link succeeded",
                          case=f"{bi}.{i}n", files={"a.lds": f'ASSERT(({s}) == 0x{(v + 1) & M:x}, "E{i}")\n', "s.o": obj})
        elif i not in failing_ids(res):
            ctx.inconclusive("negative assert failed without naming the assertion")
        live_i = True
    for i, (t, v, s) in live.items():
        ops = sorted(set(_ops(t)))
        ctx.held(fingerprint=s, nontrivial=len(ops) >= 1, sample={"expr": s, "value": hex(v)} if i < 2 else None)
        for o in ops:
            ctx.note("op:" + o)


def _ops(t):
    if t[0] == "n":
        return []
    if t[0] == "u":
        return ["unary" + t[1]] + _ops(t[2])
    return [t[1]] + _ops(t[2]) + _ops(t[3])


PINNED = [
    ("b", "/", ("u", "-", ("n", 8, "8")), ("n", 2, "2")),
    ("b", "/", ("n", 8, "8"), ("u", "-", ("n", 2, "2"))),
    ("b", "|", ("n", 1, "1"), ("b", "==", ("n", 2, "2"), ("n", 2, "2"))),
    ("b", "&", ("u", "~", ("n", 255, "0xFF")), ("b", "==", ("n", 255, "0xFF"), ("n", 0, "0"))),
    ("b", "<<", ("n", 1, "1"), ("n", 65, "65")),
    ("b", ">>", ("n", 1 << 63, "0x8000000000000000"), ("n", 127, "127")),
]


def main(ctx):
    ctx.rule = ("random expression trees (depth<=7, operands biased to boundary values) rendered with the "
                "minimal parentheses C precedence needs; an expression counts when GNU ld accepts "
                "ASSERT((E)==model(E)); distinct = distinct expression texts")
    ctx.assumptions = ["GNU ld 2.40 is the arbiter; expressions it rejects or evaluates differently from the "
                       "model are inconclusive", "division by zero excluded"]
    tools.wild()
    obj = tools.assemble(ctx, ".globl _start\n.text\n_start: mov $60,%eax\n xor %edi,%edi\n syscall\n")
    nb = ctx.pick(40, 400)
    per = ctx.pick(50, 100)

    def pinned(_):
        r = rng("C16", "pinned")
        for n, t in enumerate(PINNED):
            v = ev(t)
            s = show(t, r)
            ld = link_script(ctx, "ld", obj, f'ASSERT(({s}) == 0x{v:x}, "E0")\n', f"p{n}-ld")
            if not ld.ok:
                ctx.inconclusive("pinned: reference disagrees")
                continue
            res = wild_eval_ok(ctx, obj, s, v, f"p{n}")
            if res.ok:
                ctx.held(fingerprint="pinned:" + s)
            else:
                small = minimise(ctx, obj, t, r, f"p{n}")
                r2 = wild_eval_ok(ctx, obj, show(small, r), ev(small), f"p{n}-v")
                sig = signature(small, r2.text(), probe=lambda x, _n=[0]: wild_eval_ok(
                    ctx, obj, show(x, r), ev(x), f"p{n}-q{_n.__setitem__(0, _n[0] + 1) or _n[0]}").ok)
                ctx.violation(sig, f"wild rejects ASSERT(({s}) == 0x{v:x}) which GNU ld accepts: "
                              f"{res.errtext().strip()[:200]}", case=f"pinned{n}",
                              files={"a.lds": f'ASSERT(({s}) == 0x{v:x}, "E0")\n', "s.o": obj})
    jobs = [("p", 0)] + [("b", i) for i in range(nb)]
    if ctx.replay is not None:
        c = str(ctx.replay.get("case"))
        jobs = [("p", 0)] if c.startswith("pinned") else [("b", int(c.split(".")[0]))]

    def go(j):
        if j[0] == "p":
            pinned(None)
        else:
            run_batch(ctx, obj, j[1], per)
    pmap(go, jobs)
