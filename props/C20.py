"""C20 Inputs changed during a link make the link fail.

Fault enumeration: with the H1 pause hook the link is stopped at every phase boundary after its
inputs were opened (up to the start of the final "Verify inputs unchanged" check); at that instant
one input (object, archive, thin-archive index, thin-archive member, linker script, object named
by INPUT() in a script) is modified in one way (rewrite same size, append, replace by rename,
touch); the link is resumed. Oracle: exit status must be non-zero.
"""
import os
import shutil
import time

from vlib import faults, tools
from vlib.common import pmap, write

LEVEL = "fault_enumeration"

MAIN = """.globl _start
.text
_start:
    call a1
    call t1
    call s1
    call o2
    mov $60,%eax
    xor %edi,%edi
    syscall
"""
FN = ".globl {n}\n.text\n{n}: mov ${v},%eax\n ret\n"

MODS = ["rewrite", "append", "rename", "touch"]


def build_inputs(ctx):
    """Template directory with all inputs; copied per case."""
    d = ctx.scratch.dir("template")
    def obj(name, src):
        p = tools.assemble(ctx, src, name=name)
        dst = os.path.join(d, name + ".o")
        shutil.copy(p, dst)
        return dst
    obj("main", MAIN)
    obj("a1", FN.format(n="a1", v=1))
    obj("t1", FN.format(n="t1", v=2))
    obj("s1", FN.format(n="s1", v=3))
    obj("o2", FN.format(n="o2", v=4))
    tools.make_archive(os.path.join(d, "libreg.a"), [os.path.join(d, "a1.o")])
    # thin archive must reference the member by relative path
    from vlib.common import run
    r = run(["ar", "rcsT", "libthin.a", "t1.o"], cwd=d)
    assert r.ok, r.errtext()
    write(os.path.join(d, "script.lds"), "INPUT(s1.o)\n")
    return d


INPUTS = {
    "object": "o2.o",
    "archive": "libreg.a",
    "thin-archive-index": "libthin.a",
    "thin-archive-member": "t1.o",
    "linker-script": "script.lds",
    "script-input-object": "s1.o",
}


def args_for(wd):
    return ["main.o", "o2.o", "libreg.a", "libthin.a", "script.lds", "-L.", "-o", "out"]


def modify(path, how):
    if how == "rewrite":
        data = open(path, "rb").read()
        with open(path, "r+b") as f:
            f.write(data)
    elif how == "append":
        with open(path, "ab") as f:
            f.write(b"\n" if path.endswith(".lds") else b"\0")
    elif how == "rename":
        data = open(path, "rb").read()
        tmp = path + ".new"
        with open(tmp, "wb") as f:
            f.write(data)
        os.replace(tmp, path)
    elif how == "touch":
        os.utime(path, None)


def stage_of(ph, uniq):
    def idx(prefix):
        for j, u in enumerate(uniq):
            if u.startswith(prefix):
                return j
        return None
    i = uniq.index(ph)
    w, v = idx("Write output file"), idx("Verify inputs unchanged")
    fl = idx("verif: output flushed")
    last = max(x for x in (v, fl) if x is not None)
    if i > last:
        return "after-final-check"
    if v is not None and i == v:
        return "at-final-check"
    if w is not None and i >= w:
        return "during-write"
    return "before-write"


def one(ctx, template, uniq, ph, ikind, how, threads, fork):
    cid = f"{ph}/{ikind}/{how}/t{threads}/{'fork' if fork else 'nofork'}"
    if ctx.replay is not None and ctx.replay.get("case") != cid:
        return
    wd = os.path.join(ctx.scratch.dir("c"), str(abs(hash(cid)) % 10**12))
    shutil.rmtree(wd, ignore_errors=True)
    shutil.copytree(template, wd)
    # files must be older than "now" by more than the timestamp granularity
    old = time.time() - 100
    for f in os.listdir(wd):
        os.utime(os.path.join(wd, f), (old, old))
    extra = [f"--threads={threads}"] + ([] if fork else ["--no-fork"])
    s = faults.PauseSession([*args_for(wd), *extra], wd, [ph], timeout=90)
    s.start()
    hit = s.wait(timeout=60)
    if hit is None:
        s.resume(timeout=0.1)
        s.finish(5)
        ctx.inconclusive("pause point not reached")
        return
    time.sleep(0.02)
    modify(os.path.join(wd, INPUTS[ikind]), how)
    ok = s.resume()
    r = s.finish()
    if not ok or r is None or r.timed_out:
        ctx.inconclusive("watchdog fired / resume failed")
        return
    stage = stage_of(ph, uniq)
    if stage == "after-final-check":
        ctx.note("info:after-final-check:rc0" if r.rc == 0 else "info:after-final-check:rc!=0")
        ctx.inconclusive("instant after the final check (not judged)")
        return
    ctx.note(f"input:{ikind}")
    ctx.note(f"mod:{how}")
    if r.rc == 0:
        ctx.violation(f"undetected:input={ikind}:mod={how}:stage={stage}",
                      f"{INPUTS[ikind]} ({ikind}) was modified ({how}) while the link was paused at '{ph}' "
                      f"(after it was opened), yet wild exited 0",
                      case=cid, files={"stderr.txt": r.errtext(), "cmd.txt": "wild " + " ".join([*args_for(wd), *extra])})
    else:
        names = INPUTS[ikind] in r.errtext()
        ctx.note("message_names_file" if names else "message_does_not_name_file")
        ctx.held(fingerprint=cid, nontrivial=True,
                 sample={"case": cid, "rc": r.rc, "stderr": r.errtext().strip()[:160]} if how == "rename" and ikind == "archive" and stage == "during-write" else None)


def main(ctx):
    ctx.rule = ("pause at every phase boundary after 'Open input files' (H1) x input kind x modification kind; "
                "non-trivial = the pause point was reached and the modification applied while wild was stopped; "
                "distinct = (phase instance, input kind, modification, threads, fork)")
    ctx.assumptions = ["'when the link finishes' = the start of wild's final unchanged-inputs check; later instants are run, "
                       "reported, not judged", "modifications that preserve the mtime are not in the property's list and not used"]
    tools.wild()
    template = build_inputs(ctx)
    rd = ctx.scratch.dir("rec")
    shutil.copytree(template, rd, dirs_exist_ok=True)
    rr, phases = faults.record_phases([*args_for(rd), "--threads=4"], rd)
    if not rr.ok:
        from vlib.common import HarnessError
        raise HarnessError("base link failed: " + rr.errtext())
    uniq = []
    for _pid, ph in phases:
        if ph not in uniq:
            uniq.append(ph)
    start = next(i for i, u in enumerate(uniq) if u.startswith("Open input files"))
    # "when the link finishes" is no earlier than the completion of the output: instants are judged
    # up to the later of wild's final check and the end of output writing (a final check that ran
    # before the output was written would leave modifications during writing undetected).
    end = max(next(i for i, u in enumerate(uniq) if u.startswith("Verify inputs unchanged")),
              max([i for i, u in enumerate(uniq) if u.startswith("verif: output flushed") or u.startswith("Write output file")] or [0]))
    points = uniq[start + 1:end + 1]
    extra_after = uniq[end + 1:end + 3]
    if ctx.quick:
        # every third boundary plus the first and the last two
        points = sorted(set(points[::3] + points[:1] + points[-2:]), key=uniq.index)
    for p in points:
        ctx.note_set("pause_points", p)
    jobs = []
    for ph in points + extra_after:
        for ikind in INPUTS:
            for how in MODS:
                for threads, fork in ([(4, True)] if ctx.quick else [(1, True), (16, True), (4, False)]):
                    jobs.append((ph, ikind, how, threads, fork))
    pmap(lambda j: one(ctx, template, uniq, *j), jobs)
    if not ctx.quick:
        ctx.exhaustive = True
        ctx.extra["exhaustive_scope"] = "phase boundary x input kind x modification kind, for one link, completely"
