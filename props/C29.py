"""C29 Alignment arithmetic is exact.

Oracle: the in-process `units` harness calls the real `Alignment::{new, align_up, align_down,
align_modulo}` (through `libwild::verif_api`, built from /repo's current tree with `--cfg wild_verif`)
and compares every result with 128-bit reference arithmetic written with `/` and `%` only.
Workload: all 17 alignments x a boundary-complete value set (as values and as reference values),
`new` on every value up to 2^17+2, every 2^k, 2^k+-1, 3*2^k, plus 10^7 (quick) / 10^8 (thorough)
uniformly random and bit-pattern-biased pairs. Results not representable in 64 bits are excluded
and counted (the statement is silent there).
"""
from vlib.common import HarnessError
from vlib.units import run_units

LEVEL = "exploration"

# Self-validation mutants compiled into the harness (never used for verdicts): each replaces one of
# wild's functions by a realistic wrong variant; the oracle must report exactly the listed class.
MUTANTS = {
    "align_down_value_mask": "align_down:wrong-result",       # masks with value() instead of mask()
    "align_modulo_no_wrap": "align_modulo:wrong-result",      # forgets the `adjustment -= value()` step
    "align_up_plus_one": "align_up:wrong-result",             # rounds an aligned value up to the next multiple
    "alignment_new_accepts_2_17": "alignment_new:accepts-invalid",
}


def record(ctx, counts, mism, tag, args):
    for c in counts:
        space, fn = c["space"], c.get("fn", "?")
        checked = c.get("checked", 0)
        ctx.note(f"{space}/{fn}:checked", checked)
        if "excluded_unrepresentable" in c:
            ctx.note(f"{space}/{fn}:excluded-unrepresentable", c["excluded_unrepresentable"])
        if c.get("panics"):
            ctx.note(f"{space}/{fn}:panics", c["panics"])
        if fn == "alignment_new":
            nontrivial = checked > 0 and 0 < c.get("accepted", 0) < checked
        else:
            # both outcomes seen: values that move and values that are already aligned
            nontrivial = checked > 0 and 0 < c.get("changed", 0) < checked
        ctx.held(fingerprint=f"{tag}:{space}/{fn}", nontrivial=nontrivial,
                 sample={"space": space, **{k: v for k, v in c.items() if k not in ("t", "space")}})
    for m in mism:
        s0 = m["samples"][0] if m.get("samples") else {}
        ctx.violation(m["sig"], f"{m['n']} results differ from the 128-bit reference, e.g. {s0}",
                      case=tag, files={"samples.json": __import__("json").dumps(m, indent=1),
                                       "command.txt": "/verif/.build/units/release/units " + " ".join(map(str, args)) + "\n"},
                      info={"args": list(args), "count": m["n"]})


def main(ctx):
    ctx.rule = ("each (function, sub-space) chunk of native evaluations is one case; non-trivial when it "
                "contains both inputs the function changes and inputs it leaves alone (for `new`: accepted "
                "and rejected values); sub-spaces: boundary (17 alignments x ~340 boundary values, squared "
                "for align_modulo), new (exhaustive to 2^17+2, all 2^k +-1/x3, random), random (uniform + "
                "bit-pattern biased pairs)")
    ctx.assumptions = ["128-bit integer division/modulo is the reference",
                       "the harness is built with wild's release settings (overflow checks off), like the "
                       "real binary", "results not representable in u64 are excluded and counted"]
    n = ctx.pick(10_000_000, 100_000_000)
    args = ["align", ctx.seed, n]
    if ctx.replay is not None:
        args = list((ctx.replay.get("info") or {}).get("args") or args)
    counts, mism, others = run_units(args)
    record(ctx, counts, mism, "main", args)
    total = sum(c.get("checked", 0) for c in counts)
    ctx.extra["native_evaluations"] = total
    ctx.extra["excluded_unrepresentable"] = sum(c.get("excluded_unrepresentable", 0) for c in counts)
    for o in others:
        if o.get("t") == "info":
            ctx.extra["boundary_values_per_alignment"] = o.get("boundary_values_per_alignment")
    if ctx.replay is not None:
        return
    # a second stream with a derived seed in the same run: distinct random pairs
    if not ctx.quick:
        args2 = ["align", ctx.seed + 1000003, n // 4]
        c2, m2, _ = run_units(args2)
        record(ctx, [c for c in c2 if c["space"] == "random"], m2, "stream2", args2)
        ctx.extra["native_evaluations"] += sum(c.get("checked", 0) for c in c2 if c["space"] == "random")
    # self-validation on every run: the oracle must see each compiled-in mutant
    for mut, want in MUTANTS.items():
        _, mm, _ = run_units(["align", ctx.seed, 20000], extra_env={"UNITS_MUTANT": mut})
        sigs = {m["sig"].split(":near-top")[0] for m in mm}
        if want not in sigs:
            raise HarnessError(f"self-validation: mutant {mut} was not detected (got {sorted(sigs)})")
        ctx.note_set("self-validation:mutants-detected", mut)
