"""C38 Every function and object has one address across modules.

Oracle: a self-checking dynamically linked program. Every module (executable, 1-3 shared libraries)
exports, for every shared symbol it sees, accessors that return its address / read it / write it /
call it through a locally obtained pointer; main compares all views (addresses equal, initial tags,
a store through one module visible through all others, calls reach the tagged function) and prints
one `label:ok|FAIL` line per check. The same inputs linked by GNU ld must print all-ok (calibration,
otherwise inconclusive); the wild-linked program must print the identical all-ok transcript.
Exactly one link is wild's: either the executable (libraries by GNU ld) or one library.
"""
import os
import re

from vlib import tools, xlink
from vlib.common import pmap, rng, sha

LEVEL = "exploration"
LIM = None
SELFTEST = os.environ.get("VERIF_SELFTEST", "")
KINDS = ["data", "data", "data_alias", "func", "func", "ifunc", "tls", "bss"]


def gen(r, quick):
    nlibs = r.randint(1, 3)
    mods = ["exe"] + [f"lib{i}" for i in range(nlibs)]
    exe_mode = r.choice(["nopie", "nopie", "pie", "pie-pic"])
    nocopy = r.random() < 0.15
    if nocopy:
        exe_mode = "pie-pic" if r.random() < 0.7 else "nopie-pic"
    syms = []
    for i in range(r.randint(3, 6 if quick else 9)):
        kind = r.choice(KINDS)
        definer = r.choice(mods) if r.random() < 0.65 else r.choice(mods[1:])
        others = [m for m in mods if m != definer]
        users = [m for m in others if r.random() < 0.7]
        if not users:
            users = [r.choice(others)]
        prot = definer != "exe" and kind in ("data", "func") and r.random() < 0.08
        if prot and kind == "data" and "exe" in users and exe_mode in ("nopie", "pie"):
            prot = False      # GNU ld rejects copy relocations against protected data
        if kind == "ifunc" and definer == "exe" and exe_mode != "nopie":
            definer, users = mods[1], ["exe"] + [m for m in users if m != mods[1]]   # glibc refuses exe-defined ifuncs referenced from libraries in PIEs
        syms.append(dict(name=f"x{i}", kind=kind, definer=definer, users=users, tag=1001 + i, prot=prot,
                         via_alias={m: r.random() < 0.5 for m in mods}))
    under_test = "exe" if r.random() < 0.7 else r.choice(mods[1:])
    libopt = []
    if under_test != "exe" and r.random() < 0.2:
        libopt = ["-Wl,-Bsymbolic-functions"]
    return dict(mods=mods, syms=syms, exe_mode=exe_mode, nocopy=nocopy, under_test=under_test, libopt=libopt,
                now=r.random() < 0.4, order=r.sample(mods[1:], len(mods) - 1))


def mod_src(case, m):
    t = "#include <stdio.h>\n"
    for s in case["syms"]:
        x, k, tag = s["name"], s["kind"], s["tag"]
        if s["definer"] == m:
            p = '__attribute__((visibility("protected"))) ' if s["prot"] else ""
            if k == "data":
                t += f"{p}int {x} = {tag};\n"
            elif k == "bss":
                t += f"int {x};\n"
            elif k == "data_alias":
                t += f'int {x} = {tag};\nextern int {x}_a __attribute__((weak, alias("{x}")));\n'
            elif k == "func":
                t += f"{p}int {x}(void) {{ return {tag}; }}\n"
            elif k == "ifunc":
                t += (f"static int {x}_impl(void) {{ return {tag}; }}\nstatic void *{x}_res(void) {{ return (void *){x}_impl; }}\n"
                      f'int {x}(void) __attribute__((ifunc("{x}_res")));\n')
            elif k == "tls":
                t += f"__thread int {x} = {tag};\n"
        elif m in s["users"]:
            if k in ("data", "bss"):
                t += f"extern int {x};\n"
            elif k == "data_alias":
                t += f"extern int {x};\nextern int {x}_a;\n"
            elif k in ("func", "ifunc"):
                t += f"extern int {x}(void);\n"
            elif k == "tls":
                t += f"extern __thread int {x};\n"
        else:
            continue
        ref = x + "_a" if k == "data_alias" and s["via_alias"][m] and s["definer"] != m else x
        if k in ("data", "bss", "data_alias", "tls"):
            t += (f"void *addr_{x}_{m}(void) {{ return (void *)&{ref}; }}\nint read_{x}_{m}(void) {{ return {ref}; }}\n"
                  f"void write_{x}_{m}(int v) {{ {ref} = v; }}\n")
        else:
            t += (f"void *addr_{x}_{m}(void) {{ return (void *){x}; }}\nint call_{x}_{m}(void) {{ int (*volatile p)(void) = {x}; return p(); }}\n"
                  f"int dcall_{x}_{m}(void) {{ return {x}(); }}\n")
    return t


def main_src(case):
    t = "#include <stdio.h>\n"
    body = ""
    for s in case["syms"]:
        x, k, tag = s["name"], s["kind"], s["tag"]
        seers = [s["definer"]] + s["users"]
        for m in seers:
            if k in ("func", "ifunc"):
                t += f"void *addr_{x}_{m}(void); int call_{x}_{m}(void); int dcall_{x}_{m}(void);\n"
            else:
                t += f"void *addr_{x}_{m}(void); int read_{x}_{m}(void); void write_{x}_{m}(int);\n"
        m0 = seers[0]
        for m in seers[1:]:
            body += f'  CHECK(addr_{x}_{m}() == addr_{x}_{m0}(), "{x}:addr:{m0}={m}");\n'
        if k in ("func", "ifunc"):
            for m in seers:
                body += f'  CHECK(call_{x}_{m}() == {tag}, "{x}:call-through-pointer:{m}");\n'
                body += f'  CHECK(dcall_{x}_{m}() == {tag}, "{x}:direct-call:{m}");\n'
        else:
            init = 0 if k == "bss" else tag
            for m in seers:
                body += f'  CHECK(read_{x}_{m}() == {init}, "{x}:initial-value:{m}");\n'
            v = 7
            for m in seers:
                v += 1
                body += f"  write_{x}_{m}({tag * 10 + v});\n"
                for m2 in seers:
                    if m2 != m:
                        body += f'  CHECK(read_{x}_{m2}() == {tag * 10 + v}, "{x}:store-via-{m}-seen-by:{m2}");\n'
    t += '#define CHECK(c, label) printf("%s:%s\\n", label, (c) ? "ok" : "FAIL")\n'
    t += "int main(void) {\n" + body + '  printf("end\\n");\n  return 0;\n}\n'
    return t


def sym_of(case, label):
    nm = label.split(":")[0]
    return next(s for s in case["syms"] if s["name"] == nm)


def build_and_run(ctx, case, d, which, rec):
    """Links every module (the module under test with `which`, the others with GNU ld) and runs.
    Returns (status, transcript dict or text)."""
    dd = os.path.join(d, which)
    os.makedirs(dd, exist_ok=True)
    rec.step(f"mkdir -p {which}")
    exe_flags = {"nopie": ("-O1", "-fno-pic"), "pie": ("-O1", "-fPIE"), "pie-pic": ("-O1", "-fPIC"), "nopie-pic": ("-O1", "-fPIC")}[case["exe_mode"]]
    libs = {}
    common = ["-Wl,--no-as-needed", "-Wl,--hash-style=gnu"] + (["-Wl,-z,now"] if case["now"] else ["-Wl,-z,lazy"])
    for m in case["order"]:
        o = rec.obj(m, mod_src(case, m), ("-O1", "-fPIC"))
        so = rec.name(os.path.join(dd, f"{m}.so"), f"{which}/{m}.so")
        k = which if case["under_test"] == m else "ld"
        opts = case["libopt"] if case["under_test"] == m else []
        if SELFTEST == "symbolic" and k == "wild":
            opts = opts + ["-Wl,-Bsymbolic"]      # deliberately wrong: the library binds its own symbols locally
        res = rec.link(k, ["-shared", o, "-Wl,-soname," + f"{m}.so", *common, *opts], so)
        if not xlink.linked_ok(res, so):
            return ("lib-link-failed:" + m, res.errtext().strip()[:300])
        libs[m] = so
    eo = rec.obj("exe", mod_src(case, "exe"), exe_flags)
    mo = rec.obj("main", main_src(case), exe_flags)
    exe = rec.name(os.path.join(dd, "prog"), f"{which}/prog")
    k = which if case["under_test"] == "exe" else "ld"
    args = (["-no-pie"] if case["exe_mode"].startswith("nopie") else ["-pie"]) + common
    if case["nocopy"]:
        args.append("-Wl,-z,nocopyreloc")
    res = rec.link(k, args + [mo, eo] + [libs[m] for m in case["order"]], exe)
    if not xlink.linked_ok(res, exe):
        return ("exe-link-failed", res.errtext().strip()[:300])
    rr = xlink.runprog(exe, libdirs=[dd])
    rec.step(f"LD_LIBRARY_PATH={which} ./{which}/prog")
    if rr.timed_out:
        return ("timeout", "")
    lines = {}
    for line in rr.outtext().splitlines():
        m = re.match(r"^(.*):(ok|FAIL)$", line)
        if m:
            lines[m.group(1)] = m.group(2)
    if rr.rc != 0 or not rr.outtext().rstrip().endswith("end"):
        return ("crash", f"rc={rr.rc} {rr.errtext().strip()[:200]} after {len(lines)} checks")
    return ("ran", lines)


def classify_label(case, label):
    s = sym_of(case, label)
    what = label.split(":")[1]
    what = re.sub(r"store-via-(\w+?)-seen-by", lambda m: "store-via-" + ("exe" if m.group(1) == "exe" else "lib") + "-seen-by", what)
    who = label.split(":")[2] if label.count(":") >= 2 else ""
    who = "=".join("exe" if w == "exe" else "lib" for w in who.split("="))
    what = re.sub(r"store-via-\w+-seen-by", "store-not-visible-across-modules", what)
    return (f"{s['kind']}{'(protected)' if s['prot'] else ''}:def={'exe' if s['definer'] == 'exe' else 'lib'}:{what}")


def one_case(ctx, ci, forced=None):
    r = rng("C38", ctx.seed, ci)
    case = forced or gen(r, ctx.quick)
    if SELFTEST == "symbolic" and case["under_test"] == "exe":
        case["under_test"] = case["mods"][1]
    d = ctx.scratch.dir("case", ci)
    rec = xlink.Recipe(ctx, d)
    ref = build_and_run(ctx, case, d, "ld", rec)
    cfg = f"{case['exe_mode']}{':nocopyreloc' if case['nocopy'] else ''}:under-test={'exe' if case['under_test'] == 'exe' else 'lib'}" \
          + (":" + case["libopt"][0][4:] if case["libopt"] else "")
    cfg0 = f"{case['exe_mode']}{':nocopyreloc' if case['nocopy'] else ''}:under-test={'exe' if case['under_test'] == 'exe' else 'lib'}"
    if ref[0] != "ran":
        ctx.inconclusive(f"GNU ld reference: {ref[0].split(':')[0]}")
        if os.environ.get("C38_DEBUG"):
            import sys
            print("DBG", ci, cfg, ref, [(s["name"], s["kind"], s["definer"], s["users"], s["prot"]) for s in case["syms"]], file=sys.stderr)
        return
    if any(v != "ok" for v in ref[1].values()):
        ctx.inconclusive("GNU ld program itself reports a FAIL (construct does not preserve the property)")
        ctx.note("ld-fails:" + ",".join(sorted({classify_label(case, k) for k, v in ref[1].items() if v != "ok"}))[:150])
        return
    got = build_and_run(ctx, case, d, "wild", rec)
    for s in case["syms"]:
        ctx.note(f"sym:{s['kind']}:def={'exe' if s['definer'] == 'exe' else 'lib'}:{case['exe_mode']}")
    ctx.note("config:" + cfg)
    if got[0] == "timeout":
        ctx.inconclusive("watchdog")
        return
    if got[0] != "ran":
        kinds = "+".join(sorted({s["kind"] for s in case["syms"]}))
        sig = f"{got[0].split(':')[0]}:{cfg}"
        LIM.violation(sig, f"GNU ld builds and runs this program all-ok; with wild: {got[0]}: {got[1]} (symbol kinds {kinds})", case=ci,
                      files=rec.files(), info={"syms": case["syms"]})
        return
    if got[1] == ref[1]:
        kinds = {(s["kind"], s["definer"] == "exe") for s in case["syms"]}
        ctx.held(fingerprint=sha(repr((cfg, case["order"], [(s["kind"], s["definer"], s["users"], s["prot"]) for s in case["syms"]])))[:16],
                 nontrivial=len(ref[1]) >= 8 and len(kinds) >= 2, sample={"config": cfg, "checks": len(ref[1])} if ci in (0, 1) else None)
        return
    sigs = {}
    for label in sorted(set(ref[1]) | set(got[1])):
        if ref[1].get(label) != got[1].get(label):
            sigs.setdefault(f"identity:{classify_label(case, label)}:{cfg0}", label)
    for sig, label in sigs.items():
        LIM.violation(sig, f"check {label}: ok with GNU ld, {got[1].get(label, 'missing')} with wild", case=ci, files=rec.files(),
                      info={"failing": [k for k in got[1] if got[1][k] != "ok"], "syms": case["syms"]})


def pinned_cases():
    base = dict(mods=["exe", "lib0"], exe_mode="nopie", nocopy=False, libopt=[], now=False, order=["lib0"])
    va = {"exe": False, "lib0": False}
    return [
        # canonical PLT: a non-PIC executable takes the address of a library function
        dict(base, under_test="exe", syms=[dict(name="x0", kind="func", definer="lib0", users=["exe"], tag=1001, prot=False, via_alias=va),
                                           dict(name="x1", kind="data", definer="lib0", users=["exe"], tag=1002, prot=False, via_alias=va)]),
        # a library's own default-visibility ifunc must stay preemptible (symbolic GOT entry, not IRELATIVE)
        dict(base, under_test="lib0", syms=[dict(name="x0", kind="ifunc", definer="lib0", users=["exe"], tag=1001, prot=False, via_alias=va),
                                            dict(name="x1", kind="data", definer="exe", users=["lib0"], tag=1002, prot=False, via_alias=va)]),
    ]


def main(ctx):
    global LIM
    LIM = xlink.SigLimiter(ctx, 2)
    ctx.rule = ("random programs: executable (non-PIE -fno-pic, PIE -fPIE, PIE/non-PIE -fPIC with -z nocopyreloc) + 1-3 shared libraries "
                "sharing 3-9 symbols (data, bss, aliased data, functions, ifuncs, TLS; defined in the executable or a library; protected "
                "sometimes) in both directions; the wild link is the executable or one library (-Bsymbolic-functions variants); a case "
                "counts when the GNU-ld-built program prints all ok with >=8 checks over >=2 symbol kinds")
    ctx.assumptions = ["GNU ld 2.40 calibrates each program; glibc's dynamic loader is trusted"]
    tools.wild()
    n = ctx.pick(50, 300)
    jobs = [f"pinned{i}" for i in range(len(pinned_cases()))] + list(range(n))
    if ctx.replay is not None:
        c = str(ctx.replay["case"])
        jobs = [c if c.startswith("pinned") else int(c)]

    def go(j):
        if isinstance(j, str):
            one_case(ctx, j, forced=pinned_cases()[int(j[6:])])
        else:
            one_case(ctx, j)
    pmap(go, jobs, workers=12)
