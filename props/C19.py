"""C19 A link touches only its declared outputs.

Oracle: (a) before/after snapshot (type, inode, size, mtime, sha256) of a sandbox tree that holds the
inputs and decoy siblings of the output (`<stem>.delete`, `<out>.delete`, `<out>.tmp`, `<stem>.o`, ...);
every difference must be inside the allowed set computed from the command line (output, dependency
file, layout/trace/gc-stats files, save dir). (b) the link runs under strace: every pre-existing path
that is opened for writing, truncated, renamed, unlinked or re-moded must be in the allowed set,
which catches transient clobbering a snapshot could miss. Temporary names that did not exist before
and do not exist afterwards are noted, not judged. Concurrent links with colliding stems are
checked the same way plus byte equality of each output with its solo link.
"""
import hashlib
import os
import re
import shutil
import stat
import threading

from vlib import tools
from vlib.common import log, pmap, rng, run, write, read, HarnessError

LEVEL = "exploration"
STRACE = shutil.which("strace")
TRACE = ("openat,open,creat,rename,renameat,renameat2,unlink,unlinkat,mkdir,mkdirat,rmdir,truncate,ftruncate,"
         "link,linkat,symlink,symlinkat,chmod,fchmod,fchmodat")

MAIN_S = ".globl _start\n.text\n_start:\n call f1\n mov %eax,%edi\n mov $60,%eax\n syscall\n"
F_S = ".globl f1\n.text\nf1:\n mov ${v},%eax\n ret\n.data\n.globl d1\nd1: .quad {v}\n"
SO_S = ".globl api\n.text\napi:\n mov ${v},%eax\n ret\n.data\n.globl dd\ndd: .quad {v}\n"
BAD_S = ".globl f1\n.text\nf1:\n call no_such_symbol\n ret\n"

OUT_NAMES = ["out", "lib.so", "a.b.so", "x.1", "dir.d/prog", "dir.d/lib.so.1", ".hidden", "prog.exe", "sub/x.2"]


# ---------------------------------------------------------------------------------------------
def snapshot(root):
    snap = {}
    for dp, dns, fns in os.walk(root):
        for n in dns + fns:
            p = os.path.join(dp, n)
            st = os.lstat(p)
            rel = os.path.relpath(p, root)
            if stat.S_ISREG(st.st_mode):
                h = hashlib.sha256(open(p, "rb").read()).hexdigest()
                snap[rel] = ("file", st.st_ino, st.st_size, st.st_mtime_ns, h, stat.S_IMODE(st.st_mode))
            elif stat.S_ISLNK(st.st_mode):
                snap[rel] = ("symlink", st.st_ino, os.readlink(p))
            elif stat.S_ISDIR(st.st_mode):
                snap[rel] = ("dir",)
            else:
                snap[rel] = ("other", st.st_ino)
    return snap


_LINE = re.compile(r"^(\d+)\s+(\w+)\((.*)$")
_RESUMED = re.compile(r"^(\d+)\s+<\.\.\. (\w+) resumed>(.*)$")
_STR = re.compile(r'"((?:[^"\\]|\\.)*)"')
_DIRFD = re.compile(r"(AT_FDCWD|\d+)<([^>]*)>")


def _unq(s):
    return re.sub(r"\\(.)", lambda m: {"n": "\n", "t": "\t"}.get(m.group(1), m.group(1)), s)


def parse_events(logpath, cwd):
    """-> list of (op, absolute path, ok). Only mutating operations."""
    ev = []
    pending = {}

    def handle(call, args, res):
        ok = res is not None and not res.strip().startswith("-1")
        strs = [_unq(s) for s in _STR.findall(args)]
        fds = _DIRFD.findall(args)

        def ab(i, fdi=0):
            if i >= len(strs):
                return None
            p = strs[i]
            if os.path.isabs(p):
                return os.path.normpath(p)
            base = cwd
            at = [f for f in fds]
            if call.endswith("at") or call == "renameat2":
                if fdi < len(at):
                    base = at[fdi][1]
            return os.path.normpath(os.path.join(base, p))
        if call in ("open", "openat", "creat"):
            if call == "creat" or re.search(r"O_WRONLY|O_RDWR|O_CREAT|O_TRUNC|O_APPEND", args):
                p = ab(0)
                op = "open-write"
                if "O_TRUNC" in args or call == "creat":
                    op = "open-truncate"
                ev.append((op, p, ok))
        elif call in ("rename", "renameat", "renameat2"):
            ev.append(("rename-from", ab(0, 0), ok))
            ev.append(("rename-to", ab(1, 1), ok))
        elif call in ("unlink", "unlinkat", "rmdir"):
            ev.append(("unlink", ab(0), ok))
        elif call in ("mkdir", "mkdirat"):
            ev.append(("mkdir", ab(0), ok))
        elif call == "truncate":
            ev.append(("truncate", ab(0), ok))
        elif call in ("ftruncate", "fchmod"):
            m = re.match(r"\s*\d+<([^>]*)>", args)
            if m:
                ev.append((call, os.path.normpath(m.group(1)), ok))
        elif call in ("link", "linkat", "symlink", "symlinkat"):
            ev.append(("link-to", ab(1, 1) if call != "symlinkat" else ab(1, 0), ok))
        elif call in ("chmod", "fchmodat"):
            ev.append(("chmod", ab(0), ok))

    for line in open(logpath, errors="replace"):
        line = line.rstrip("\n")
        m = _RESUMED.match(line)
        if m:
            pid, call, rest = m.groups()
            if (pid, call) in pending:
                args = pending.pop((pid, call)) + rest
                res = args.rsplit("=", 1)[1] if "=" in args else None
                handle(call, args, res)
            continue
        m = _LINE.match(line)
        if not m:
            continue
        pid, call, rest = m.groups()
        if rest.endswith("<unfinished ...>"):
            pending[(pid, call)] = rest[:-len("<unfinished ...>")]
            continue
        res = rest.rsplit(") = ", 1)[1] if ") = " in rest else None
        handle(call, rest, res)
    return ev


def path_class(rel, out_rel):
    """Names a sandbox path relative to the output path: the unit of the signature (runs of digits such
    as pids are normalised)."""
    return re.sub(r"\d{3,}", "N", _path_class(rel, out_rel))


def _path_class(rel, out_rel):
    od, on = os.path.split(out_rel)
    d, n = os.path.split(rel)
    stem = on.rsplit(".", 1)[0] if "." in on.lstrip(".") and not on.startswith(".") or on.count(".") > 1 else on
    if on.startswith(".") and on.count(".") == 1:
        stem = on
    if rel == out_rel:
        return "<out>"
    if d == od:
        if stem == on and n.startswith(on + "."):
            return "<stem>." + n[len(on) + 1:]
        if n.startswith(on + "."):
            return "<out>." + n[len(on) + 1:]
        if n.startswith(on):
            return "<out>" + n[len(on):]
        if stem != on and n.startswith(stem + "."):
            return "<stem>." + n[len(stem) + 1:]
        if n == stem:
            return "<stem>"
        if n.startswith("." + on):
            return ".<out>" + n[len(on) + 1:]
    if rel.startswith("in/"):
        return "input"
    return "other"


DECOY_SUFFIXES = ["<stem>.delete", "<out>.delete", "<out>.tmp", "<out>.layout", "<out>.trace", "<out>..trace", "<stem>.o",
                  "<stem>.d", "<out>~", ".<out>.swp", "<stem>.tmp", "<out>.bak", "<out>.old", "<stem>.trace",
                  "<stem>.layout"]


def decoy_path(cls, out_rel):
    od, on = os.path.split(out_rel)
    if on.startswith(".") and on.count(".") == 1:
        stem = on
    else:
        stem = on.rsplit(".", 1)[0] if "." in on else on
    n = cls.replace("<out>", on).replace("<stem>", stem)
    return os.path.join(od, n)


class Plan:
    pass


def make_plan(ctx, r, forced=None):
    p = Plan()
    p.out = r.choice(OUT_NAMES)
    p.kind = r.choice(["exe", "exe", "shared", "shared", "pie"])
    p.mode = r.choice(["default", "default", "--update-in-place", "--no-update-in-place"])
    p.threads = r.choice(["default", "--threads=1"])
    p.fork = r.choice(["fork", "--no-fork"])
    p.mmap = r.choice(["default", "--no-mmap-output-file"])
    p.prior = r.choice(["absent", "present", "present", "present-readonly"])
    p.side = sorted(set(r.sample(["depfile", "layout", "trace", "gc-stats", "save-dir"], r.choice([0, 0, 1, 1, 2, 3]))))
    p.fail = r.random() < 0.1
    if forced:
        for k, v in forced.items():
            setattr(p, k, v)
    return p


def setup(ctx, p, sb, objs):
    """Creates inputs, prior output, decoys. Returns (args, env, allowed set of rel paths/prefixes)."""
    os.makedirs(os.path.join(sb, "in"))
    os.makedirs(os.path.join(sb, os.path.dirname(p.out) or "."), exist_ok=True)
    if p.kind == "shared":
        shutil.copy(objs["so1"], os.path.join(sb, "in", "a.o"))
        inputs = ["in/a.o"]
    else:
        shutil.copy(objs["main"], os.path.join(sb, "in", "main.o"))
        shutil.copy(objs["bad"] if p.fail else objs["f1"], os.path.join(sb, "in", "f.o"))
        inputs = ["in/main.o", "in/f.o"]
    args = list(inputs)
    if p.kind == "shared":
        args.append("-shared")
    elif p.kind == "pie":
        args.append("-pie")
    for o in (p.mode, p.threads, p.fork, p.mmap):
        if o.startswith("-"):
            args.append(o)
    env = {}
    allowed = {p.out}
    prefixes = []
    if "depfile" in p.side:
        args.append("--dependency-file=deps/out.d")
        os.makedirs(os.path.join(sb, "deps"), exist_ok=True)
        allowed.add("deps/out.d")
    if "layout" in p.side:
        env["WILD_WRITE_LAYOUT"] = "1"
        allowed.add(p.out + ".layout")
    if "trace" in p.side:
        env["WILD_WRITE_TRACE"] = "1"
        allowed |= {decoy_path("<out>.trace", p.out), decoy_path("<out>..trace", p.out), decoy_path("<stem>.trace", p.out)}
        on = os.path.basename(p.out)
        ext = on.rsplit(".", 1)[1] if "." in on and not (on.startswith(".") and on.count(".") == 1) else ""
        allowed.add(os.path.join(os.path.dirname(p.out), (on[:-(len(ext) + 1)] if ext else on) + "." + ext + ".trace"))
    if "gc-stats" in p.side:
        args.append("--write-gc-stats=stats/gc.txt")
        os.makedirs(os.path.join(sb, "stats"), exist_ok=True)
        allowed.add("stats/gc.txt")
    if "save-dir" in p.side:
        env["WILD_SAVE_DIR"] = os.path.join(sb, "saved")
        prefixes.append("saved")
    args += ["-o", p.out]
    return args, env, allowed, prefixes


def place_decoys(sb, p, allowed, r, which=None):
    made = {}
    for cls in DECOY_SUFFIXES:
        rel = decoy_path(cls, p.out)
        if rel in allowed or rel == p.out or rel in made:
            continue
        if which is not None and cls not in which:
            continue
        if which is None and r.random() < 0.15:
            continue
        full = os.path.join(sb, rel)
        if os.path.lexists(full):
            continue
        write(full, f"user data in {rel} - must survive\n" * r.randint(1, 4))
        made[rel] = cls
    write(os.path.join(sb, "unrelated.txt"), "unrelated\n")
    return made


def judge(ctx, cid, p, sb, before, after, events, allowed, prefixes, files, tag=""):
    """Compares snapshots and events against the allowed set. Returns set of signatures raised."""
    sigs = {}

    def ok_path(rel):
        return rel in allowed or any(rel == q or rel.startswith(q + "/") for q in prefixes)

    for rel in sorted(set(before) | set(after)):
        if ok_path(rel):
            continue
        b, a = before.get(rel), after.get(rel)
        if b == a:
            continue
        if a is not None and a[0] == "dir" and b is None and any((q + "/").startswith(rel + "/") for q in list(allowed) + prefixes):
            continue
        cls = path_class(rel, p.out)
        if b is None:
            sigs.setdefault(f"stray-file:{cls}", f"`{rel}` did not exist before the link and is left behind")
        elif a is None:
            sigs.setdefault(f"clobbers-sibling:{cls}", f"`{rel}` existed before the link and was deleted")
        else:
            what = "replaced (new inode)" if b[1] != a[1] else "modified"
            sigs.setdefault(f"clobbers-sibling:{cls}", f"`{rel}` existed before the link and was {what}")
    root = os.path.realpath(sb)
    transient = set()
    for op, path, ok in events:
        if path is None or not ok:
            continue
        rp = os.path.join(os.path.realpath(os.path.dirname(path)), os.path.basename(path))
        if not rp.startswith(root + os.sep):
            continue
        rel = os.path.relpath(rp, root)
        if ok_path(rel):
            ctx.note("event-on-allowed:" + op)
            continue
        cls = path_class(rel, p.out)
        if rel in before:
            if op == "mkdir":
                continue
            if f"clobbers-sibling:{cls}" not in sigs:
                sigs.setdefault(f"touches-existing:{cls}:{op}", f"`{rel}` existed before the link and was the object of {op}")
        elif rel not in after:
            transient.add((cls, op))
    for cls, op in transient:
        ctx.note(f"transient-temporary-name:{cls}:{op}")
    for sig, desc in sigs.items():
        ctx.violation(sig, f"{desc} (output `{p.out}`, {p.kind}, mode {p.mode}, prior output {p.prior}, {p.threads}, {p.fork}){tag}",
                      case=cid, files=files,
                      info={k: getattr(p, k) for k in ("out", "kind", "mode", "threads", "fork", "mmap", "prior", "side", "fail")})
    return set(sigs)


def strace_link(wild, args, env, sb, logpath):
    return run([STRACE, "-f", "-y", "-o", logpath, "-e", "trace=" + TRACE, wild, *args], cwd=sb, extra_env=env, timeout=180)


def one_case(ctx, objs, cid, forced=None, decoys=None):
    r = rng("C19", ctx.seed, cid)
    p = make_plan(ctx, r, forced)
    sb = ctx.scratch.dir("sb", cid)
    logd = ctx.scratch.dir("log", cid)
    wild = tools.wild()
    args, env, allowed, prefixes = setup(ctx, p, sb, objs)
    for k in ("kind", "mode", "threads", "fork", "mmap", "prior"):
        ctx.note(f"{k}:{getattr(p, k)}")
    for s in p.side:
        ctx.note("side:" + s)
    if p.prior != "absent":
        # a first link produces the prior output (with different code so the relink really changes it)
        a0 = [a for a in args if not a.startswith("--dependency-file") and not a.startswith("--write-gc-stats")]
        pre = run([wild, *a0], cwd=sb, timeout=120)
        outp = os.path.join(sb, p.out)
        if p.fail:
            write(outp, b"\x7fELF previous output\n")
        elif not pre.ok:
            ctx.inconclusive("preparatory link failed")
            return
        if p.prior == "present-readonly":
            os.chmod(outp, 0o555)
    made = place_decoys(sb, p, allowed, r, decoys)
    write(os.path.join(sb, "cmd.txt"), f"cd <sandbox>; env {' '.join(k + '=' + v for k, v in env.items())} wild {' '.join(args)}\n")
    before = snapshot(sb)
    slog = os.path.join(logd, "strace.log")
    res = strace_link(wild, args, env, sb, slog)
    if res.timed_out:
        ctx.inconclusive("watchdog")
        return
    after = snapshot(sb)
    after.pop("cmd.txt", None)
    before.pop("cmd.txt", None)
    events = parse_events(slog, sb)
    if not any(e[0].startswith("open-") for e in events) and res.ok:
        raise HarnessError("strace log shows no write-open although the link succeeded")
    if res.ok == p.fail and not p.fail:
        ctx.inconclusive("link failed unexpectedly: " + res.errtext().strip().split("\n")[0][:80])
        return
    ctx.note("link:" + ("ok" if res.ok else "failed"))
    files = {"sandbox-after": sb, "strace.log": slog, "stderr.txt": res.errtext() or "(empty)",
             "before.txt": "\n".join(f"{k} {v}" for k, v in sorted(before.items()))}
    sigs = judge(ctx, cid, p, sb, before, after, events, allowed, prefixes, files)
    if not sigs:
        ctx.held(fingerprint=f"{p.out}|{p.kind}|{p.mode}|{p.threads}|{p.fork}|{p.mmap}|{p.prior}|{','.join(p.side)}|{p.fail}",
                 nontrivial=len(made) >= 3 and (res.ok or p.fail),
                 sample={"args": args, "env": {k: v for k, v in env.items() if k != "WILD_SAVE_DIR"}, "decoys": sorted(made)[:6],
                         "mutating_events": len(events)} if str(cid) in ("0", "1") else None)


def concurrent_case(ctx, objs, cid):
    """Two or three links at once in one directory whose output stems collide."""
    r = rng("C19", ctx.seed, "conc", cid)
    sb = ctx.scratch.dir("sb", f"conc{cid}")
    logd = ctx.scratch.dir("log", f"conc{cid}")
    wild = tools.wild()
    n = r.choice([2, 3])
    kind = r.choice(["shared", "shared", "exe"])
    outs = [f"x.{k + 1}" for k in range(n)] if r.random() < 0.7 else ["lib.so", "lib.a1", "lib.x"][:n]
    os.makedirs(os.path.join(sb, "in"))
    solo = {}
    cmds = []
    for k, o in enumerate(outs):
        if kind == "shared":
            shutil.copy(objs[f"so{k + 1}"], os.path.join(sb, "in", f"a{k}.o"))
            args = [f"in/a{k}.o", "-shared", "-o", o]
        else:
            shutil.copy(objs["main"], os.path.join(sb, "in", "main.o"))
            shutil.copy(objs["f1"] if k == 0 else objs[f"f{k + 1}"], os.path.join(sb, "in", f"f{k}.o"))
            args = ["in/main.o", f"in/f{k}.o", "-o", o]
        args += [x for x in (r.choice(["--threads=1", ""]), r.choice(["--no-fork", ""])) if x]
        cmds.append(args)
        # solo link (also creates the prior output)
        rs = run([wild, *args], cwd=sb, timeout=120)
        if not rs.ok:
            ctx.inconclusive("preparatory link failed")
            return
        solo[o] = read(os.path.join(sb, o))
    prior = r.choice(["present", "present", "absent"])
    if prior == "absent":
        for o in outs:
            os.unlink(os.path.join(sb, o))
    write(os.path.join(sb, "x.delete" if outs[0].startswith("x.") else "lib.delete"), "user data - must survive\n")
    write(os.path.join(sb, "unrelated.txt"), "unrelated\n")
    before = snapshot(sb)
    results = [None] * n

    def go(k):
        results[k] = strace_link(wild, cmds[k], {}, sb, os.path.join(logd, f"strace{k}.log"))
    ts = [threading.Thread(target=go, args=(k,)) for k in range(n)]
    for t in ts:
        t.start()
    for t in ts:
        t.join()
    if any(x.timed_out for x in results):
        ctx.inconclusive("watchdog")
        return
    after = snapshot(sb)
    ctx.note(f"concurrent:{n}:{kind}:prior-{prior}")
    files = {"sandbox-after": sb, "logs": logd, "cmds.txt": "\n".join("wild " + " ".join(c) for c in cmds)}
    bad = False
    for k, o in enumerate(outs):
        if not results[k].ok:
            bad = True
            ctx.violation(f"concurrent-link-fails:{kind}", f"link {k} of {n} concurrent links in one directory fails: "
                          f"{results[k].errtext().strip()[:200]}", case=f"conc{cid}", files=files)
        elif read(os.path.join(sb, o)) != solo[o]:
            bad = True
            ctx.violation(f"concurrent-output-differs:{kind}", f"output {o} differs from its solo link", case=f"conc{cid}", files=files)
    p = Plan()
    p.out, p.kind, p.mode, p.prior, p.threads, p.fork, p.mmap, p.side, p.fail = outs[0], kind, "default", prior, "mixed", "mixed", "default", [], False
    events = []
    for k in range(n):
        events += parse_events(os.path.join(logd, f"strace{k}.log"), sb)
    sigs = judge(ctx, f"conc{cid}", p, sb, before, after, events, set(outs), [], files, tag=f" [{n} concurrent links: {outs}]")
    if not bad and not sigs:
        ctx.held(fingerprint=f"conc|{n}|{kind}|{prior}|{outs}|{cmds}", nontrivial=True)


def deletion_case(ctx, objs, k):
    """The previous output is renamed to a temporary name and deleted by a background task. With the H1
    pause hook that task is held just before it unlinks the file: the link (as seen by its caller: the
    wild command returning) must not complete while the temporary name still exists."""
    import time
    from vlib import faults
    threads, fork, kind = [("", "", "shared"), ("--threads=4", "--no-fork", "shared"), ("--threads=16", "", "shared"),
                           ("", "--no-fork", "exe-no-update-in-place"), ("--threads=2", "", "shared")][k % 5]
    cid = f"del{k}"
    sb = ctx.scratch.dir("sb", cid)
    if kind == "shared":
        shutil.copy(objs["so1"], os.path.join(sb, "a.o"))
        shutil.copy(objs["so2"], os.path.join(sb, "b.o"))
        out = "lib.so.1"
        a1, a2 = ["a.o", "-shared", "-o", out], ["b.o", "-shared", "-o", out]
    else:
        for n in ("main", "f1", "f2"):
            shutil.copy(objs[n], os.path.join(sb, n + ".o"))
        out = "prog"
        a1, a2 = ["main.o", "f1.o", "-o", out], ["main.o", "f2.o", "--no-update-in-place", "-o", out]
    extra = [x for x in (threads, fork) if x]
    pre = run([tools.wild(), *a1, *extra], cwd=sb, timeout=120)
    if not pre.ok:
        return ctx.inconclusive("preparatory link failed")
    time.sleep(0.3)       # a forked preparatory link finishes its own clean-up in the background
    before = set(os.listdir(sb))
    s = faults.PauseSession([*a2, *extra], sb, ["verif: delete old output#*"], timeout=120)
    s.start()
    hit = s.wait(timeout=60)
    if hit is None:
        s.finish(5)
        ctx.note("deletion-task-not-reached:" + kind)
        return ctx.inconclusive("the background deletion task was not reached (single-threaded path or no rename)")
    # the deletion task is held; does the link command return anyway?
    t0 = time.time()
    while time.time() - t0 < 3.0 and s._thr.is_alive():
        time.sleep(0.02)
    ended_while_held = not s._thr.is_alive()
    stray = sorted(set(os.listdir(sb)) - before - {"notify.fifo", "resume.fifo"})
    s.resume(timeout=1 if ended_while_held else 30)
    res = s.finish(60)
    for f in ("notify.fifo", "resume.fifo"):
        if os.path.exists(os.path.join(sb, f)):
            os.unlink(os.path.join(sb, f))
    ctx.note(f"deletion-case:{kind}:{threads or 'default'}:{fork or 'fork'}")
    if ended_while_held and stray:
        ctx.violation(f"link-returns-before-old-output-is-deleted:{fork or 'fork'}",
                      f"the link command returned (rc={res.rc if res else '?'}) while the renamed previous output {stray} still "
                      f"existed: its background deletion had not run yet (held by the pause hook); nothing waits for it "
                      f"({kind}, {threads or 'default threads'})", case=cid, files={"sandbox": sb})
        return
    if res is None or res.timed_out or not res.ok:
        return ctx.inconclusive("watchdog / link failed in the deletion case")
    time.sleep(0.2)
    left = sorted(set(os.listdir(sb)) - before - {"notify.fifo", "resume.fifo"})
    if left:
        ctx.violation("stray-file-after-held-deletion", f"{left} left behind after the link ({kind})", case=cid, files={"sandbox": sb})
        return
    ctx.held(fingerprint=f"{cid}:{kind}:{threads}:{fork}", nontrivial=True,
             sample={"case": cid, "held_at": hit, "command_waited_for_deletion": True} if k == 0 else None)


def savebase_case(ctx, objs, k):
    """WILD_SAVE_BASE: every link claims its own numbered bundle directory. Many links released at the same
    instant with one base: afterwards there must be exactly one bundle per link, each complete."""
    import subprocess
    cid = f"savebase{k}"
    sb = ctx.scratch.dir("sb", cid)
    base = os.path.join(sb, "bundles")
    os.makedirs(base)
    n = 32
    for j in range(n):
        shutil.copy(objs[f"so{j % 3 + 1}"], os.path.join(sb, f"a{j}.o"))
    rd, wr = os.pipe()
    procs = []
    env = dict(os.environ, WILD_SAVE_BASE=base)
    for j in range(n):
        # each child blocks reading the pipe until the parent closes the write end: all start together
        procs.append(subprocess.Popen(["/bin/bash", "-c", f'read -r _x <&{rd}; exec {rd}<&-; exec "$0" "$@"', tools.wild(), f"a{j}.o",
                                       "-shared", "-o", f"lib{j}.so"] + (["--no-fork"] if k % 2 else []), cwd=sb, env=env,
                                      pass_fds=(rd,), stdout=subprocess.DEVNULL, stderr=subprocess.PIPE))
    import time
    time.sleep(0.3)
    os.close(wr)
    os.close(rd)
    errs = []
    for p in procs:
        try:
            _o, e = p.communicate(timeout=180)
        except subprocess.TimeoutExpired:
            p.kill()
            return ctx.inconclusive("watchdog")
        if p.returncode != 0:
            errs.append(e.decode(errors="replace")[:200])
    time.sleep(0.3)
    bundles = sorted(os.listdir(base))
    ctx.note(f"save-base:concurrent-links:{n}")
    files = {"bundles.txt": "\n".join(f"{b}: {sorted(os.listdir(os.path.join(base, b)))[:8]}" for b in bundles), "errors.txt": "\n".join(errs) or "(none)"}
    if errs:
        ctx.violation("save-base:link-fails-under-concurrency", f"{len(errs)} of {n} simultaneous links with one WILD_SAVE_BASE failed: "
                      f"{errs[0][:160]}", case=cid, files=files)
        return
    incomplete = [b for b in bundles if not os.path.exists(os.path.join(base, b, "run-with"))]
    if len(bundles) != n or incomplete:
        ctx.violation("save-base:bundle-directory-shared-by-links",
                      f"{n} simultaneous links with one WILD_SAVE_BASE produced {len(bundles)} bundle directories "
                      f"({len(incomplete)} without run-with): at least two links wrote into the same bundle", case=cid, files=files)
        return
    ctx.held(fingerprint=f"{cid}:{n}", nontrivial=True)


def directory_case(ctx, objs, k):
    """The output path names an existing directory (with user files in it). Whatever the link's status, the
    directory and its contents must still be there, unmoved, and nothing else may appear in the sandbox."""
    kind, threads, fork, via = [("shared", "", "", "dir"), ("exe", "", "--no-fork", "dir"), ("shared", "--threads=1", "", "dir"),
                                ("shared", "--threads=4", "--no-fork", "symlink-to-dir"), ("exe", "", "", "dir-empty")][k % 5]
    cid = f"dir{k}"
    sb = ctx.scratch.dir("sb", cid)
    out = "out.d" if kind == "shared" else "prog"
    if via == "symlink-to-dir":
        os.makedirs(os.path.join(sb, "real.d", "sub"))
        write(os.path.join(sb, "real.d", "sub", "user.txt"), "user data - must survive\n")
        os.symlink("real.d", os.path.join(sb, out))
    else:
        os.makedirs(os.path.join(sb, out))
        if via == "dir":
            write(os.path.join(sb, out, "user.txt"), "user data - must survive\n")
    if kind == "shared":
        shutil.copy(objs["so1"], os.path.join(sb, "a.o"))
        args = ["a.o", "-shared", "-o", out]
    else:
        shutil.copy(objs["main"], os.path.join(sb, "main.o"))
        shutil.copy(objs["f1"], os.path.join(sb, "f1.o"))
        args = ["main.o", "f1.o", "-o", out]
    args += [x for x in (threads, fork) if x]
    before = snapshot(sb)
    res = run([tools.wild(), *args], cwd=sb, timeout=120)
    if res.timed_out:
        return ctx.inconclusive("watchdog")
    import time
    time.sleep(0.2)
    after = snapshot(sb)
    ctx.note(f"directory-at-output-path:{via}:{kind}:{'ok' if res.ok else 'failed'}")
    if before != after:
        gone = sorted(set(before) - set(after))
        new = sorted(set(after) - set(before))
        ctx.violation(f"output-path-is-a-directory:directory-moved-or-changed:{via}",
                      f"`-o {out}` where `{out}` is an existing {via}: the link (rc={res.rc}) removed/moved {gone[:3]} and created {new[:3]}; "
                      f"GNU ld reports 'Is a directory' and touches nothing", case=cid,
                      files={"sandbox-after": sb, "stderr.txt": res.errtext() or "(empty)", "cmd.txt": "wild " + " ".join(args)})
        return
    ctx.held(fingerprint=f"{cid}:{kind}:{via}:{threads}:{fork}", nontrivial=True)


PINNED = [
    dict(out="lib.so", kind="shared", mode="default", prior="present", threads="default", fork="fork", mmap="default", side=[], fail=False),
    dict(out="prog.exe", kind="exe", mode="--no-update-in-place", prior="present", threads="default", fork="fork", mmap="default",
         side=[], fail=False),
    dict(out="dir.d/lib.so.1", kind="shared", mode="default", prior="present", threads="default", fork="--no-fork", mmap="default",
         side=[], fail=False),
    dict(out="lib.so", kind="shared", mode="default", prior="present", threads="--threads=1", fork="fork", mmap="default", side=[],
         fail=False),
]


def main(ctx):
    if not STRACE:
        raise HarnessError("strace not installed")
    ctx.rule = ("link commands over 9 output names (0/1/2 extensions, dotted directories) x kinds x write modes x threads x "
                "fork x mmap x prior output state x side files, each in a sandbox with up to 15 decoy siblings; plus 2-3 "
                "concurrent links with colliding stems; a case counts when >=3 decoys were in place and the link ended as "
                "planned; distinct = the plan tuple")
    ctx.assumptions = ["strace -f sees every mutating file syscall of the link", "temporary names that neither existed before "
                       "nor remain afterwards are not judged", "the allowed set is: -o, --dependency-file, <out>.layout, the "
                       "trace file, --write-gc-stats, the WILD_SAVE_DIR tree"]
    tools.wild()
    objs = {"main": tools.assemble(ctx, MAIN_S), "bad": tools.assemble(ctx, BAD_S)}
    for k in (1, 2, 3):
        objs[f"f{k}"] = tools.assemble(ctx, F_S.format(v=k))
        objs[f"so{k}"] = tools.assemble(ctx, SO_S.format(v=k + 10))
    n = ctx.pick(70, 900)
    nc = ctx.pick(10, 100)
    jobs = [("p", k) for k in range(len(PINNED))] + [("c", i) for i in range(n)] + [("x", i) for i in range(nc)]
    jobs += [("d", k) for k in range(ctx.pick(5, 25))] + [("D", k) for k in range(5)] + [("S", k) for k in range(ctx.pick(12, 60))]
    if ctx.replay is not None:
        c = str(ctx.replay.get("case"))
        jobs = ([("p", int(c[6:]))] if c.startswith("pinned") else [("x", int(c[4:]))] if c.startswith("conc") else
                [("d", int(c[3:]))] if c.startswith("del") else [("D", int(c[3:]))] if c.startswith("dir") else [("S", int(c[8:]))] if c.startswith("savebase") else [("c", int(c))])

    def go(j):
        if j[0] == "p":
            one_case(ctx, objs, f"pinned{j[1]}", forced=PINNED[j[1]])
        elif j[0] == "x":
            concurrent_case(ctx, objs, j[1])
        elif j[0] == "d":
            deletion_case(ctx, objs, j[1])
        elif j[0] == "D":
            directory_case(ctx, objs, j[1])
        elif j[0] == "S":
            savebase_case(ctx, objs, j[1])
        else:
            one_case(ctx, objs, j[1])
    pmap(go, jobs)
