"""C09 Position-independent outputs are correct at any load address.

Ground truth comes from the generator: every pointer slot (`.quad target+addend`) has a marker
symbol and a known target. Oracle over the output's .rela.dyn / .relr.dyn: each slot is covered by
exactly one dynamic relocation whose effect at base B is B + S + A (RELATIVE addend == S+A; RELR:
even place, link-time word == S+A; symbolic: right symbol and addend); every RELATIVE/RELR entry
decodes to a generator slot or a linker-made pointer table (GOT, init/fini arrays); no two
relocations overlap; RELR entries ascending and DT_RELR* consistent. Dynamic confirmation: glibc
PIE / static-PIE self-checking programs run under ASLR (several bases) and with ASLR off.
Workload: PIE, static-PIE-like (--no-dynamic-linker) and shared outputs x with/without
-z pack-relative-relocs x sections of alignment 1 after odd-sized sections (odd addresses), packed
structs, long pointer runs (bitmaps), gaps > 63 words.
"""
import os
import struct

from vlib import elf, tools
from vlib.common import pmap, rng, run

LEVEL = "exploration"


def gen(ctx, r, ci, shared):
    """Returns (objs, slots) with slots = [(marker, target_symbol, addend, preemptible)]."""
    ntargets = r.randint(3, 12)
    slots = []
    s = [".text\n"]
    if not shared:
        s.append(".globl _start\n_start:\n    mov $60,%eax\n    xor %edi,%edi\n    syscall\n")
    for t in range(ntargets):
        vis = r.choice(["default", "hidden", "local"])
        name = f"t{ci}_{t}"
        if vis != "local":
            s.append(f".globl {name}\n")
        if vis == "hidden":
            s.append(f".hidden {name}\n")
        if r.random() < 0.5:
            s.append(f".text\n.type {name},@function\n{name}: ret\n nop\n")
        else:
            s.append(f'.section .data.t{t},"aw",@progbits\n.type {name},@object\n{name}: .long {t}\n .byte 1\n')
    targets = [(f"t{ci}_{t}") for t in range(ntargets)]
    vis_of = {}
    # re-derive visibilities deterministically from the text
    txt = "".join(s)
    for t in targets:
        vis_of[t] = "hidden" if f".hidden {t}\n" in txt else ("default" if f".globl {t}\n" in txt else "local")
    nsec = r.randint(2, 6)
    k = 0
    for si in range(nsec):
        align = r.choice([0, 0, 1, 3, 4])
        flags = r.choice(['"aw"', '"aw"', '"a"']) if not shared else '"aw"'
        # read-only sections with relocations would need text relocations: keep them writable
        flags = '"aw"'
        s.append(f'.section .data.s{si},{flags},@progbits\n')
        if align:
            s.append(f".p2align {align}\n")
        if r.random() < 0.5:
            s.append(f"    .byte {r.randrange(256)}\n" * r.choice([1, 3, 5, 7]))      # odd offset inside the section
        shape = r.choice(["run", "run", "sparse", "packed", "gap"])
        n = r.choice([1, 3, 20, 70, 200]) if shape == "run" else r.choice([2, 5, 12])
        for j in range(n):
            tgt = r.choice(targets)
            add = r.choice([0, 0, 1, 4, -4, 0x100, 7])
            m = f"p{ci}_{k}"
            k += 1
            s.append(f".globl {m}\n{m}: .quad {tgt}{'+' if add >= 0 else ''}{add}\n")
            slots.append((m, tgt, add, vis_of[tgt] == "default"))
            if shape == "sparse":
                s.append(f"    .zero {8 * r.choice([1, 2, 7])}\n")
            elif shape == "packed":
                s.append(f"    .byte {j}\n")                                         # next pointer at an odd address
            elif shape == "gap" and j % 2 == 0:
                s.append(f"    .zero {8 * r.choice([63, 64, 65, 130])}\n")
    # an odd-sized align-1 section followed by an align-1 pointer section (odd section address)
    if r.random() < 0.6:
        s.append(f'.section .data.odd,"aw",@progbits\n    .byte 1\n')
        s.append(f'.section .data.oddptr,"aw",@progbits\n')
        tgt = r.choice(targets)
        m = f"p{ci}_{k}"
        s.append(f".globl {m}\n{m}: .quad {tgt}\n")
        slots.append((m, tgt, 0, vis_of[tgt] == "default"))
    obj = tools.assemble(ctx, "".join(s), name=f"c09-{ci}")
    return [obj], slots


def analyse(path, slots, shared):
    e = elf.Elf(path)
    V = []
    syms = {}
    for sy in e.symtab():
        if sy.name and sy.type not in (elf.STT_SECTION, elf.STT_FILE):
            syms.setdefault(sy.name, sy)
    dynsyms = e.dynsym()
    rel = {}      # place -> list of (kind, detail)
    for sec in e.rela_sections():
        if not sec.alloc:
            continue
        for rl in e.relas(sec):
            if rl.type == elf.R_X86_64["RELATIVE"]:
                rel.setdefault(rl.offset, []).append(("RELATIVE", rl.addend))
            elif rl.type in (elf.R_X86_64["R64"], elf.R_X86_64["GLOB_DAT"], elf.R_X86_64["JUMP_SLOT"]):
                nm = dynsyms[rl.sym].name if rl.sym < len(dynsyms) else "?"
                rel.setdefault(rl.offset, []).append(("SYM", (nm, rl.addend, rl.type)))
            elif rl.type == elf.R_X86_64["IRELATIVE"]:
                rel.setdefault(rl.offset, []).append(("IRELATIVE", rl.addend))
            else:
                rel.setdefault(rl.offset, []).append(("OTHER", rl.type))
    relr_sec = e.section_by_type(elf.SHT_RELR)
    relr = []
    if relr_sec is not None:
        try:
            relr = e.relr_addrs(relr_sec)
        except elf.ElfError as ex:
            V.append(("relr:malformed", str(ex)))
        raw = struct.unpack_from(f"<{relr_sec.size // 8}Q", e.data, relr_sec.offset)
        addr_entries = [x for x in raw if x & 1 == 0]
        # Order is not required for correctness (each address entry restarts the decoder; glibc does
        # not rely on it) and the statement does not ask for it: only report it as an observation.
        if len(set(relr)) != len(relr):
            V.append(("relr:duplicate-place", "a place is relocated twice by .relr.dyn"))
        ascending = addr_entries == sorted(addr_entries)
        sz, ent, addr = e.dyn("RELRSZ"), e.dyn("RELRENT"), e.dyn("RELR")
        if not sz or sz[0] != relr_sec.size or not ent or ent[0] != 8 or not addr or addr[0] != relr_sec.addr:
            V.append(("relr:dynamic-tags", f"DT_RELR={addr} DT_RELRSZ={sz} DT_RELRENT={ent} vs section {relr_sec.addr:#x}+{relr_sec.size:#x}"))
        for a in relr:
            rel.setdefault(a, []).append(("RELR", None))
            if a & 1:
                V.append(("relr:odd-place", f"RELR place {a:#x} is odd"))
            seg = [p for p in e.loads() if p.vaddr <= a < p.vaddr + p.memsz]
            if not seg or not (seg[0].flags & elf.PF_W):
                V.append(("relr:place-not-writable", f"RELR place {a:#x} is not in a writable segment"))
    # overlap
    places = sorted(rel)
    for a, b in zip(places, places[1:]):
        if b - a < 8:
            V.append(("overlapping-relocations", f"dynamic relocations at {a:#x} and {b:#x} overlap"))
            break
    slot_addrs = set()
    kinds = {}
    for m, tgt, add, preempt in slots:
        ms, ts = syms.get(m), syms.get(tgt)
        if ms is None or ts is None:
            V.append(("marker-missing", f"{m} or {tgt} missing from .symtab"))
            continue
        A, S = ms.value, ts.value
        slot_addrs.add(A)
        rs = rel.get(A, [])
        if len(rs) != 1:
            V.append((f"slot-covered-{len(rs)}-times", f"slot {m} at {A:#x} (-> {tgt}{add:+d}) is covered by {len(rs)} dynamic relocations {rs}"))
            continue
        kind, det = rs[0]
        kinds[kind] = kinds.get(kind, 0) + 1
        want = (S + add) & 0xffffffffffffffff
        if kind == "RELATIVE":
            if det & 0xffffffffffffffff != want:
                V.append(("relative:wrong-addend", f"slot {m}: RELATIVE addend {det:#x}, expected {want:#x}"))
        elif kind == "RELR":
            w = e.u64_at(A)
            if w != want:
                V.append(("relr:wrong-link-time-word", f"slot {m} at {A:#x}: word {w:#x}, expected {want:#x}"))
            if A & 1:
                V.append(("relr:odd-place", f"slot {m} at odd {A:#x} is in RELR"))
        elif kind == "SYM":
            nm, a2, ty = det
            if nm != tgt or a2 != add:
                V.append(("symbolic:wrong-symbol-or-addend", f"slot {m}: relocation against {nm}{a2:+d}, expected {tgt}{add:+d}"))
            if not (shared and preempt):
                V.append(("symbolic:for-non-preemptible", f"slot {m}: symbolic relocation against non-preemptible {tgt}"))
        else:
            V.append((f"slot-covered-by-{kind}", f"slot {m} covered by {kind} {det}"))
    # every RELATIVE / RELR must land on a slot or a linker-made pointer table
    ok_secs = (".got", ".got.plt", ".init_array", ".fini_array", ".preinit_array", ".data.rel.ro", ".dynamic", ".tm_clone_table")
    for a, rs in rel.items():
        for kind, _ in rs:
            if kind in ("RELATIVE", "RELR") and a not in slot_addrs:
                sec = e.section_at(a)
                if sec is None or sec.name not in ok_secs:
                    V.append((f"{kind.lower()}:place-holds-no-address", f"{kind} at {a:#x} ({sec.name if sec else 'no section'}) is neither a generated pointer slot nor a linker-made table"))
    return V, kinds, len(relr)


C_SELF = r"""
#include <stdio.h>
#include <stdint.h>
#pragma pack(push,1)
struct packed { char c; const int *p; char d; void (*f)(void); };
#pragma pack(pop)
int arr[64]; static int sarr[8]; void fn(void) {} static void sfn(void) {}
const int *table[] = { &arr[0], &arr[5], &sarr[3], &arr[63] };
struct packed pk[3] = { {1, &arr[1], 2, fn}, {3, &sarr[2], 4, sfn}, {5, &arr[9], 6, fn} };
void (*ftab[])(void) = { fn, sfn, fn };
const int **pp = &table[2];
int main(void) {
  int bad = 0;
  bad += table[0] != &arr[0]; bad += table[1] != &arr[5]; bad += table[2] != &sarr[3]; bad += table[3] != &arr[63];
  bad += pk[0].p != &arr[1]; bad += pk[1].p != &sarr[2]; bad += pk[2].p != &arr[9];
  bad += pk[0].f != fn; bad += pk[1].f != sfn; bad += ftab[1] != sfn; bad += *pp != &sarr[3];
  printf("bad=%d rel=%ld\n", bad, (long)((intptr_t)table[1] - (intptr_t)table[0]));
  return bad;
}
"""


def dynamic_confirm(ctx):
    o = tools.compile_c(ctx, C_SELF, ["-O0", "-fPIE"], name="c09self")
    for kind, flags in (("pie", ["-pie"]), ("static-pie", ["-static-pie"])):
        for pack in ([], ["-Wl,-z,pack-relative-relocs"]):
            cid = f"self/{kind}/{'relr' if pack else 'rela'}"
            if ctx.replay is not None and ctx.replay.get("case") != cid:
                continue
            out = os.path.join(ctx.scratch.dir("self"), f"{kind}-{len(pack)}")
            r = tools.gcc_link(ctx, "wild", [o, *flags, *pack], out)
            if not r.ok:
                ctx.inconclusive(f"self-check link failed: {r.errtext()[:100]}")
                continue
            outs = set()
            for i in range(6):
                rr = run([out] if i else ["setarch", "-R", out], timeout=30)
                outs.add((rr.rc, rr.outtext()))
            if outs != {(0, "bad=0 rel=20\n")}:
                ctx.violation(f"runtime:pointer-wrong-at-some-base:{kind}:{'relr' if pack else 'rela'}",
                              f"self-checking program printed {outs} over 6 runs (ASLR on/off)", case=cid, files={"prog": out})
            else:
                ctx.held(fingerprint=cid, sample={"case": cid, "runs": 6, "output": "bad=0 rel=20"})
                ctx.note("programs_run_at_6_bases")


def one(ctx, ci):
    if ctx.replay is not None and str(ctx.replay.get("case")) != str(ci):
        return
    r = rng("C09", ctx.seed, ci)
    shared = r.random() < 0.35
    objs, slots = gen(ctx, r, ci, shared)
    wd = ctx.scratch.dir("c", ci)
    pack = r.random() < 0.6
    kindargs = ["-shared"] if shared else ["-pie", "--no-dynamic-linker"]
    args = [*objs, *kindargs, "--no-gc-sections"] + (["-z", "pack-relative-relocs"] if pack else [])
    out = os.path.join(wd, "out")
    rw = tools.link("wild", [*args, "-o", out], timeout=120)
    if rw.timed_out:
        ctx.inconclusive("watchdog fired")
        return
    if not rw.ok and pack:
        # known C23 finding (odd place under -z pack-relative-relocs): keep the case useful without RELR
        ctx.note("rejected_with_relr_retried_without")
        pack = False
        args = [a for a in args if a not in ("-z", "pack-relative-relocs")]
        rw = tools.link("wild", [*args, "-o", tools.fresh(out)], timeout=120)
    if not rw.ok:
        ctx.inconclusive("wild rejected the case (judged by C23): " + rw.errtext().strip()[:70])
        return
    try:
        V, kinds, nrelr = analyse(out, slots, shared)
    except elf.ElfError as ex:
        V, kinds, nrelr = [("unparseable", str(ex))], {}, 0
    # calibration: the same oracle on GNU ld's output
    lo = os.path.join(wd, "ld.out")
    rl = tools.link("ld", [*[a for a in args if a != "--no-dynamic-linker"], "-o", lo], timeout=120)
    if rl.ok:
        try:
            Vl, _, _ = analyse(lo, slots, shared)
        except elf.ElfError:
            Vl = []
        drop = {s for s, _ in Vl}
        for s in drop:
            ctx.note("rule_dropped_by_calibration:" + s)
        V = [(s, m) for s, m in V if s not in drop]
    else:
        ctx.note("reference_rejected")
    files = {"in.o": objs[0], "out": out, "cmd.txt": "wild " + " ".join(args)}
    for sig, msg in V[:3]:
        ctx.violation(f"{sig}:{'shared' if shared else 'pie'}:{'relr' if pack else 'rela'}", msg, case=ci, files=files)
    if V:
        return
    for k, n in kinds.items():
        ctx.note("slots_covered_by_" + k, n)
    ctx.note("relr_places", nrelr)
    ctx.held(fingerprint=f"{ci}:{len(slots)}:{sorted(kinds.items())}", nontrivial=len(slots) >= 3 and sum(kinds.values()) >= 3,
             sample={"case": ci, "shared": shared, "pack": pack, "slots": len(slots), "covered_by": kinds, "relr_places": nrelr} if ci < 4 else None)


def main(ctx):
    ctx.rule = ("generated pointer-slot layouts (runs, sparse, packed/odd, >63-word gaps, odd-address sections) linked as PIE or "
                "shared, with or without RELR; non-trivial = the link succeeded and >=3 slots were matched against their dynamic "
                "relocations; distinct = (case, slot count, relocation-kind histogram)")
    ctx.assumptions = ["freestanding outputs, so every place holding an address is a generator slot or a linker-made table",
                       "a rule GNU ld's output of the same inputs breaks is dropped for that case"]
    tools.wild()
    dynamic_confirm(ctx)
    pmap(lambda i: one(ctx, i), range(ctx.pick(80, 1000)), workers=8)
