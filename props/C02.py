"""C02 Symbol references bind to the definition the ELF rules select.

Oracle: an executable model of the statement (strong > largest common > weak; objects before shared
libraries; first in command-line order among equals; duplicate strong => error unless multiple
definitions are allowed; undefined non-weak => error; undefined weak => null) predicts, for every
file's view of every name, the unique tag it must observe, and whether the link must fail. The
prediction is calibrated on GNU ld and ld.lld (any disagreement => inconclusive); then wild is linked
twice (--threads=1, and --threads=16 with seeded schedule perturbation) and the running programs'
transcripts, accept/reject and the size of winning commons are compared.
"""
import os
import re

from vlib import elf, tools, xlink
from vlib.common import pmap, rng, sha

LEVEL = "exploration"
LIM = None
SELFTEST = os.environ.get("VERIF_SELFTEST", "")


def gen(r, quick):
    nunits = r.randint(2, 6 if quick else 8)
    has_libs = r.random() < 0.55
    has_ar = r.random() < 0.5
    units = []
    for i in range(nunits):
        c = r.random()
        kind = "obj"
        if c > 0.5 and has_ar:
            kind = "mem"
        elif c > 0.72 and has_libs:
            kind = "lib"
        units.append(dict(idx=i, kind=kind, forced=True, defs={}, refs={}, archive=r.randint(0, 1)))
    if not any(u["kind"] == "obj" for u in units):
        units[0]["kind"] = "obj"
    for u in units:
        if u["kind"] == "mem" and r.random() < 0.3:
            u["forced"] = False       # lazy member: takes part only if the archive rules load it
    nnames = r.randint(3, 6 if quick else 10)
    names = []
    tag = 100
    muldefs = r.random() < 0.15
    for n in range(nnames):
        nm = f"s{n}"
        typ = "func" if r.random() < 0.4 else "data"
        names.append(dict(name=nm, typ=typ))
        dup_ok = muldefs or r.random() < 0.06
        have_strong = False
        have_comdat = False
        for u in units:
            c = r.random()
            if c < 0.38:
                # definition
                if u["kind"] == "lib":
                    st = "strong" if r.random() < 0.75 else "weak"
                    vis = "protected" if r.random() < 0.1 else "default"
                else:
                    pool = ["strong", "weak", "weak", "comdat"] + (["common", "common", "unique"] if typ == "data" else [])
                    st = r.choice(pool)
                    # several COMDAT copies of one name are legal (first group kept); a COMDAT copy next
                    # to an ordinary strong definition is a duplicate and generated only rarely
                    mix_ok = dup_ok or r.random() < 0.08
                    if st in ("strong", "unique") and (have_strong or have_comdat) and not mix_ok:
                        st = "weak"
                    if st == "comdat" and have_strong and not mix_ok:
                        st = "weak"
                    if st in ("strong", "unique"):
                        have_strong = True
                    if st == "comdat":
                        have_comdat = True
                    vis = r.choice(["default"] * 8 + ["hidden", "protected"]) if st != "unique" else "default"
                tag += 1
                u["defs"][nm] = dict(st=st, vis=vis, tag=tag, size=r.choice([1, 2, 4, 8, 16]) if st == "common" else 1)
            elif c < 0.75:
                vis = "default" if u["kind"] == "lib" or r.random() < 0.9 else r.choice(["hidden", "protected"])
                u["refs"][nm] = dict(weak=r.random() < 0.15, vis=vis)
    libs = [u for u in units if u["kind"] == "lib"]
    kind = r.choice(["nopie", "pie"]) if libs else r.choice(["nopie", "pie", "static"])
    # command line: objects and libs shuffled with main; archives inserted at random positions after
    # main (GNU ld only extracts members for references it has already seen)
    order = [u["idx"] for u in units if u["kind"] != "mem"] + ["M"]
    r.shuffle(order)
    for a in (0, 1):
        if any(u["kind"] == "mem" and u["archive"] == a for u in units):
            pos = r.randint(order.index("M") + 1, len(order))
            order.insert(pos, f"A{a}")
    return dict(units=units, names=names, kind=kind, order=order, muldefs=muldefs,
                muldefs_opt=r.choice(["-Wl,--allow-multiple-definition", "-Wl,-z,muldefs"]), thin=r.random() < 0.3)


VIS = {"default": "", "hidden": '__attribute__((visibility("hidden"))) ', "protected": '__attribute__((visibility("protected"))) '}


def unit_src(case, u):
    typ = {n["name"]: n["typ"] for n in case["names"]}
    t = "#include <stdio.h>\n"
    lines = []
    for nm, d in sorted(u["defs"].items()):
        v = VIS[d["vis"]]
        if d["st"] == "comdat":
            # strong global definition inside a COMDAT group named after the symbol
            vd = "" if d["vis"] == "default" else f".{d['vis']} {nm}\\n"
            if typ[nm] == "func":
                t += (f'__asm__(".pushsection .text.{nm},\\"axG\\",@progbits,{nm},comdat\\n.globl {nm}\\n{vd}.type {nm},@function\\n'
                      f'{nm}: movl ${d["tag"]},%eax\\n ret\\n.size {nm},.-{nm}\\n.popsection");\nextern {v}int {nm}(void);\n')
                lines.append(f'  printf("u{u["idx"]}:{nm}=%d\\n", {nm}());\n')
            else:
                t += (f'__asm__(".pushsection .data.{nm},\\"awG\\",@progbits,{nm},comdat\\n.globl {nm}\\n{vd}.type {nm},@object\\n.size {nm},4\\n'
                      f'.balign 4\\n{nm}: .long {d["tag"]}\\n.popsection");\nextern {v}int {nm}[];\n')
                lines.append(f'  printf("u{u["idx"]}:{nm}=%d\\n", {nm}[0]);\n')
            continue
        if typ[nm] == "func":
            w = "__attribute__((weak)) " if d["st"] == "weak" else ""
            t += f"{v}{w}int {nm}(void) {{ return {d['tag']}; }}\n"
            lines.append(f'  printf("u{u["idx"]}:{nm}=%d\\n", {nm}());\n')
            continue
        if d["st"] == "strong":
            t += f"{v}int {nm}[1] = {{ {d['tag']} }};\n"
        elif d["st"] == "weak":
            t += f"{v}__attribute__((weak)) int {nm}[1] = {{ {d['tag']} }};\n"
        elif d["st"] == "common":
            t += f"{v}int {nm}[{d['size']}];\n"
        else:
            t += (f'__asm__(".pushsection .data\\n.globl {nm}\\n.type {nm},@gnu_unique_object\\n.size {nm},4\\n.balign 4\\n'
                  f'{nm}: .long {d["tag"]}\\n.popsection");\nextern int {nm}[];\n')
        lines.append(f'  printf("u{u["idx"]}:{nm}=%d\\n", {nm}[0]);\n')
    for nm, d in sorted(u["refs"].items()):
        v = VIS[d["vis"]]
        w = " __attribute__((weak))" if d["weak"] else ""
        if typ[nm] == "func":
            t += f"extern {v}int {nm}(void){w};\n"
            e = f"({nm} ? {nm}() : -1)" if d["weak"] else f"{nm}()"
        else:
            t += f"extern {v}int {nm}[]{w};\n"
            e = f"({nm} ? {nm}[0] : -1)" if d["weak"] else f"{nm}[0]"
        lines.append(f'  printf("u{u["idx"]}:{nm}=%d\\n", {e});\n')
    if u["kind"] == "mem":
        t += f'__attribute__((constructor)) static void loaded_u{u["idx"]}(void) {{ printf("loaded:u{u["idx"]}=1\\n"); }}\n'
    t += f"void view_u{u['idx']}(void) {{\n" + "".join(lines) + "}\n"
    return t


def cmd_positions(case):
    pos = {}
    p = 0
    for tok in case["order"]:
        if tok == "M":
            continue
        if isinstance(tok, str) and tok.startswith("A"):
            for u in case["units"]:
                if u["kind"] == "mem" and u["archive"] == int(tok[1]):
                    pos[u["idx"]] = p
                    p += 1
        else:
            pos[tok] = p
            p += 1
    return pos


def model(case):
    """Returns dict(lines={label: value}, loaded=set, sizes={name: size}) or ('reject', reason, name)."""
    units = case["units"]
    pos = cmd_positions(case)
    libs = sorted([u for u in units if u["kind"] == "lib"], key=lambda u: pos[u["idx"]])
    loaded = {u["idx"] for u in units if u["kind"] == "obj" or (u["kind"] == "mem" and u["forced"])}
    # lazy members: loaded when they define a name that a loaded unit references non-weakly and that no
    # loaded unit defines (fixpoint; order-independent approximation, calibrated on ld and lld)
    changed = True
    while changed:
        changed = False
        cur = [u for u in units if u["idx"] in loaded]
        defined = {nm for u in cur for nm in u["defs"]}
        wanted = {nm for u in cur for nm, d in u["refs"].items() if not d["weak"]} - defined
        for u in sorted(units, key=lambda u: pos.get(u["idx"], 0)):
            if u["kind"] == "mem" and u["idx"] not in loaded and wanted & set(u["defs"]):
                loaded.add(u["idx"])
                changed = True
                break
    exe = sorted([u for u in units if u["idx"] in loaded], key=lambda u: pos[u["idx"]])
    lines = {}
    sizes = {}
    win = {}
    for n in case["names"]:
        nm = n["name"]
        defs = [(u, u["defs"][nm]) for u in exe if nm in u["defs"]]
        strong = [x for x in defs if x[1]["st"] in ("strong", "unique", "comdat")]
        commons = [x for x in defs if x[1]["st"] == "common"]
        weaks = [x for x in defs if x[1]["st"] == "weak"]
        if len(strong) > 1 and not case["muldefs"] and not all(x[1]["st"] == "comdat" for x in strong):
            return ("reject", "duplicate", nm)
        w = None
        if strong:
            w = ("exe", strong[0][1]["tag"], strong[0][1]["st"])
        elif commons:
            w = ("exe", 0, "common")
            sizes[nm] = 4 * max(c[1]["size"] for c in commons)
        elif weaks:
            w = ("exe", weaks[0][1]["tag"], "weak")
        else:
            for l in libs:
                if nm in l["defs"]:
                    w = ("lib", l["defs"][nm]["tag"], "shared-" + l["defs"][nm]["st"])
                    break
        win[nm] = w
        # visibility of the merged symbol in the executable
        viss = [d["vis"] for u in exe for d in (u["defs"].get(nm), u["refs"].get(nm)) if d]
        hidden = any(v in ("hidden",) for v in viss)
        nondefault = any(v != "default" for v in viss)
        for u in exe:
            for src in ("defs", "refs"):
                if nm not in u[src]:
                    continue
                label = f"u{u['idx']}:{nm}"
                if w is None:
                    if src == "refs" and u["refs"][nm]["weak"]:
                        lines[label] = -1
                        continue
                    return ("reject", "undefined", nm)
                if w[0] == "lib" and nondefault:
                    return ("reject", "nondefault-visibility-reference-to-shared", nm)
                lines[label] = w[1]
        for l in libs:
            if nm not in l["defs"] and nm not in l["refs"]:
                continue
            label = f"u{l['idx']}:{nm}"
            if nm in l["defs"] and l["defs"][nm]["vis"] == "protected":
                lines[label] = l["defs"][nm]["tag"]
                continue
            if w is not None and w[0] == "exe" and not hidden:
                lines[label] = w[1]
                continue
            t = next((x["defs"][nm]["tag"] for x in libs if nm in x["defs"]), None)
            if t is None:
                return ("reject", "undefined-in-shared-library", nm)
            lines[label] = t
    for u in units:
        if u["kind"] == "mem" and u["idx"] in loaded:
            lines[f"loaded:u{u['idx']}"] = 1
    called = {u["idx"] for u in units if u["kind"] != "mem" or u["forced"]}
    lines = {k: v for k, v in lines.items() if k.startswith("loaded:") or int(k[1:k.index(":")]) in called}
    return dict(lines=lines, loaded=loaded, sizes=sizes, win=win)


def build(ctx, case, d, rec):
    kind = case["kind"]
    exe_flags = ("-O0", "-fcommon") + (("-fPIE",) if kind == "pie" else ("-fno-pic",))
    objs, libpaths = {}, {}
    for u in case["units"]:
        if u["kind"] == "lib":
            o = rec.obj(f"u{u['idx']}", unit_src(case, u), ("-O0", "-fPIC"))
            so = rec.name(os.path.join(d, f"libu{u['idx']}.so"), f"libu{u['idx']}.so")
            res = rec.link("ld", ["-shared", o, "-Wl,-soname," + os.path.basename(so)], so)
            if not res.ok:
                return None
            libpaths[u["idx"]] = so
        else:
            objs[u["idx"]] = rec.obj(f"u{u['idx']}", unit_src(case, u), exe_flags)
    calls = decls = ""
    for u in case["units"]:
        if u["kind"] == "mem" and not u["forced"]:
            continue
        decls += f"void view_u{u['idx']}(void);\n"
        calls += f"  view_u{u['idx']}();\n"
    mainobj = rec.obj("main", "#include <stdio.h>\n" + decls + "int main(void) {\n" + calls + '  printf("end\\n");\n  return 0;\n}\n', exe_flags)
    args = {"pie": ["-pie"], "nopie": ["-no-pie"], "static": ["-static"]}[kind]
    args += ["-Wl,--no-as-needed", "-Wl,--no-gc-sections"]
    if case["muldefs"]:
        args.append(case["muldefs_opt"])
    for tok in case["order"]:
        if tok == "M":
            args.append(mainobj)
        elif isinstance(tok, str):
            a = int(tok[1])
            ms = [objs[u["idx"]] for u in case["units"] if u["kind"] == "mem" and u["archive"] == a]
            args.append(rec.archive(f"libk{a}.a", ms, thin=case["thin"]))
        elif tok in objs:
            args.append(objs[tok])
        else:
            args.append(libpaths[tok])
    return args


def parse(text):
    out = {}
    for line in text.splitlines():
        m = re.match(r"^((?:u\d+|loaded):\w+)=(-?\d+)$", line)
        if m:
            out[m.group(1)] = int(m.group(2))
    return out, text.rstrip().endswith("end")


def reject_reason(err):
    e = err.lower()
    if "multiple definition" in e or "duplicate symbol" in e or ", defined in " in e:
        return "duplicate"
    if "undefined reference" in e or "undefined symbol" in e:
        return "undefined"
    if "hidden symbol" in e or "protected symbol" in e or "is referenced by dso" in e:
        return "visibility"
    return "other"


def common_sizes(path, names):
    try:
        e = elf.Elf(path)
    except Exception:
        return {}
    out = {}
    for sy in e.symtab():
        if sy.name in names and sy.defined and sy.type in (elf.STT_OBJECT, elf.STT_COMMON, elf.STT_NOTYPE):
            out.setdefault(sy.name, sy.size)
    return out


def name_kinds(case, nm, loaded):
    ks = set()
    for u in case["units"]:
        if nm in u["defs"] and (u["kind"] != "mem" or u["idx"] in loaded):
            d = u["defs"][nm]
            ks.add(("shared-" if u["kind"] == "lib" else "") + d["st"] + ("" if d["vis"] == "default" else f"({d['vis']})"))
    return "+".join(sorted(ks)) or "undefined"


def tag_kind(case, t, nm=None):
    if t == -1:
        return "null"
    if t == 0:
        return "common"
    for u in case["units"]:
        for k, d in u["defs"].items():
            if d["tag"] == t:
                return ("shared-" if u["kind"] == "lib" else "") + d["st"]
    return "garbage"


def tag_unit(case, t):
    for u in case["units"]:
        for k, d in u["defs"].items():
            if d["tag"] == t:
                return u
    return None


def one_case(ctx, ci, forced=None):
    r = rng("C02", ctx.seed, ci)
    case = forced or gen(r, ctx.quick)
    d = ctx.scratch.dir("case", ci)
    rec = xlink.Recipe(ctx, d)
    args = build(ctx, case, d, rec)
    if args is None:
        ctx.inconclusive("GNU ld could not build an input shared library")
        return
    exp = model(case)
    libdirs = [d]
    has_ar = any(u["kind"] == "mem" for u in case["units"])
    lazy = any(u["kind"] == "mem" and not u["forced"] for u in case["units"])
    fp = sha(repr((case["kind"], case["order"], case["muldefs"], [(u["kind"], u["forced"], sorted((k, v["st"], v["vis"]) for k, v in u["defs"].items()),
                                                                 sorted((k, v["weak"], v["vis"]) for k, v in u["refs"].items())) for u in case["units"]])))[:16]
    outs = {}
    results = {}
    for which in ("ld", "lld"):
        out = os.path.join(d, which + ".out")
        res = rec.link(which, args, out)
        if res.timed_out:
            ctx.inconclusive("link watchdog")
            return
        if xlink.linked_ok(res, out):
            rr = xlink.runprog(out, libdirs=libdirs)
            t, end = parse(rr.outtext())
            results[which] = ("ok", t if end and rr.rc == 0 else None, res)
        else:
            results[which] = ("reject", reject_reason(res.errtext()), res)
        outs[which] = out
    ld, lld = results["ld"], results["lld"]
    # ---- calibration -----------------------------------------------------------------------------
    if isinstance(exp, tuple) and exp[1] == "undefined-in-shared-library":
        ctx.inconclusive("excluded: the only undefined reference comes from a shared library (statement is about the executable's objects)")
        return
    if isinstance(exp, tuple):
        if ld[0] != "reject":
            ctx.inconclusive(f"model predicts rejection ({exp[1]}) but GNU ld links")
            return
        if lld[0] != "reject":
            ctx.inconclusive(f"model and GNU ld reject ({exp[1]}) but lld links")
            return
    else:
        if ld[0] != "ok":
            ctx.inconclusive(f"model predicts success but GNU ld rejects ({ld[1]})")
            return
        if ld[1] != exp["lines"]:
            ctx.inconclusive("model disagrees with the GNU ld program" + (" (lazy archive members)" if lazy else ""))
            if os.environ.get("C02_DEBUG"):
                import sys
                print("DBG", ci, {k: (exp["lines"].get(k), (ld[1] or {}).get(k)) for k in set(exp["lines"]) | set(ld[1] or {})
                                  if exp["lines"].get(k) != (ld[1] or {}).get(k)}, case["order"],
                      [(u["idx"], u["kind"], u["forced"], u["archive"], u["defs"], u["refs"]) for u in case["units"]], file=sys.stderr)
            return
        if lld[0] != "ok" or lld[1] != exp["lines"]:
            ctx.inconclusive("lld disagrees with the model and GNU ld")
            return
    # ---- wild under two schedules ------------------------------------------------------------------
    scheds = [("t1", ["-Wl,--threads=1"], None), ("t16", ["-Wl,--threads=16"], {"WILD_VERIF_SCHED": str(r.randint(1, 10 ** 6))})]
    for nm in case["names"]:
        ctx.note("name-kinds:" + name_kinds(case, nm["name"], exp["loaded"] if isinstance(exp, dict) else set(range(99))))
    ctx.note("output:" + case["kind"])
    bad = False
    for tag, extra, env in scheds:
        out = os.path.join(d, f"wild.{tag}.out")
        wargs = list(args)
        if SELFTEST == "muldefs":
            wargs.append("-Wl,--allow-multiple-definition")
        if SELFTEST == "reverse":
            fixed = [a for a in wargs if not a.endswith((".o", ".a", ".so"))]
            wargs = fixed + [a for a in wargs if a.endswith((".o", ".a", ".so"))][::-1]
        res = rec.link("wild", wargs + extra, out, extra_env=env)
        if res.timed_out:
            ctx.inconclusive("link watchdog")
            return
        ok = xlink.linked_ok(res, out)
        if isinstance(exp, tuple):
            if ok and exp[1] == "nondefault-visibility-reference-to-shared":
                # ld/lld reject a hidden/protected reference that only a shared library satisfies; the property's
                # statement does not list that rule, so wild accepting such a link is reported, not judged
                ctx.note("info:wild-links-nondefault-visibility-reference-to-shared")
                ctx.inconclusive("excluded: rejection by visibility merging is not part of the statement")
                return
            if ok:
                rr = xlink.runprog(out, libdirs=libdirs)
                nk = name_kinds(case, exp[2], set(range(99)))
                if exp[1] == "duplicate" and "unique" in nk:
                    nk = "gnu-unique-not-treated-as-strong"
                LIM.violation(f"accept:{exp[1]}:defs={nk}:wild-links",
                              f"model, GNU ld and lld reject the link ({exp[1]} of {exp[2]}) but wild ({tag}) links it; program prints "
                              f"{rr.outtext()[:200]!r}", case=ci, files=rec.files(), info={"ld_stderr": ld[2].errtext()[:600]})
                bad = True
                break
            continue
        if not ok:
            err = res.errtext().strip()
            LIM.violation(f"reject:{reject_reason(err)}:wild-rejects-valid-link", f"wild ({tag}) rejects a link the model, GNU ld and lld accept: "
                          f"{err[:300]}", case=ci, files=rec.files())
            bad = True
            break
        rr = xlink.runprog(out, libdirs=libdirs)
        if rr.timed_out:
            ctx.inconclusive("run watchdog")
            return
        t, end = parse(rr.outtext())
        if not end or rr.rc != 0:
            LIM.violation("run:wild-program-crashes", f"wild ({tag}) program exits rc={rr.rc} without finishing: {rr.errtext()[:200]}",
                          case=ci, files=rec.files(), info={"stdout": rr.outtext()[:500]})
            bad = True
            break
        if t != exp["lines"]:
            sigs = {}
            for label in sorted(set(t) | set(exp["lines"])):
                a, b = exp["lines"].get(label), t.get(label)
                if a == b:
                    continue
                if label.startswith("loaded:"):
                    sigs.setdefault(f"archive:lazy-member:{'not-loaded' if b is None else 'loaded-unexpectedly'}", label)
                    continue
                ui = int(label[1:label.index(":")])
                nm = label.split(":")[1]
                u = case["units"][ui]
                typ = next(n["typ"] for n in case["names"] if n["name"] == nm)
                ka = tag_kind(case, a, nm) if a is not None else "no-line"
                kb = tag_kind(case, b, nm) if b is not None else "no-line"
                ref = "own-def" if nm in u["defs"] else ("weak" if u["refs"][nm]["weak"] else "strong")
                sig = f"binding:ref={ref}:expected={ka}:wild={kb}"
                if ka == "unique":      # one family: STB_GNU_UNIQUE ranked like weak instead of like strong
                    sig = f"binding:gnu-unique-ranked-as-weak:expected=unique:wild={kb}"
                pos = cmd_positions(case)
                wu = tag_unit(case, a) if a not in (None, 0, -1) else None
                if ka != "unique" and wu is not None and wu["kind"] != "lib" and any(
                        x["kind"] == "mem" and x["idx"] not in exp["loaded"] and nm in x["defs"] and pos[x["idx"]] < pos[wu["idx"]]
                        for x in case["units"]):
                    # one family: wild extracts (or binds to) an archive member that precedes the objects defining /
                    # referencing the name, which ld and lld leave unloaded
                    bu = tag_unit(case, b) if b not in (None, 0, -1) else None
                    wk = ("definition-of-member-ld-leaves-unloaded" if bu is not None and bu["kind"] == "mem" and bu["idx"] not in exp["loaded"]
                          else kb)
                    sig = f"binding:ref={ref}:wild={wk}:earlier-unloaded-archive-member-defines-name"
                if u["kind"] == "lib" and ka != "unique":
                    sig += ":viewer=shared-library"
                    exe_units = [x for x in case["units"] if x["idx"] in exp["loaded"]]
                    hid_def = any(nm in x["defs"] and x["defs"][nm]["vis"] == "hidden" for x in exe_units)
                    hid_ref = any(nm in x["refs"] and x["refs"][nm]["vis"] == "hidden" for x in exe_units)
                    if hid_ref and not hid_def:
                        # one family (C31 knows its root): a hidden *reference* does not make the executable's symbol
                        # hidden, so the symbol is exported and libraries bind to it
                        sig = "binding:viewer=shared-library:exe-symbol-hidden-only-by-a-reference:wild-exports-it"
                sigs.setdefault(sig, label)
            for sig, label in sigs.items():
                LIM.violation(sig, f"{label}: model/ld/lld observe {exp['lines'].get(label)}, wild ({tag}) program observes {t.get(label)}",
                              case=ci, files=rec.files(), info={"expected": exp["lines"], "wild": t, "schedule": tag})
            bad = True
            break
        # winning commons keep the largest size
        if exp["sizes"]:
            sl, sw = common_sizes(outs["ld"], exp["sizes"]), common_sizes(out, exp["sizes"])
            for nm, sz in exp["sizes"].items():
                if sl.get(nm) == sz and sw.get(nm) != sz:
                    LIM.violation("size:common:not-largest", f"{nm}: largest common is {sz} bytes (GNU ld symbol size {sl.get(nm)}), wild symbol size "
                                  f"{sw.get(nm)}", case=ci, files=rec.files())
                    bad = True
                elif sl.get(nm) == sz:
                    ctx.note("common-size-checked")
    if bad:
        return
    if isinstance(exp, tuple):
        ctx.note("rejections-agreed:" + exp[1])
        ctx.held(fingerprint="rej:" + fp, nontrivial=True)
        return
    contested = 0
    for n in case["names"]:
        ks = name_kinds(case, n["name"], exp["loaded"])
        if "+" in ks:
            contested += 1
    ctx.held(fingerprint=fp, nontrivial=contested >= 1 and len(exp["lines"]) >= 4,
             sample={"kind": case["kind"], "lines": dict(list(exp["lines"].items())[:8])} if ci in (0, 1) else None)


def pinned_cases():
    def unit(i, kind="obj", defs=None, refs=None, forced=True):
        return dict(idx=i, kind=kind, forced=forced, defs=defs or {}, refs=refs or {}, archive=0)
    D = lambda st, tag, vis="default", size=1: dict(st=st, vis=vis, tag=tag, size=size)
    R = dict(weak=False, vis="default")
    base = dict(kind="nopie", muldefs=False, muldefs_opt="-Wl,-z,muldefs", thin=False, names=[dict(name="s0", typ="data")])
    return [
        dict(base, order=[0, 1, "M"], units=[unit(0, defs={"s0": D("weak", 101)}), unit(1, defs={"s0": D("unique", 102)})]),
        dict(base, order=[0, 1, "M"], units=[unit(0, defs={"s0": D("common", 0, size=4)}), unit(1, defs={"s0": D("unique", 102)})]),
        dict(base, order=[0, 1, "M"], units=[unit(0, defs={"s0": D("unique", 101)}), unit(1, defs={"s0": D("unique", 102)})]),
        dict(base, order=[0, 1, 2, "M"], units=[unit(0, defs={"s0": D("weak", 101)}), unit(1, defs={"s0": D("common", 0, size=2)}),
                                                 unit(2, defs={"s0": D("common", 0, size=8)}, refs={})]),
        # a weak reference must see the definition in a loaded member even when an earlier, unloaded member defines the name too
        dict(base, names=[dict(name="s0", typ="func"), dict(name="s1", typ="func")], order=[2, "M", "A0", "A1"], units=[
            dict(unit(0, kind="mem", defs={"s0": D("strong", 101)}, forced=False), archive=0),
            dict(unit(1, kind="mem", defs={"s0": D("strong", 102), "s1": D("strong", 103)}, forced=False), archive=1),
            unit(2, refs={"s0": dict(weak=True, vis="default"), "s1": R})]),
        # COMDAT copies: several are fine (first kept); one next to an ordinary strong definition is a duplicate
        dict(base, order=[0, 1, "M"], units=[unit(0, defs={"s0": D("comdat", 101)}), unit(1, defs={"s0": D("comdat", 102)})]),
        dict(base, order=[0, 1, "M"], units=[unit(0, defs={"s0": D("comdat", 101)}), unit(1, defs={"s0": D("strong", 102)})]),
        dict(base, order=[0, 1, "M"], units=[unit(0, defs={"s0": D("strong", 101)}), unit(1, defs={"s0": D("comdat", 102)})]),
        dict(base, names=[dict(name="s0", typ="func")], order=[0, 1, 2, "M"],
             units=[unit(0, defs={"s0": D("comdat", 101)}), unit(1, defs={"s0": D("comdat", 102)}), unit(2, defs={"s0": D("strong", 103)})]),
        dict(base, names=[dict(name="s0", typ="func")], order=[0, 1, 2, "M"],
             units=[unit(0, defs={"s0": D("weak", 101)}), unit(1, defs={"s0": D("comdat", 102)}), unit(2, refs={"s0": R})]),
    ]


def main(ctx):
    global LIM
    LIM = xlink.SigLimiter(ctx, 2)
    ctx.rule = ("random link lines of 2-8 files (objects, archive members forced or lazy, shared libraries built by GNU ld) defining/"
                "referencing 3-10 names with random strength (strong, strong in a COMDAT group, weak, common(size), GNU-unique), visibility and kind, in random "
                "command-line order, with/without --allow-multiple-definition; a case counts when model, GNU ld and lld agree and at "
                "least one name has competing definitions (or the link is rejected by all three)")
    ctx.assumptions = ["GNU ld 2.40 and ld.lld 14 calibrate the model; any disagreement is inconclusive",
                       "GNU-unique outside COMDAT is treated as strong, as both reference linkers do"]
    tools.wild()
    n = ctx.pick(60, 500)
    jobs = [f"pinned{i}" for i in range(len(pinned_cases()))] + list(range(n))
    if ctx.replay is not None:
        c = str(ctx.replay["case"])
        jobs = [c if c.startswith("pinned") else int(c)]

    def go(j):
        if isinstance(j, str):
            one_case(ctx, j, forced=pinned_cases()[int(j[6:])])
        else:
            one_case(ctx, j)
    pmap(go, jobs, workers=12)
