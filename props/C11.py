"""C11 AArch64 long branches reach their intended target.

Oracle: for every generated branch site (marker symbol at the instruction, known target symbol)
the instruction in wild's output is decoded and its control flow followed through at most one
thunk / PLT stub (ADRP+ADD+BR, ADRP+LDR+BR, LDR-literal+BR decoded): it must arrive at the address
of the target symbol (or, for PLT calls, at a GOT slot bound by a JUMP_SLOT/GLOB_DAT relocation to
that symbol). A link that fails with a range error while ld.lld links the same inputs is a
violation. No AArch64 code can be executed here (no emulator): static decode only.
Workload: clang-assembled objects with multi-MiB text so the image exceeds the +-128 MiB branch
range; calls forward, backward, to both ends, to 64 KiB-aligned callees, conditional branches to
neighbouring sections, PLT targets in PIE links; static and PIE.
"""
import os
import shutil

from vlib import elf, tools
from vlib.common import pmap, rng
from vlib.mon import a64flow

LEVEL = "exploration"
T = "aarch64-linux-gnu"


CLASSES = ["small-functions", "one-large-straddler", "large-functions", "mixed-alignment"]


def gen(ctx, r, ci, pie, cls):
    """cls: small-functions (1-1.5 MiB per function, one alignment class: the shape wild's thunk design
    targets), large-functions (2-13 MiB per function), mixed-alignment (functions of several alignment
    classes, each class holding > 128 MiB in total), one-large-straddler (1 MiB functions and a single
    3.25-3.75 MiB function with call sites at both of its ends, placed so that it straddles the point
    where the first thunk block stops being reachable)."""
    total_mib = r.choice([200, 220]) if ctx.quick else r.choice([136, 200, 300, 520])
    if cls == "small-functions":
        # strictly below the 2 MiB slack wild reserves per thunk block (thunks.rs
        # MAXIMUM_THUNK_BYTES_PER_BLOCK); 2 MiB and more belongs to the large-functions class
        per = r.choice([2, 3]) << 19
    elif cls == "one-large-straddler":
        per = 1 << 20
        total_mib = r.choice([290, 300])
    elif cls == "large-functions":
        per = r.choice([2, 5, 8, 13]) << 20
    else:
        per = r.choice([1, 2]) << 20
        total_mib = max(total_mib, 280)
    n = total_mib * (1 << 20) // per
    big_at, big_size = (126, r.choice([13, 14, 15]) << 18) if cls == "one-large-straddler" else (None, 0)
    sites = []   # (marker, target, kind)
    ext = [f"ext{ci}_{k}" for k in range(3)] if pie else []
    srcs = []
    for i in range(n):
        s = []
        al = 2 if cls != "mixed-alignment" else r.choice([2, 2, 4, 12, 16])
        s.append(f'.section .text.f{i},"ax",@progbits\n.p2align {al}\n.globl f{ci}_{i}\n.type f{ci}_{i},%function\nf{ci}_{i}:\n')
        k = 0
        targets = [0, n - 1, r.randrange(n), r.randrange(n), (i + n // 2) % n]
        for t in targets:
            op = r.choice(["bl", "bl", "b"])
            m = f"cs{ci}_{i}_{k}"
            k += 1
            s.append(f".globl {m}\n{m}: {op} f{ci}_{t}\n")
            sites.append((m, f"f{ci}_{t}", op))
        if ext and r.random() < 0.5:
            e = r.choice(ext)
            m = f"cs{ci}_{i}_{k}"
            k += 1
            s.append(f".globl {m}\n{m}: bl {e}\n")
            sites.append((m, e, "plt"))
        # conditional branch to a global symbol later in the same section (a cross-section
        # conditional branch is not something a thunk can serve: wild groups sections by alignment
        # class, so a 1 MiB-range branch between sections of one object is outside this property)
        m = f"cs{ci}_{i}_{k}"
        s.append(f".globl {m}\n{m}: {r.choice(['b.eq', 'cbz x1,', 'tbz x2, #3,'])} near{ci}_{i}\n")
        sites.append((m, f"near{ci}_{i}", "cond"))
        s.append("    ret\n    nop\n")
        s.append(f'.globl near{ci}_{i}\n.type near{ci}_{i},%function\nnear{ci}_{i}: ret\n')
        # the filler lives in the function's own section: wild groups sections by alignment class, so
        # separate filler sections would not separate the functions
        s.append(f'.globl fill{ci}_{i}\nfill{ci}_{i}:\n    .space {(big_size if i == big_at else per) - 64}\n')
        if i == big_at:
            # call sites at the far end of the large function too
            s.append(f".globl tail{ci}_{i}\n.type tail{ci}_{i},%function\ntail{ci}_{i}:\n")
            for t in (0, n - 1, 1, n // 2):
                m = f"cs{ci}_{i}_e{t}"
                s.append(f".globl {m}\n{m}: bl f{ci}_{t}\n")
                sites.append((m, f"f{ci}_{t}", "bl"))
            s.append("    ret\n")
        if i == 0:
            s.append(f'.section .text.start,"ax",@progbits\n.p2align 2\n.globl _start\n_start: bl f{ci}_0\n    ret\n')
        srcs.append("".join(s))
    objs = pmap(lambda t: tools.assemble(ctx, t[1], name=f"c11-{ci}-{t[0]}", target=T), list(enumerate(srcs)), workers=8)
    return objs, sites, ext


def build_ext(ctx, ci, ext, wd):
    src = "".join(f".globl {e}\n.type {e},%function\n{e}: ret\n" for e in ext)
    o = tools.assemble(ctx, src, name=f"c11-ext-{ci}", target=T)
    so = os.path.join(wd, "libext.so")
    r = tools.link("lld", ["-m", "aarch64linux", "-shared", o, "-o", so, "-soname=libext.so"])
    return so if r.ok else None


def analyse(path, sites):
    e = elf.Elf(path)
    syms = {}
    for sy in e.symtab():
        if sy.name:
            syms.setdefault(sy.name, sy)
    dyn = e.dynsym()
    slot_binding = {}
    for sec in e.rela_sections():
        if sec.alloc:
            for rl in e.relas(sec):
                if rl.sym and rl.sym < len(dyn):
                    slot_binding[rl.offset] = dyn[rl.sym].name
    V = []
    stats = {"direct": 0, "via_thunk": 0, "via_plt": 0, "cond": 0}
    for m, tgt, kind in sites:
        ms = syms.get(m)
        if ms is None:
            V.append(("marker-missing", f"{m} missing"))
            continue
        insn = e.u32_at(ms.value)
        bt = a64flow.branch_target(insn, ms.value) if insn is not None else None
        if bt is None:
            V.append((f"not-a-branch:{kind}", f"site {m} at {ms.value:#x} holds {insn:#x}, not a branch"))
            continue
        _, dest = bt
        if kind == "plt":
            fin = a64flow.follow_stub(e, dest)
            if isinstance(fin, tuple) and fin[0] == "slot":
                bound = slot_binding.get(fin[1])
                if bound != tgt:
                    V.append(("plt:slot-bound-to-wrong-symbol", f"site {m}: PLT slot {fin[1]:#x} bound to {bound}, expected {tgt}"))
                else:
                    stats["via_plt"] += 1
            else:
                # maybe a thunk to the PLT stub
                fin2 = a64flow.follow_stub(e, fin) if isinstance(fin, int) else None
                if isinstance(fin2, tuple) and slot_binding.get(fin2[1]) == tgt:
                    stats["via_plt"] += 1
                else:
                    V.append(("plt:stub-not-understood-or-wrong", f"site {m} -> {dest:#x} does not reach a GOT slot bound to {tgt}"))
            continue
        ts = syms.get(tgt)
        if ts is None:
            V.append(("target-missing", f"{tgt} missing from symtab"))
            continue
        if dest == ts.value:
            stats["cond" if kind == "cond" else "direct"] += 1
            continue
        if kind == "cond":
            V.append(("cond-branch:wrong-target", f"site {m}: conditional branch goes to {dest:#x}, target {tgt} is at {ts.value:#x}"))
            continue
        fin = a64flow.follow_stub(e, dest)
        if fin == ts.value:
            stats["via_thunk"] += 1
        else:
            V.append((f"branch:wrong-target:{kind}", f"site {m} at {ms.value:#x}: branch to {dest:#x} "
                      f"{'(stub leads to ' + (hex(fin) if isinstance(fin, int) else str(fin)) + ')' if fin is not None else '(not a stub)'}; "
                      f"target {tgt} is at {ts.value:#x} (distance {ts.value - ms.value:+#x})"))
    return V, stats


def one(ctx, ci):
    if ctx.replay is not None and str(ctx.replay.get("case")) != str(ci):
        return
    r = rng("C11", ctx.seed, ci)
    pie = r.random() < 0.5
    cls = CLASSES[ci % len(CLASSES)]
    objs, sites, ext = gen(ctx, r, ci, pie, cls)
    wd = ctx.scratch.dir("c", ci)
    args = ["-m", "aarch64linux", *objs, "--no-gc-sections"]
    if pie:
        so = build_ext(ctx, ci, ext, wd)
        if so is None:
            ctx.inconclusive("could not build the helper shared library with lld")
            return
        args += ["-pie", so, "--dynamic-linker=/lib/ld-linux-aarch64.so.1"]
    else:
        args += ["-static"]
    out = os.path.join(wd, "out")
    try:
        rw = tools.link("wild", [*args, "-o", out], timeout=600)
        if rw.timed_out:
            ctx.inconclusive("watchdog fired")
            return
        if not rw.ok:
            lo = os.path.join(wd, "lld.out")
            rl = tools.link("lld", [*args, "-o", lo], timeout=600)
            ok = rl.ok
            if os.path.exists(lo):
                os.unlink(lo)
            msg = rw.errtext().strip()
            if ok and ("out of range" in msg.lower() or "outside of bounds" in msg.lower() or "thunk" in msg.lower()):
                ctx.violation(f"link-fails:branch-range:class={cls}:{'pie' if pie else 'static'}", f"wild fails although ld.lld links the same inputs: {msg[-500:]}",
                              case=ci, files={"cmd.txt": "wild " + " ".join(args)})
            else:
                ctx.inconclusive(f"wild rejected the case: {msg[:100]} (lld ok={ok})")
            return
        V, stats = analyse(out, sites)
        size = os.path.getsize(out)
    finally:
        if os.path.exists(out):
            os.unlink(out)
    for sig, msg in V[:3]:
        ctx.violation(f"{sig}:class={cls}:{'pie' if pie else 'static'}", msg, case=ci, files={"cmd.txt": "wild " + " ".join(args)})
    if V:
        return
    for k, v in stats.items():
        ctx.note("branches_" + k, v)
    ctx.note_max("max_output_mib", size >> 20)
    ctx.note("class:" + cls)
    ctx.held(fingerprint=f"{ci}:{pie}:{stats}", nontrivial=stats["via_thunk"] >= 1,
             sample={"case": ci, "class": cls, "pie": pie, "objects": len(objs), "output_mib": size >> 20, **stats})


def main(ctx):
    ctx.rule = ("generated AArch64 links whose text exceeds 128 MiB; non-trivial = the link succeeded, every branch site was "
                "decoded and at least one branch was seen going through a thunk; distinct = (case, kind, branch statistics)")
    ctx.assumptions = ["no AArch64 execution is possible here: control flow is decoded statically", "ld.lld 14 is the accept/reject reference"]
    tools.wild()
    n = ctx.pick(4, 24)
    pmap(lambda i: one(ctx, i), range(n), workers=2)
    # free the object cache early: it holds hundreds of MiB
    shutil.rmtree(os.path.join(ctx.scratch.path, "objcache"), ignore_errors=True)
