"""C37 DT_NEEDED lists exactly the required libraries.

Oracle: the ordered DT_NEEDED list of wild's output against (1) a model of the statement (command
line order; every --no-as-needed library; an --as-needed library iff it is the first library
defining a symbol that a live, non-weak reference from the output's objects needs) and (2) GNU ld's
output for the same command line. wild == ld == model: held; ld != model: inconclusive (calibration
failed; which side wild took is counted); ld == model != wild: violation.
Workload: 2-6 shared libraries built with GNU ld (with/without soname, shared symbol names, one
depending on another), objects with strong / weak-only / GC'd-section-only / data references, random
--as-needed/--no-as-needed/--push-state/--pop-state regions, repeated libraries, -l vs path, a
linker-script library with AS_NEEDED( ), executables (PIE or not) and shared outputs,
--gc-sections/--no-gc-sections passed explicitly to both linkers.
"""
import os

from vlib import tools
from vlib.elf import Elf
from vlib.common import pmap, rng, write, HarnessError

LEVEL = "exploration"

STACK_NOTE = '.section .note.GNU-stack,"",@progbits\n'


# ---- generator -------------------------------------------------------------------------------------

def gen_case(r):
    nlibs = r.choice([2, 2, 3, 3, 4, 5, 6])
    nshared = r.choice([0, 1, 1, 2])
    libs = []
    for i in range(nlibs):
        c = r.random()
        soname = None if c < 0.3 else f"libL{i}.so" if c < 0.75 else f"libL{i}.so.{r.randint(1, 9)}"
        defs = [f"L{i}_f", f"L{i}_g"]
        data = [f"L{i}_d"]
        libs.append(dict(i=i, soname=soname, funcs=defs, data=data, needs=None))
    for s in range(nshared):
        owners = r.sample(range(nlibs), r.choice([2, 2, 3]) if nlibs >= 3 else 2)
        for o in owners:
            libs[o]["funcs"].append(f"shared_{s}")
    # one library may reference another one's function
    if nlibs >= 2 and r.random() < 0.25:
        a, b = r.sample(range(nlibs), 2)
        libs[a]["needs"] = dict(lib=b, dt_needed=r.random() < 0.5)
    # references from the output's objects
    allsyms = sorted(set(s for l in libs for s in l["funcs"])), sorted(set(s for l in libs for s in l["data"]))
    nobj = r.choice([1, 1, 2])
    objs = [dict(refs=[]) for _ in range(nobj)]
    reflibs = r.sample(range(nlibs), r.randint(0, nlibs))
    for li in reflibs:
        for _ in range(r.choice([1, 1, 2])):
            how = r.choice(["strong", "strong", "strong", "weak", "weak", "dead", "dead", "data", "weakdata"])
            if how in ("data", "weakdata"):
                sym = r.choice(libs[li]["data"])
            else:
                sym = r.choice(libs[li]["funcs"])
            r.choice(objs)["refs"].append((sym, how))
    # a symbol the objects define themselves although a library has it too
    own = []
    if r.random() < 0.15:
        own.append(r.choice(allsyms[0]))
    kind = r.choice(["exe", "pie", "shared"])
    gc = r.choice(["--gc-sections", "--gc-sections", "--no-gc-sections"])
    # command line
    toks = []
    seq = list(range(nlibs))
    r.shuffle(seq)
    if r.random() < 0.35:
        seq.insert(r.randint(0, len(seq)), r.choice(seq))   # repeated library
    if r.random() < 0.1:
        seq.append(r.choice(seq))
    script_lib = None
    if r.random() < 0.3 and nlibs >= 2:
        a, b = r.sample(range(nlibs), 2)
        script_lib = dict(plain=a, as_needed=b, first=r.choice(["plain", "as-needed"]), kw=r.choice(["GROUP", "INPUT"]))
        libs[a]["soname"] = libs[a]["soname"] or f"libL{a}.so"
        libs[b]["soname"] = libs[b]["soname"] or f"libL{b}.so"
        seq = [x for x in seq if x not in (a, b)]
        seq.insert(r.randint(0, len(seq)), "script")
    depth = 0
    for x in seq:
        for _ in range(r.choice([0, 0, 1, 1, 2])):
            c = r.random()
            if c < 0.4:
                toks.append(("opt", "--as-needed"))
            elif c < 0.65:
                toks.append(("opt", "--no-as-needed"))
            elif c < 0.85:
                toks.append(("opt", "--push-state"))
                depth += 1
            elif depth > 0:
                toks.append(("opt", "--pop-state"))
                depth -= 1
        if x == "script":
            toks.append(("script", None))
        else:
            toks.append(("lib", x, r.choice(["path", "path", "-l"])))
    while depth > 0 and r.random() < 0.7:
        toks.append(("opt", "--pop-state"))
        depth -= 1
    objs_first = r.random() < 0.85
    return dict(libs=libs, objs=objs, own=own, kind=kind, gc=gc, toks=toks, objs_first=objs_first, script=script_lib)


def lib_asm(l, libs):
    s = [".text\n"]
    for n, f in enumerate(l["funcs"]):
        s.append(f".globl {f}\n.type {f},@function\n{f}: mov ${l['i'] * 16 + n},%eax\n ret\n")
    if l["needs"]:
        t = libs[l["needs"]["lib"]]["funcs"][0]
        s.append(f".globl L{l['i']}_via\n.type L{l['i']}_via,@function\nL{l['i']}_via: jmp {t}@PLT\n")
    s.append(".data\n")
    for d in l["data"]:
        s.append(f".globl {d}\n.type {d},@object\n.size {d},8\n{d}: .quad {l['i']}\n")
    s.append(STACK_NOTE)
    return "".join(s)


def obj_asm(case, k):
    o = case["objs"][k]
    s = []
    weak = set(sym for sym, how in o["refs"] if how in ("weak", "weakdata"))
    strong = set(sym for sym, how in o["refs"] if how not in ("weak", "weakdata"))
    for w in sorted(weak - strong):
        s.append(f".weak {w}\n")
    s.append('.section .text.live,"ax",@progbits\n')
    entry = "_start" if k == 0 else f"obj{k}_entry"
    s.append(f".globl {entry}\n.type {entry},@function\n{entry}:\n")
    for sym, how in o["refs"]:
        if how in ("strong", "weak"):
            s.append(f" call {sym}@PLT\n")
        elif how in ("data", "weakdata"):
            s.append(f" mov {sym}@GOTPCREL(%rip),%rax\n")
    if k == 0:
        for j in range(1, len(case["objs"])):
            s.append(f" call obj{j}_entry@PLT\n")
        s.append(" mov $60,%eax\n xor %edi,%edi\n syscall\n")
    else:
        s.append(" ret\n")
    dead = [sym for sym, how in o["refs"] if how == "dead"]
    if dead:
        s.append('.section .text.dead,"ax",@progbits\n.type dead_fn,@function\ndead_fn:\n')
        for sym in dead:
            s.append(f" call {sym}@PLT\n")
        s.append(" ret\n")
    if k == 0:
        for sym in case["own"]:
            s.append(f'.section .text.own,"ax",@progbits\n.globl {sym}\n.type {sym},@function\n{sym}: ret\n')
    s.append(STACK_NOTE)
    return "".join(s)


def build(ctx, case, d):
    """Builds libraries (with GNU ld) and objects in directory d. Returns False on failure."""
    libs = case["libs"]
    ldir = os.path.join(d, "libs")
    os.makedirs(ldir, exist_ok=True)
    order = sorted(libs, key=lambda l: 0 if not l["needs"] else 1)   # dependees first
    for l in order:
        obj = tools.assemble(ctx, f"# case {os.path.basename(d)}\n" + lib_asm(l, libs))
        l["path"] = os.path.join("libs", f"libL{l['i']}.so")
        args = ["-shared", obj, "-o", l["path"]]
        if l["soname"]:
            args += ["-soname", l["soname"]]
        if l["needs"] and l["needs"]["dt_needed"]:
            args += [libs[l["needs"]["lib"]]["path"]]
        res = tools.link("ld", args, cwd=d)
        if not res.ok:
            return False
    case["objpaths"] = []
    for k in range(len(case["objs"])):
        obj = tools.assemble(ctx, f"# case {os.path.basename(d)}\n" + obj_asm(case, k))
        p = os.path.join(d, f"m{k}.o")
        write(p, open(obj, "rb").read())
        case["objpaths"].append(f"m{k}.o")
    if case["script"]:
        a, b = case["script"]["plain"], case["script"]["as_needed"]
        pa, pb = os.path.join(d, libs[a]['path']), f"AS_NEEDED ( {os.path.join(d, libs[b]['path'])} )"
        kw = case["script"].get("kw", "GROUP")
        body = f"{pa} {pb}" if case["script"].get("first", "plain") == "plain" else f"{pb} {pa}"
        write(os.path.join(d, "libs", "libscript.so"), f"/* GNU ld script */\n{kw} ( {body} )\n")
    return True


def command(case, out):
    a = []
    if case["kind"] == "pie":
        a += ["-pie"]
    elif case["kind"] == "shared":
        a += ["-shared"]
    a += [case["gc"], "--allow-shlib-undefined", "-L", "libs"]
    libargs = []
    for t in case["toks"]:
        if t[0] == "opt":
            libargs.append(t[1])
        elif t[0] == "script":
            libargs.append("libs/libscript.so")
        else:
            l = case["libs"][t[1]]
            libargs.append(f"-lL{l['i']}" if t[2] == "-l" else l["path"])
    if case["objs_first"]:
        a += case["objpaths"] + libargs
    else:
        a += libargs + case["objpaths"]
    return a + ["-o", out]


# ---- model -----------------------------------------------------------------------------------------

def occurrences(case):
    """[(lib index, as_needed, how)] in command-line order with the as-needed state in force."""
    stack = [False]
    out = []
    for t in case["toks"]:
        if t[0] == "opt":
            if t[1] == "--as-needed":
                stack[-1] = True
            elif t[1] == "--no-as-needed":
                stack[-1] = False
            elif t[1] == "--push-state":
                stack.append(stack[-1])
            elif t[1] == "--pop-state":
                stack.pop()
        elif t[0] == "script":
            two = [(case["script"]["plain"], stack[-1], "script"), (case["script"]["as_needed"], True, "script-AS_NEEDED")]
            out += two if case["script"].get("first", "plain") == "plain" else two[::-1]
        else:
            out.append((t[1], stack[-1], t[2]))
    return out


def ref_kinds(case):
    """symbol -> set of reference kinds from the output's objects."""
    m = {}
    for o in case["objs"]:
        for sym, how in o["refs"]:
            m.setdefault(sym, set()).add(how)
    return m


def needed_name(case, li, how):
    l = case["libs"][li]
    if l["soname"]:
        return l["soname"]
    return f"libL{li}.so" if how == "-l" else l["path"]


def model(case, dead_counts=False):
    """Returns (ordered DT_NEEDED names, per-library traits). `dead_counts`: whether a reference from
    a section that --gc-sections discards still makes an --as-needed library needed (the statement
    says "reference from the output"; GNU ld decides before garbage collection) - the caller
    calibrates this one parameter against GNU ld."""
    occ = occurrences(case)
    kinds = ref_kinds(case)
    live_nonweak = set()
    for sym, ks in kinds.items():
        if sym in case["own"]:
            continue
        if ks & {"strong", "data"} or ("dead" in ks and (dead_counts or case["gc"] == "--no-gc-sections")):
            live_nonweak.add(sym)
    used = set()
    first_definer = {}
    for li, an, how in occ:
        l = case["libs"][li]
        for sym in l["funcs"] + l["data"]:
            first_definer.setdefault(sym, li)
    for sym in live_nonweak:
        if sym in first_definer:
            used.add(first_definer[sym])
    out = []
    for li, an, how in occ:
        # a library is identified by the name it is recorded under (soname, else the spelling)
        name = needed_name(case, li, how)
        if name in out:
            continue
        if (not an) or li in used:
            out.append(name)
    traits = {}
    for li in set(o[0] for o in occ):
        l = case["libs"][li]
        ks = set()
        for sym in l["funcs"] + l["data"]:
            if sym in kinds and sym not in case["own"]:
                if first_definer.get(sym) == li:
                    ks |= kinds[sym]
                else:
                    ks.add("shadowed")
        if ks & {"strong", "data"}:
            ref = "strong"
        elif "dead" in ks:
            ref = "gc-section-only" if case["gc"] == "--gc-sections" else "strong"
            if ref == "gc-section-only" and dead_counts:
                ref = "gc-section-only(counts)"
        elif ks & {"weak", "weakdata"}:
            ref = "weak-only"
        elif "shadowed" in ks:
            ref = "defined-earlier-elsewhere"
        else:
            ref = "none"
        if ref == "none" and any(x["needs"] and x["needs"]["lib"] == li for x in case["libs"]):
            ref = "by-library-only"
        occs = [(an, how) for (i, an, how) in occ if i == li]
        states = sorted(set("as-needed" if an else "no-as-needed" for an, _ in occs))
        traits[li] = dict(ref=ref, state="+".join(states), repeated=len(occs) > 1, soname=bool(l["soname"]),
                          how="+".join(sorted(set(h for _, h in occs))))
    return out, traits


def describe(case):
    parts = []
    for t in case["toks"]:
        if t[0] == "opt":
            parts.append(t[1])
        elif t[0] == "script":
            sc = case["script"]
            parts.append(f"script({sc.get('kw', 'GROUP')}: L{sc['plain']} AS_NEEDED(L{sc['as_needed']}))" if sc.get("first", "plain") == "plain"
                         else f"script({sc.get('kw', 'GROUP')}: AS_NEEDED(L{sc['as_needed']}) L{sc['plain']})")
        else:
            l = case["libs"][t[1]]
            parts.append(("-lL%d" if t[2] == "-l" else "L%d.so") % t[1] + ("" if l["soname"] else "[nosoname]"))
    refs = ";".join(",".join(f"{s}:{h}" for s, h in o["refs"]) for o in case["objs"])
    deps = ",".join(f"L{l['i']}->L{l['needs']['lib']}{'(needed)' if l['needs']['dt_needed'] else ''}" for l in case["libs"] if l["needs"])
    shared = ",".join(f"{s}@" + "".join(str(l["i"]) for l in case["libs"] if s in l["funcs"])
                      for s in sorted(set(f for l in case["libs"] for f in l["funcs"] if f.startswith("shared_"))))
    return (f"{case['kind']} {case['gc']} {'objs-first' if case['objs_first'] else 'libs-first'} | {' '.join(parts)} | refs {refs}"
            f" | own {case['own']} | deps {deps} | {shared}")


def classify(case, want, got, traits):
    """Narrow, stable signature for a DT_NEEDED difference: what happened to which kind of library."""
    name_to_lib = {}
    for li, an, how in occurrences(case):
        name_to_lib.setdefault(needed_name(case, li, how), li)
        l = case["libs"][li]
        for alt in (l["soname"], f"libL{li}.so", l["path"], os.path.basename(l["path"])):
            if alt:
                name_to_lib.setdefault(alt, li)

    def tr(name):
        li = name_to_lib.get(name)
        if li is None:
            for l in case["libs"]:
                if name and name.endswith(f"libL{l['i']}.so"):
                    li = l["i"]
        if li is None or li not in traits:
            return "unknown-name"
        t = traits[li]
        return f"{t['state']}:ref={t['ref']}" + (":repeated" if t["repeated"] else "") + (":script" if "script" in t["how"] else "")
    ws, gs = set(want), set(got)
    extra = [n for n in got if n not in ws]
    missing = [n for n in want if n not in gs]
    if len(got) != len(set(got)):
        dup = [n for n in got if got.count(n) > 1][0]
        t = traits.get(name_to_lib.get(dup), {})
        return f"duplicate-entry:spelled={t.get('how')}"
    # same libraries under different names?
    if extra and missing:
        el = [name_to_lib.get(n) for n in extra]
        ml = [name_to_lib.get(n) for n in missing]
        if sorted(map(str, el)) == sorted(map(str, ml)):
            li = ml[0]
            t = traits.get(li, {})
            return f"name:{'soname' if t.get('soname') else 'no-soname'}:{t.get('how')}"
    if extra:
        return "extra:" + tr(extra[0])
    if missing:
        t = traits.get(name_to_lib.get(missing[0]), {})
        if t.get("repeated") and t.get("state") == "as-needed+no-as-needed":
            return "missing:repeated-library-mentioned-both-as-needed-and-no-as-needed"
        return "missing:" + tr(missing[0])
    return "order"


# Whether a reference from a section that --gc-sections discards keeps an --as-needed library. The
# statement ("reference from the output") leaves it open; GNU ld decides before garbage collection.
# Calibrated once per run against GNU ld (see calibrate_dead_refs), then used for every case.
DEAD_COUNTS = [False]


def calibrate_dead_refs(ctx):
    lib = dict(i=0, soname="libL0.so", funcs=["L0_f", "L0_g"], data=["L0_d"], needs=None)
    case = dict(own=[], kind="shared", gc="--gc-sections", objs_first=True, script=None, libs=[lib],
                objs=[dict(refs=[("L0_f", "dead")])], toks=[("opt", "--as-needed"), ("lib", 0, "path")])
    d = ctx.scratch.dir("calib")
    if not build(ctx, case, d):
        raise HarnessError("C37 calibration: cannot build library")
    res = tools.link("ld", command(case, tools.fresh(os.path.join(d, "ld.out"))), cwd=d)
    if not res.ok:
        raise HarnessError("C37 calibration link failed: " + res.errtext()[:300])
    DEAD_COUNTS[0] = bool(Elf(os.path.join(d, "ld.out")).needed())
    ctx.note_set("calibration:gc-section-only-reference-keeps-as-needed-library(ld)", DEAD_COUNTS[0])


def run_case(ctx, cid, case):
    d = ctx.scratch.dir("c", cid)
    if not build(ctx, case, d):
        return ctx.inconclusive("could not build input libraries")
    desc = describe(case)
    want, traits = model(case, dead_counts=DEAD_COUNTS[0])
    lres = tools.link("ld", command(case, tools.fresh(os.path.join(d, "ld.out"))), cwd=d)
    if lres.timed_out:
        return ctx.inconclusive("reference link timed out")
    wargs = command(case, tools.fresh(os.path.join(d, "wild.out")))
    inj = os.environ.get("VERIF_C37_INJECT")      # self-validation: deliberately wrong option for wild only
    if inj == "as-needed":
        wargs = ["--as-needed"] + wargs
    elif inj == "no-as-needed":
        wargs = [a for a in wargs if a != "--as-needed"]
    wres = tools.link("wild", wargs, cwd=d)
    files = {"case": d, "cmd.txt": f"cd case && wild {' '.join(wargs)}\n# ld {' '.join(command(case, 'ld.out'))}\n# {desc}\n# model: {want}\n"}
    if wres.timed_out:
        return ctx.inconclusive("wild link timed out")
    for li, t in traits.items():
        ctx.note(f"lib:{t['state']}:ref={t['ref']}")
    if not lres.ok:
        ctx.note_set("ld-reject", (lres.errtext().strip().splitlines() or ["?"])[0][-100:])
        if wres.ok:
            ctx.note("ld rejected, wild accepted")
        return ctx.inconclusive("reference linker rejected the case")
    ld_needed = Elf(os.path.join(d, "ld.out")).needed()
    if not wres.ok:
        txt = wres.errtext()
        if "panicked" in txt or wres.signal:
            files["stderr.txt"] = txt
            return ctx.violation("link-crash", f"wild crashed on a command line GNU ld accepts: {txt.strip()[:300]} [{desc}]", case=cid, files=files)
        ctx.note_set("wild-reject", txt.strip()[:200])
        return ctx.inconclusive("wild rejected the case (no output)")
    w_needed = Elf(os.path.join(d, "wild.out")).needed()
    if ld_needed != want:
        side = "ld" if w_needed == ld_needed else "model" if w_needed == want else "neither"
        ctx.note(f"calibration-failed:wild-agrees-with-{side}")
        ctx.note_set("ld-vs-model", f"{classify(case, want, ld_needed, traits)}{'' if case['objs_first'] else ':libs-first'}")
        return ctx.inconclusive("reference differs from the statement's model")
    if w_needed == want:
        ctx.note_max("max_needed", len(want))
        for t in case["toks"]:
            if t[0] == "opt":
                ctx.note("opt:" + t[1])
        ctx.held(fingerprint=desc, nontrivial=len(set(o[0] for o in occurrences(case))) >= 2,
                 sample={"case": desc, "needed": want} if isinstance(cid, int) and cid < 4 else None)
        return
    sig = classify(case, want, w_needed, traits)
    ctx.violation(sig, f"DT_NEEDED {w_needed} but GNU ld and the model give {want} [{desc}]", case=cid, files=files,
                  info={"wild": w_needed, "ld": ld_needed, "model": want, "case": desc})


def pinned_cases():
    """Fixed minimal reproducers of the confirmed defects (re-observed on every run)."""
    def lib(i):
        return dict(i=i, soname=f"libL{i}.so", funcs=[f"L{i}_f", f"L{i}_g"], data=[f"L{i}_d"], needs=None)
    base = dict(own=[], kind="shared", gc="--gc-sections", objs_first=True, script=None)
    return [
        # the same library spelled -lL0 and libs/libL0.so: one DT_NEEDED expected
        ("pin-dup-spelling", dict(base, libs=[lib(0), lib(1)], objs=[dict(refs=[("L1_f", "strong")])],
                                  toks=[("lib", 0, "-l"), ("lib", 0, "path"), ("lib", 1, "path")])),
        # --as-needed -lL0 --no-as-needed -lL0 (unreferenced): the second mention must keep it
        ("pin-repeat-no-as-needed", dict(base, libs=[lib(0), lib(1)], objs=[dict(refs=[("L1_f", "strong")])],
                                         toks=[("opt", "--as-needed"), ("lib", 0, "-l"), ("opt", "--no-as-needed"),
                                               ("lib", 0, "-l"), ("lib", 1, "path")])),
        ("pin-as-needed-basic", dict(base, kind="pie", libs=[lib(0), lib(1), lib(2)],
                                     objs=[dict(refs=[("L1_f", "strong"), ("L2_g", "weak")])],
                                     toks=[("opt", "--as-needed"), ("lib", 0, "path"), ("lib", 1, "path"), ("lib", 2, "-l")])),
    ]


def main(ctx):
    ctx.rule = ("2-6 GNU-ld-built shared libraries (soname or not, shared symbol names, inter-library reference) and 1-2 asm "
                "objects with strong/weak-only/GC'd-section-only/data references; random --as-needed/--no-as-needed/"
                "--push-state/--pop-state regions, repeats, -l vs path, AS_NEEDED() script; exe/PIE/shared; a case counts "
                "when GNU ld's DT_NEEDED list equals the model's and >=2 libraries are on the line; distinct = full case text")
    ctx.assumptions = ["GNU ld 2.40 calibrates the model; cases where it differs (e.g. its command-line order dependence, "
                       "references between libraries) are inconclusive",
                       "whether a reference from a GC'd section keeps an --as-needed library is taken from GNU ld (calibrated once per run)",
                       "input libraries are linked by GNU ld"]
    tools.wild()
    n = ctx.pick(80, 1200)
    calibrate_dead_refs(ctx)
    pins = dict(pinned_cases())
    jobs = list(pins) + list(range(n))
    if ctx.replay is not None:
        c = str(ctx.replay["case"])
        jobs = [c if c in pins else int(c)]
    pmap(lambda i: run_case(ctx, i, pins[i] if i in pins else gen_case(rng("C37", ctx.seed, i))), jobs)
