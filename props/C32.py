"""C32 Symbol versions follow the version script.

Oracle (a): differential with GNU ld 2.40 on the same objects and version script: the map
name -> (version node name, hidden bit) read from .dynsym/.gnu.version/.gnu.version_d/.gnu.version_r,
restricted to the generator's symbols (a symbol made local is one that is absent). Oracle (b):
internal consistency of the version tables of wild's output (vd_cnt/vd_next chains, vd_hash ==
elf_hash(name), unique indices, parents exist, DT_VERDEFNUM/DT_VERNEEDNUM, every versym index
defined, vernaux hashes / file names). Oracle (c): the real consumer - dlsym-driver dlvsym()s every
(name, node) pair GNU ld's output defines, on wild's output, and checks the function id.
A differing symbol is classified by the list of script patterns that match it (node order, global/
local, exact / glob / '*'), which gives a narrow, seed-independent signature. Scripts that use one
unusual-but-legal layout feature are re-linked in a plain layout to attribute a difference to the
layout. A script wild rejects with a clean error is inconclusive (counted per feature); a crash is a
violation.
"""
import fnmatch
import os
import struct

from vlib import tools, dyngen
from vlib.elf import Elf, DT, SHN_UNDEF, STB_LOCAL, elf_hash
from vlib.common import pmap, rng, run, write

LEVEL = "exploration"

# ---- symbol pool -----------------------------------------------------------------------------------
C_POOL = ["foo", "foo1", "foo2", "foo_bar", "foobar", "fo", "bar", "bar1", "barx", "baz", "qux", "a", "ab", "abc",
          "abd", "zed", "lib_init", "lib_fini", "lib_x1", "lib_x2", "x1", "x2", "Foo", "f00"]
# mangled name -> demangled
CXX_POOL = {"_ZN2ns1fEi": "ns::f(int)", "_ZN2ns1gEv": "ns::g()", "_ZN2ns2ggEv": "ns::gg()", "_Z3cppv": "cpp()",
            "_ZN2ns3Cls6methodEv": "ns::Cls::method()", "_Z4cpp2i": "cpp2(int)"}

LAYOUTS = ["plain", "plain", "plain", "plain", "no-global-keyword", "sp-colon", "comments", "one-line", "multi-line",
           "parent-space", "multi-parent", "quoted-exact", "extern-C", "extern-nosemi", "extern-2sp", "tabs"]


def gen_patterns(r, csyms, cxxsyms, n, used):
    """n pattern entries: ('c', kind, text) or ('cxx', kind, text). kind: exact | glob | star.
    `used`: patterns already present in the same kind of section of any node - GNU ld rejects a
    pattern that occurs twice among the globals (or twice among the locals) of a script."""
    out = []
    for p in _gen_patterns(r, csyms, cxxsyms, n):
        if (p[0], p[2]) in used:
            continue
        used.add((p[0], p[2]))
        out.append(p)
    return out


def _gen_patterns(r, csyms, cxxsyms, n):
    out = []
    for _ in range(n):
        c = r.random()
        if cxxsyms and c < 0.15:
            m = r.choice(sorted(cxxsyms))
            dem = CXX_POOL[m]
            if r.random() < 0.5:
                out.append(("cxx", "exact", dem))
            else:
                cut = r.choice([dem.split("(")[0][:-1] + "*", "ns::*", dem.split("(")[0] + "*", "*pp*"])
                out.append(("cxx", "glob", cut))
        elif c < 0.55:
            out.append(("c", "exact", r.choice(csyms) if r.random() < 0.85 else r.choice(C_POOL)))
        elif c < 0.93:
            s = r.choice(csyms)
            k = r.random()
            if k < 0.45:
                cut = r.randint(1, len(s))
                pat = s[:cut] + "*"
            elif k < 0.6:
                pat = "*" + s[-r.randint(1, len(s)):]
            elif k < 0.8:
                i = r.randrange(len(s))
                pat = s[:i] + "?" + s[i + 1:]
            elif k < 0.9:
                i = r.randrange(len(s))
                pat = s[:i] + "[" + "".join(sorted(set(s[i] + r.choice("abfox12")))) + "]" + s[i + 1:]
            else:
                pat = s[:1] + "[a-z]*"
            out.append(("c", "glob", pat))
        else:
            out.append(("c", "star", "*"))
    return out


def gen_case(r):
    nsym = r.randint(3, 10)
    csyms = r.sample(C_POOL, nsym)
    cxxsyms = r.sample(sorted(CXX_POOL), r.choice([0, 0, 1, 2, 3]))
    anonymous = r.random() < 0.12
    nnodes = 1 if anonymous else r.choice([1, 2, 2, 3, 3, 4, 5, 6])
    names = []
    for i in range(nnodes):
        names.append(r.choice([f"V{i + 1}", f"LIB_{i + 1}.0", f"VERS_{i + 1}"]))
    nodes = []
    used_g = used_l = set()      # GNU ld rejects a pattern that occurs twice anywhere in the script
    for i in range(nnodes):
        g = gen_patterns(r, csyms, cxxsyms, r.choice([0, 1, 1, 2, 3, 4]), used_g)
        l = gen_patterns(r, csyms, cxxsyms, r.choice([0, 0, 0, 1, 2]), used_l)
        if r.random() < (0.5 if i == 0 else 0.12) and ("c", "*") not in used_l:
            used_l.add(("c", "*"))
            l.append(("c", "star", "*"))
        parents = []
        if i > 0 and r.random() < 0.6:
            parents = [r.randrange(i)]
        nodes.append(dict(name=None if anonymous else names[i], globals=g, locals=l, parents=parents))
    # .symver-assigned symbols
    symvers = []
    if not anonymous and r.random() < 0.35:
        base = r.choice([s for s in C_POOL if s not in csyms] or ["extra"])
        k = r.randrange(nnodes)
        k2 = r.randrange(nnodes)
        remove = r.random() < 0.5
        symvers.append(dict(impl=f"{base}_impl_a", base=base, node=k, default=(k2 == k), remove=remove))
        if k2 != k:
            symvers.append(dict(impl=f"{base}_impl_b", base=base, node=k2, default=True, remove=remove))
    layout = r.choice(LAYOUTS)
    if layout == "multi-parent" and nnodes < 3:
        layout = "plain"
    dep = r.random() < 0.4
    return dict(csyms=csyms, cxxsyms=cxxsyms, nodes=nodes, symvers=symvers, layout=layout, dep=dep, anonymous=anonymous,
                depsyms=r.sample(["dep_f", "dep_g", "dep_h"], r.randint(1, 3)) if dep else [])


def render(case, layout):
    """Version script text in the requested layout."""
    nodes = case["nodes"]
    if layout == "multi-parent":
        # give the last node two parents
        nodes = [dict(n) for n in nodes]
        nodes[-1]["parents"] = sorted(set(nodes[-1]["parents"] + [0, len(nodes) - 2]))
    out = []
    for n in nodes:
        def pats(lst):
            items = []
            cxx = [p for p in lst if p[0] == "cxx"]
            for p in lst:
                if p[0] == "c":
                    if layout == "quoted-exact" and p[1] == "exact":
                        items.append(f'"{p[2]}";')
                    elif layout == "extern-C" and p[1] == "exact":
                        items.append(f'extern "C" {{ {p[2]}; }};')
                    else:
                        items.append(p[2] + ";")
            if cxx:
                body = []
                for p in cxx:
                    body.append((f'"{p[2]}"' if p[1] == "exact" else p[2]) + ";")
                if layout == "extern-nosemi":
                    body[-1] = body[-1][:-1]
                ext = 'extern  "C++"' if layout == "extern-2sp" else 'extern "C++"'
                items.append(ext + " { " + " ".join(body) + " };")
            return items
        g, l = pats(n["globals"]), pats(n["locals"])
        colon = " :" if layout == "sp-colon" else ":"
        sep = {"one-line": "", "multi-line": "\n\n", "tabs": "\t"}.get(layout, " ")
        parts = []
        if layout == "repeated-sections" and len(g) >= 2:
            parts += ["global" + colon] + g[:1]
            if l:
                parts += ["local" + colon] + l
            parts += ["global" + colon] + g[1:]
        else:
            if g:
                # GNU ld only allows the implicit global section in a node without a local section
                parts += ([] if layout == "no-global-keyword" and not l else ["global" + colon]) + g
            if l:
                parts += ["local" + colon] + l
        if layout == "comments":
            parts = ["/* c1 */"] + [x for p in parts for x in (p, "/* c */")]
        body = sep.join(parts)
        head = (n["name"] + (sep or "") if n["name"] else "") + "{" + sep
        par = " ".join(nodes[p]["name"] for p in n["parents"])
        tail = sep + "}" + ((" " + par) if par else "") + (" ;" if layout == "parent-space" and par else ";")
        if layout == "one-line":
            head = (n["name"] or "") + "{"
            tail = "}" + par + ";" if not par else "} " + par + ";"
        out.append(head + body + tail)
    return ("" if layout == "one-line" else "\n").join(out) + "\n"


def sources(case, salt=""):
    """-> (asm text, ids: symbol -> id, alias ids: (base, nodeidx) -> id). `salt` makes the text (and
    so the cached object file) private to the case."""
    ids = {}
    nid = 100
    s = [f"# case {salt}\n.text\n"]
    for nm in case["csyms"] + case["cxxsyms"]:
        nid += 1
        ids[nm] = nid
        s.append(f".globl {nm}\n.type {nm},@function\n{nm}: mov ${nid},%eax\n ret\n")
    alias = {}
    for sv in case["symvers"]:
        nid += 1
        ids[sv["impl"]] = nid
        alias[(sv["base"], sv["node"])] = nid
        s.append(f".globl {sv['impl']}\n.type {sv['impl']},@function\n{sv['impl']}: mov ${nid},%eax\n ret\n")
        ver = case["nodes"][sv["node"]]["name"]
        s.append(f".symver {sv['impl']}, {sv['base']}{'@@' if sv['default'] else '@'}{ver}{', remove' if sv['remove'] else ''}\n")
    if case["dep"]:
        s.append(".globl c32_calls_dep\n.type c32_calls_dep,@function\nc32_calls_dep:\n")
        for d in case["depsyms"]:
            s.append(f" call {d}@PLT\n")
        s.append(" ret\n")
    s.append(dyngen.NOTE_STACK)
    return "".join(s), ids, alias


DEP_SRC = dyngen.func_asm([("dep_f", 901), ("dep_g", 902), ("dep_h", 903)])
DEP_OBJ = [None]      # assembled once in main(), before the parallel part
DEP_MAP = "DEP_1 { global: dep_f; local: *; };\nDEP_2 { global: dep_g; } DEP_1;\nDEP_3 { global: dep_h; } DEP_2;\n"


# ---- observation -----------------------------------------------------------------------------------

def version_map(path, own):
    """name -> sorted list of (version name | '' (base) | '*local*', hidden) for defined dynsyms, and
    'need:<ver>' for undefined ones; restricted to names in `own`."""
    e = Elf(path)
    syms = e.dynsym()
    vs = e.versym()
    defs = {d["ndx"]: d["names"][0] for d in e.verdefs()}
    needs = {}
    for vn in e.verneeds():
        for a in vn["aux"]:
            needs[a["other"]] = a["name"]
    out = {}
    for i, sy in enumerate(syms):
        if i == 0 or sy.name not in own or sy.bind == STB_LOCAL:
            continue
        v = vs[i] if vs is not None and i < len(vs) else 1
        ndx, hidden = v & 0x7fff, bool(v & 0x8000)
        if sy.shndx == SHN_UNDEF:
            ver = "need:" + needs.get(ndx, "" if ndx in (0, 1) else f"?{ndx}")
            hidden = False
        elif ndx == 0:
            ver = "*local*"
        elif ndx == 1:
            ver = ""
        else:
            ver = defs.get(ndx, needs.get(ndx, f"?{ndx}"))
        out.setdefault(sy.name, []).append((ver, hidden))
    return {k: sorted(v) for k, v in out.items()}


def check_tables(path):
    """Internal consistency of version tables. Returns list of (signature, description)."""
    e = Elf(path)
    probs = []
    dyn = {}
    for k, v in e.dynamic():
        dyn.setdefault(k, v)
    syms = e.dynsym()
    vs = e.versym()
    vd_sec = e.section_by_type(0x6ffffffd)
    vn_sec = e.section_by_type(0x6ffffffe)
    vs_sec = e.section_by_type(0x6fffffff)
    if vs_sec is not None:
        if vs is None or len(vs) != len(syms):
            probs.append(("tables:versym-count", f".gnu.version has {len(vs or [])} entries for {len(syms)} dynsyms"))
        if dyn.get(DT["VERSYM"]) != vs_sec.addr:
            probs.append(("tables:DT_VERSYM", "DT_VERSYM does not point at .gnu.version"))
    elif DT["VERSYM"] in dyn:
        probs.append(("tables:DT_VERSYM-without-section", "DT_VERSYM present without .gnu.version"))
    defined_ndx = {}
    if vd_sec is not None:
        strs = e.sections[vd_sec.link]
        off = vd_sec.offset
        n = 0
        names_all = []
        entries = []
        while True:
            if off + 20 > vd_sec.offset + vd_sec.size:
                probs.append(("tables:verdef-chain-leaves-section", "vd_next chain leaves .gnu.version_d"))
                break
            ver, flags, ndx, cnt, h, aux, nxt = struct.unpack_from("<HHHHIII", e.data, off)
            n += 1
            names = []
            aoff = off + aux
            for k in range(cnt):
                if aoff + 8 > vd_sec.offset + vd_sec.size:
                    probs.append(("tables:verdaux-leaves-section", "vda_next chain leaves .gnu.version_d"))
                    break
                nm, anext = struct.unpack_from("<II", e.data, aoff)
                end = e.data.find(b"\0", strs.offset + nm)
                names.append(e.data[strs.offset + nm:end].decode("latin1"))
                if k + 1 < cnt and anext == 0:
                    probs.append(("tables:vd_cnt>aux-chain", f"verdef {ndx}: vd_cnt {cnt} but the aux chain ends after {k + 1}"))
                    break
                if k + 1 == cnt and anext != 0:
                    probs.append(("tables:vd_cnt<aux-chain", f"verdef {ndx}: vd_cnt {cnt} but vda_next != 0 on the last"))
                aoff += anext
            entries.append((ndx, flags, names, h))
            if ver != 1:
                probs.append(("tables:vd_version", f"verdef {ndx}: vd_version {ver}"))
            if cnt == 0 or not names:
                probs.append(("tables:verdef-without-name", f"verdef {ndx} has no name"))
            elif h != elf_hash(names[0]):
                probs.append(("tables:vd_hash", f"verdef {names[0]}: vd_hash {h:#x} != elf_hash {elf_hash(names[0]):#x}"))
            if ndx in defined_ndx or ndx < 1:
                probs.append(("tables:vd_ndx-not-unique", f"verdef index {ndx} duplicated or invalid"))
            defined_ndx[ndx] = names[0] if names else ""
            if bool(flags & 1) != (ndx == 1):
                probs.append(("tables:base-flag", f"verdef {ndx} flags {flags:#x} (VER_FLG_BASE expected exactly on index 1)"))
            if nxt == 0:
                break
            off += nxt
        allnames = set(x[2][0] for x in entries if x[2])
        for ndx, flags, names, h in entries:
            for p in names[1:]:
                if p not in allnames:
                    probs.append(("tables:verdef-parent-undefined", f"verdef {names[0]} names parent {p} which is not defined"))
        if vd_sec.info != n:
            probs.append(("tables:verdef-sh_info", f".gnu.version_d sh_info {vd_sec.info} != {n} entries"))
        if dyn.get(DT["VERDEFNUM"]) != n:
            probs.append(("tables:DT_VERDEFNUM", f"DT_VERDEFNUM {dyn.get(DT['VERDEFNUM'])} != {n} entries"))
        if dyn.get(DT["VERDEF"]) != vd_sec.addr:
            probs.append(("tables:DT_VERDEF", "DT_VERDEF does not point at .gnu.version_d"))
    elif DT["VERDEF"] in dyn or DT["VERDEFNUM"] in dyn:
        probs.append(("tables:DT_VERDEF-without-section", "DT_VERDEF(NUM) present without .gnu.version_d"))
    need_ndx = {}
    if vn_sec is not None:
        needed = set(e.needed())
        vns = e.verneeds()
        off = vn_sec.offset
        for vn in vns:
            if vn["version"] != 1:
                probs.append(("tables:vn_version", f"verneed {vn['file']}: vn_version {vn['version']}"))
            if vn["file"] not in needed:
                probs.append(("tables:verneed-file-not-DT_NEEDED", f"verneed file {vn['file']} is not a DT_NEEDED entry"))
            for a in vn["aux"]:
                if a["hash"] != elf_hash(a["name"]):
                    probs.append(("tables:vna_hash", f"vernaux {a['name']}: hash {a['hash']:#x} != {elf_hash(a['name']):#x}"))
                o = a["other"] & 0x7fff
                if o in need_ndx or o in defined_ndx or o < 2:
                    probs.append(("tables:vna_other-not-unique", f"vernaux {a['name']}: index {o} collides"))
                need_ndx[o] = a["name"]
        if vn_sec.info != len(vns):
            probs.append(("tables:verneed-sh_info", f".gnu.version_r sh_info {vn_sec.info} != {len(vns)} entries"))
        if dyn.get(DT["VERNEEDNUM"]) != len(vns):
            probs.append(("tables:DT_VERNEEDNUM", f"DT_VERNEEDNUM {dyn.get(DT['VERNEEDNUM'])} != {len(vns)}"))
        if dyn.get(DT["VERNEED"]) != vn_sec.addr:
            probs.append(("tables:DT_VERNEED", "DT_VERNEED does not point at .gnu.version_r"))
    elif DT["VERNEED"] in dyn or DT["VERNEEDNUM"] in dyn:
        probs.append(("tables:DT_VERNEED-without-section", "DT_VERNEED(NUM) present without .gnu.version_r"))
    if vs is not None:
        for i, v in enumerate(vs[:len(syms)]):
            ndx = v & 0x7fff
            if ndx in (0, 1):
                continue
            if ndx not in defined_ndx and ndx not in need_ndx:
                probs.append(("tables:versym-index-undefined", f"dynsym {i} ({syms[i].name}) has version index {ndx} defined nowhere"))
                break
            if syms[i].shndx != SHN_UNDEF and ndx in need_ndx:
                probs.append(("tables:defined-symbol-with-verneed-index", f"defined dynsym {syms[i].name} uses a verneed index"))
                break
    seen = set()
    return [p for p in probs if not (p[0] in seen or seen.add(p[0]))], dict(verdefs=len(defined_ndx), verneeds=len(need_ndx))


# ---- classification --------------------------------------------------------------------------------

def matches_of(case, name):
    """Patterns of the script matching `name`, in script order: list of 'g|l:exact|glob|star|cxx-exact|cxx-glob#node'."""
    out = []
    dem = CXX_POOL.get(name)
    for i, n in enumerate(case["nodes"]):
        for sec, lst in (("g", n["globals"]), ("l", n["locals"])):
            kinds = []
            for lang, kind, text in lst:
                if lang == "c":
                    if kind == "exact" and text == name:
                        kinds.append("exact")
                    elif kind == "glob" and fnmatch.fnmatchcase(name, text):
                        kinds.append("glob-nostar" if "*" not in text else "glob")
                    elif kind == "star":
                        kinds.append("star")
                elif dem is not None:
                    if kind == "exact" and text == dem:
                        kinds.append("cxx-exact")
                    elif kind == "glob" and fnmatch.fnmatchcase(dem, text):
                        kinds.append("cxx-glob")
            for k in sorted(set(kinds)):
                out.append((i, f"{sec}:{k}"))
    return out


def verdict_of(case, name, state):
    """Which node (position among the matching nodes) a linker's result corresponds to."""
    if not state:
        return "local"
    vers = [v for v, h in state]
    return "+".join(("base" if v == "" else v) + ("(hidden)" if h else "") for v, h in state)


STRENGTH = {"exact": 0, "cxx-exact": 0, "glob-nostar": 1, "glob": 2, "cxx-glob": 2, "star": 3}


def pick(case, name, state):
    """What a linker's result for `name` corresponds to in the script: (node position | None, label).
    label: 'explicit-symver' | 'base' | 'versym0' | '<g|l>:<pattern kind>' | 'unexplained'."""
    m = matches_of(case, name)
    if any(s["base"] == name for s in case["symvers"]):
        if state:
            return None, "explicit-symver" + ("(hidden)" if all(h for _, h in state) else "")
    if not state:
        cands = [(STRENGTH[k.split(":")[1]], -i, i, k) for i, k in m if k.startswith("l:")]
        if not cands:
            return None, "local-unexplained"
        _, _, i, k = min(cands)
        return i, k
    v, h = state[0]
    if v == "" and case["anonymous"]:
        cands = [(STRENGTH[k.split(":")[1]], k) for i, k in m if k.startswith("g:")]
        return (0, min(cands)[1]) if cands else (None, "base")
    if v == "":
        return None, "base" + ("(hidden)" if h else "")
    if v == "*local*":
        return None, "versym0"
    idx = [i for i, n in enumerate(case["nodes"]) if n["name"] == v]
    if not idx:
        return None, "unknown-version"
    cands = [(STRENGTH[k.split(":")[1]], k) for i, k in m if i == idx[0] and k.startswith("g:")]
    if not cands:
        return idx[0], "node-unexplained"
    return idx[0], min(cands)[1] + ("(hidden)" if h else "")


def classify(case, name, lstate, wstate):
    """Narrow signature: which script pattern each linker's answer corresponds to, and their order.
    Pattern kinds are kept apart (glob without '*' / glob with '*') only when both answers come from
    the same kind of section; a global-versus-local disagreement is reported by wildcard class."""
    anon = ":anonymous" if case["anonymous"] else ""
    if any(s["base"] == name for s in case["symvers"]):
        # a symbol that carries explicit versions from .symver: compare version by version
        lv = set(v for v, h in (lstate or []))
        wv = set(v for v, h in (wstate or []))
        parts = []
        if lv - wv:
            parts.append("ld-exports-version-wild-hides")
        if wv - lv:
            parts.append("wild-exports-version-ld-hides")
        return "symver-symbol:" + ("+".join(parts) or "hidden-bit-differs")
    li, lk = pick(case, name, lstate)
    wi, wk = pick(case, name, wstate)
    if li is None or wi is None:
        order = ""
    else:
        order = ":ld-node-" + ("earlier" if li < wi else "later" if li > wi else "same")
    if lk[:2] in ("g:", "l:") and wk[:2] in ("g:", "l:") and lk[:2] != wk[:2]:
        def coarse(k):
            kind = k[2:].replace("(hidden)", "")
            return k[:2] + {"exact": "exact", "cxx-exact": "exact", "star": "star"}.get(kind, "wildcard")
        lk, wk = coarse(lk), coarse(wk)
    undefined = ":undefined-symbol" if name in case["depsyms"] else ""
    return f"version:ld={lk}:wild={wk}{order}{anon}{undefined}"


# ---- case runner -----------------------------------------------------------------------------------

def link(ctx, linker, d, obj, script, out, dep):
    tools.fresh(out)
    args = ["-shared", "--hash-style=both", "--no-gc-sections", obj, "--version-script=" + script, "-o", out, "-soname", "libc32.so"]
    if dep:
        args.insert(4, dep)
    return tools.link(linker, args, cwd=d, timeout=120), args


def consumer_list(case, lmap, ids, alias):
    lines = []
    own = case["csyms"] + case["cxxsyms"] + [s["impl"] for s in case["symvers"]] + [s["base"] for s in case["symvers"]]
    for nm in dict.fromkeys(own):
        st = lmap.get(nm)
        if not st:
            lines.append(f"A {nm}")
            continue
        default = [v for v, h in st if not h and v != "*local*"]
        versioned = all(v not in ("", "*local*") and not v.startswith("need:") for v, h in st)
        for v, h in st:
            if v.startswith("need:") or v == "*local*":
                continue
            node = [i for i, n in enumerate(case["nodes"]) if n["name"] == v]
            ident = alias.get((nm, node[0])) if node and (nm, node[0]) in alias else ids.get(nm)
            if ident is None:
                continue
            if v == "":
                lines.append(f"D {nm} {ident}")
            else:
                lines.append(f"V {nm} {v} {ident}")
                if not h and len(default) == 1:
                    lines.append(f"D {nm} {ident}")
        if versioned:    # glibc lets an unversioned definition satisfy any requested version
            lines.append(f"W {nm} NO_SUCH_VERSION")
    return lines


def run_case(ctx, cid, case):
    d = ctx.scratch.dir("c", cid)
    src, ids, alias = sources(case, cid)
    obj = tools.assemble(ctx, src)
    dep = None
    if case["dep"]:
        dep = os.path.join(d, "libdep.so")
        dobj = DEP_OBJ[0]
        dm = write(os.path.join(d, "dep.map"), DEP_MAP)
        r0 = tools.link("ld", ["-shared", dobj, "--version-script=" + dm, "-o", dep, "-soname", "libdep.so"])
        if not r0.ok:
            return ctx.inconclusive("could not build the dependency library")
    layout = case["layout"]
    text = render(case, layout)
    script = write(os.path.join(d, "v.map"), text)
    own = set(case["csyms"] + case["cxxsyms"] + case["depsyms"] + [s["impl"] for s in case["symvers"]] + [s["base"] for s in case["symvers"]])
    files = {"in.o": obj, "v.map": script}
    if dep:
        files["libdep.so"] = dep
    lout = os.path.join(d, "libld.so")
    lres, largs = link(ctx, "ld", d, obj, script, lout, dep)
    if lres.timed_out:
        return ctx.inconclusive("reference link timed out")
    if not lres.ok:
        ctx.note_set("ld-reject", f"{layout}: " + (lres.errtext().strip().splitlines() or ["?"])[0][-90:] + " <<" + text[:150] + ">>")
        ctx.note("ld-rejects-layout:" + layout)
        # does wild crash on it?
        wres, wargs = link(ctx, "wild", d, obj, script, os.path.join(d, "libwild.so"), dep)
        if not wres.ok and ("panicked" in wres.errtext() or wres.signal):
            files["stderr.txt"] = wres.errtext()
            return ctx.violation("crash:script-ld-rejects", f"wild crashed on a version script: {wres.errtext().strip()[:300]}", case=cid, files=files)
        if wres.ok:
            ctx.note("ld rejected, wild accepted")
        return ctx.inconclusive("reference linker rejected the script")
    lmap = version_map(lout, own)
    lprob, lstats = check_tables(lout)
    if lprob:
        ctx.note_set("ld-tables", lprob[0][0])
        return ctx.inconclusive("reference output fails the table-consistency oracle: " + lprob[0][0])
    lst = write(os.path.join(d, "list.txt"), "\n".join(consumer_list(case, lmap, ids, alias)) + "\n")
    files["list.txt"] = lst
    env = {"LD_LIBRARY_PATH": d}
    lc = run([dyngen.dlsym_driver(ctx), lout, lst], timeout=120, extra_env=env)
    if "DONE checked=" not in lc.outtext() or " fail=0" not in lc.outtext():
        ctx.note_set("ld-consumer", lc.outtext().strip()[:200])
        return ctx.inconclusive("reference output fails the dlvsym consumer")
    wout = os.path.join(d, "libwild.so")
    wres, wargs = link(ctx, "wild", d, obj, script, wout, dep)
    files["cmd.txt"] = "wild " + " ".join(wargs) + "\nld " + " ".join(largs) + "\n"
    if wres.timed_out:
        return ctx.inconclusive("wild link timed out")
    ctx.note("layout:" + layout)
    if not wres.ok:
        txt = wres.errtext()
        if "panicked" in txt or wres.signal:
            files["stderr.txt"] = txt
            where = ""
            for ln in txt.splitlines():
                if "panicked at" in ln:
                    where = ln.split("panicked at")[1].strip().split(":")[0]
            return ctx.violation(f"crash:panic@{where}:layout={layout}", f"wild panicked on a version script GNU ld accepts: {txt.strip()[:300]}",
                                 case=cid, files=files)
        ctx.note("wild-rejects-layout:" + layout)
        ctx.note_set("wild-reject", f"{layout}: " + " ".join(txt.split())[:160])
        if layout != "plain":
            return ctx.inconclusive(f"wild rejects script GNU ld accepts (clean error; layout {layout})")
        return ctx.inconclusive("wild rejects script GNU ld accepts (clean error; plain layout)")
    inj = os.environ.get("VERIF_C32_INJECT")
    if inj:
        inject(wout, inj)
    files["libwild.so"] = wout
    files["libld.so"] = lout
    bad = False
    # (b) tables
    wprob, wstats = check_tables(wout)
    for sig, desc in wprob:
        bad = True
        ctx.violation(sig, f"{desc} [layout {layout}]", case=cid, files=files)
    # (a) differential
    wmap = version_map(wout, own)
    cmp_l, cmp_w, cmp_text = lmap, wmap, text
    if layout != "plain" and lmap != wmap:
        # attribute to the layout when the same script in plain layout is treated differently by wild
        # but identically by GNU ld; semantic differences are then judged on the plain rendering
        ps = write(os.path.join(d, "plain.map"), render(case, "plain"))
        files["plain.map"] = ps
        pres, _ = link(ctx, "wild", d, obj, ps, os.path.join(d, "libwild-plain.so"), dep)
        lp, _ = link(ctx, "ld", d, obj, ps, os.path.join(d, "libld-plain.so"), dep)
        if pres.ok and lp.ok:
            pm = version_map(os.path.join(d, "libwild-plain.so"), own)
            lpm = version_map(os.path.join(d, "libld-plain.so"), own)
            if lpm == lmap and pm != wmap:
                bad = True
                nd = [nm for nm in sorted(own) if pm.get(nm) != wmap.get(nm)]
                ctx.violation(f"syntax:{layout}:accepted-but-parsed-differently",
                              f"wild accepts the script in layout '{layout}' but treats {len(nd)} symbol(s) differently from the same "
                              f"script in plain layout (e.g. {nd[0]}: {wmap.get(nd[0]) or 'local'} vs {pm.get(nd[0]) or 'local'}); GNU ld "
                              f"treats both layouts alike; script:\n{text}", case=cid, files=files, info={"script": text})
                cmp_l, cmp_w, cmp_text = lpm, pm, render(case, "plain")
    diffs = [nm for nm in sorted(own) if cmp_l.get(nm) != cmp_w.get(nm)]
    if diffs:
        bad = True
        sigs = {}
        for nm in diffs:
            sigs.setdefault(classify(case, nm, cmp_l.get(nm), cmp_w.get(nm)), nm)
        for sig, nm in sorted(sigs.items()):
            ctx.violation(sig, f"{nm}: GNU ld gives {cmp_l.get(nm) or 'local'}, wild gives {cmp_w.get(nm) or 'local'}; matching patterns "
                          f"{matches_of(case, nm)}; script:\n{cmp_text}", case=cid, files=files,
                          info={"script": cmp_text, "symbol": nm, "ld": cmp_l.get(nm), "wild": cmp_w.get(nm)})
    # (c) consumer
    wc = run([dyngen.dlsym_driver(ctx), wout, lst], timeout=120, extra_env=env)
    wt = wc.outtext()
    if wc.timed_out:
        ctx.inconclusive("consumer timed out")
    elif "DONE checked=" not in wt:
        bad = True
        ctx.violation("consumer:" + ("loadfail" if "LOADFAIL" in wt else "crash"), f"dlopen/dlvsym on wild's output: {wt.strip()[:300]} {wc.errtext()[:100]}",
                      case=cid, files=files)
    elif " fail=0" not in wt and lmap == wmap:
        bad = True
        fl = [l for l in wt.splitlines() if l.startswith("FAIL")]
        ctx.violation("consumer:" + fl[0].split()[1] + ":tables-agree-with-ld", f"dlvsym disagrees although the tables match GNU ld's: {'; '.join(fl[:3])}",
                      case=cid, files=files)
    if bad:
        return
    kinds = sorted(set(k.split(":")[1] for nm in own for _, k in matches_of(case, nm)))
    for k in kinds:
        ctx.note("pattern-kind:" + k)
    ctx.note("symbols-compared", len(own))
    ctx.note("consumer-lines", len(open(lst).read().splitlines()))
    ctx.note_max("max_verdefs", wstats["verdefs"])
    ctx.note_max("max_verneeds", wstats["verneeds"])
    if case["symvers"]:
        ctx.note("cases-with-symver")
    overl = sum(1 for nm in own if len(set(i for i, _ in matches_of(case, nm))) > 1)
    ctx.note("symbols-matched-by-several-nodes", overl)
    ctx.held(fingerprint=text + "|" + ",".join(sorted(own)), nontrivial=len(lmap) >= 1 and bool(case["nodes"]),
             sample={"script": text, "ld_map": {k: str(v) for k, v in sorted(lmap.items())[:6]}} if isinstance(cid, int) and cid < 3 else None)


def inject(path, mode):
    """Self-validation: corrupt wild's output before the oracles read it."""
    e = Elf(path)
    data = bytearray(e.data)
    if e.section_by_type(0x6fffffff) is None:
        return
    if mode == "versym":
        s = e.section_by_type(0x6fffffff)
        syms = e.dynsym()
        for i, sy in enumerate(syms):
            if i and sy.shndx != SHN_UNDEF:
                v = struct.unpack_from("<H", data, s.offset + 2 * i)[0]
                struct.pack_into("<H", data, s.offset + 2 * i, 1 if (v & 0x7fff) > 1 else 2)
                break
    elif mode == "vdhash":
        s = e.section_by_type(0x6ffffffd)
        if s is not None:
            data[s.offset + 8] ^= 1
    elif mode == "hidden":
        s = e.section_by_type(0x6fffffff)
        for i, sy in enumerate(e.dynsym()):
            if i and sy.shndx != SHN_UNDEF:
                data[s.offset + 2 * i + 1] ^= 0x80
                break
    open(path, "wb").write(data)


def pinned_cases():
    P = lambda **k: dict(dict(csyms=["foo1", "foobar", "bar"], cxxsyms=[], symvers=[], layout="plain", dep=False,
                              anonymous=False, depsyms=[]), **k)
    N = lambda name, g, l, parents=(): dict(name=name, globals=g, locals=l, parents=list(parents))
    return [
        ("pin-global-glob-vs-later-local-glob", P(nodes=[N("V1", [("c", "glob", "foo*")], []), N("V2", [], [("c", "glob", "foo?")])])),
        ("pin-nostar-glob-vs-later-star-glob", P(nodes=[N("V1", [("c", "glob", "foo?")], []), N("V2", [("c", "glob", "foo*")], [])])),
        ("pin-space-before-colon", P(layout="sp-colon", nodes=[N("V1", [("c", "exact", "foo1")], [("c", "star", "*")])])),
        ("pin-symver-hidden-by-local-star-of-other-node", P(
            csyms=["bar", "foo1"], symvers=[dict(impl="foo_impl_a", base="foo", node=1, default=True, remove=True)],
            nodes=[N("V1", [("c", "exact", "bar")], [("c", "star", "*")]), N("V2", [], [], [0])])),
        ("pin-symver-in-node-whose-local-star-matches", P(
            csyms=["bar", "foo1"], symvers=[dict(impl="foo_impl_a", base="foo", node=0, default=True, remove=True)],
            nodes=[N("V1", [], [("c", "star", "*")]), N("V2", [("c", "glob", "foo*")], [])])),
        ("pin-basic", P(nodes=[N("V1", [("c", "exact", "foo1")], [("c", "star", "*")]), N("V2", [("c", "exact", "bar")], [], [0])])),
    ]


def main(ctx):
    ctx.rule = ("random version scripts (1-6 nodes or anonymous, dependency chains, exact names, globs with * ? [], "
                "extern \"C++\" exact/glob on demangled names, local: sections, '*' catch-alls, .symver-assigned symbols, one "
                "layout variant per script) over 3-13 exported functions drawn from a pool built to overlap; optional versioned "
                "dependency library (verneed); a case counts when GNU ld accepts it, its output passes the table and dlvsym "
                "oracles, and wild links it; distinct = script text + symbol set")
    ctx.assumptions = ["GNU ld 2.40 is the arbiter of matching precedence", "glibc 2.36 dlvsym is the consumer",
                       "scripts wild rejects with a clean error are inconclusive (counted per layout feature)"]
    tools.wild()
    dyngen.dlsym_driver(ctx)
    DEP_OBJ[0] = tools.assemble(ctx, DEP_SRC)
    n = ctx.pick(80, 1500)
    pins = dict(pinned_cases())
    jobs = list(pins) + list(range(n))
    if ctx.replay is not None:
        c = str(ctx.replay["case"])
        jobs = [c if c in pins else int(c)]
    pmap(lambda i: run_case(ctx, i, pins[i] if i in pins else gen_case(rng("C32", ctx.seed, i))), jobs)
