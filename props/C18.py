"""C18 A failed link leaves no output file produced by that link.

Oracle: snapshot (inode, size, mtime, sha256) of the output path before a link that is made to fail
by an *error* (the quantifier's list); after the non-zero exit the path must be absent or hold the
untouched prior file. Workload: failure causes that trigger at different phases x prior output
states x write modes x threads x fork/no-fork.
"""
import os
import resource
import signal
import stat
import time

from vlib import faults, tools
from vlib.common import file_sha, pmap, run, write

LEVEL = "fault_enumeration"


def snap(path):
    try:
        st = os.lstat(path)
    except FileNotFoundError:
        return None
    if stat.S_ISLNK(st.st_mode):
        tgt = os.readlink(path)
        try:
            tst = os.stat(path)
            return ("symlink", tgt, tst.st_ino, tst.st_size, tst.st_mtime_ns, file_sha(path))
        except FileNotFoundError:
            return ("symlink", tgt, None)
    if stat.S_ISREG(st.st_mode):
        return ("file", st.st_ino, st.st_size, st.st_mtime_ns, file_sha(path))
    return ("other", st.st_mode)


def causes(ctx):
    """name -> (args, special, phase-class) ; every cause is an error GNU ld also reports."""
    d = ctx.scratch.dir("inputs")
    objs = faults.small_objects(ctx, 3, tag="c18")
    garbage = write(os.path.join(d, "garbage.o"), b"\x7fELF\x02\x01\x01" + b"\x00" * 9 + b"\x01\x00\x3e\x00" + b"\xff" * 200)
    undef = tools.assemble(ctx, ".globl _start\n_start: call missing_fn\n", name="c18undef")
    dup = tools.assemble(ctx, ".globl f1\nf1: ret\n", name="c18dup")
    ovf = tools.assemble(ctx, ".globl ovf\novf: movl $big, %eax\n ret\n.data\n.quad ovf\n", name="c18ovf")
    ovf_start = tools.assemble(ctx, ".globl _start\n_start: call ovf\n call f1\n.section .keepme,\"a\"\n.quad ovf\n", name="c18ovfs")
    assert_lds = write(os.path.join(d, "fail.lds"), 'ASSERT(0, "boom")\n')
    bad_vs = write(os.path.join(d, "bad.ver"), "V1 { global: foo; local: *; \n")  # unterminated
    return {
        "parse-error-late-input": ([*objs, garbage], None),
        "undefined-symbol": ([undef, *objs[1:]], None),
        "duplicate-symbol": ([*objs, dup], None),
        "relocation-overflow": ([ovf_start, ovf, *objs[1:], "--defsym=big=0x123456789"], None),
        "assert-failure": ([*objs, assert_lds], None),
        "version-script-error": ([*objs, "-shared", f"--version-script={bad_vs}"], None),
        "write-error-fsize": (objs, "fsize"),
    }


PRIOR = ["absent", "regular", "readonly", "executing", "hardlinked", "symlink"]
MODES = {"default": [], "update-in-place": ["--update-in-place"], "no-update-in-place": ["--no-update-in-place"]}


def one(ctx, cname, cargs, special, prior, mname, margs, threads, fork):
    cid = f"{cname}/{prior}/{mname}/t{threads}/{'fork' if fork else 'nofork'}"
    if ctx.replay is not None and ctx.replay.get("case") != cid:
        return
    wd = ctx.scratch.dir("c", cid.replace("/", "_"))
    out = os.path.join(wd, "out.bin")
    helper = None
    other = None
    old = b"#!/bin/sh\nexit 7\n" + b"old-output-contents" * 50
    if prior != "absent":
        if prior == "symlink":
            other = os.path.join(wd, "real-target.bin")
            write(other, old)
            os.chmod(other, 0o755)
            os.symlink("real-target.bin", out)
        elif prior == "executing":
            # a real ELF that sleeps, so the ETXTBSY path is exercised
            import shutil
            shutil.copy("/bin/sleep", out)
        else:
            write(out, old)
            os.chmod(out, 0o755)
        if prior == "readonly":
            os.chmod(out, 0o444)
        if prior == "hardlinked":
            other = os.path.join(wd, "other-link.bin")
            os.link(out, other)
        if prior == "executing":
            import subprocess
            for _try in range(200):
                try:
                    helper = subprocess.Popen([out, "30"], stdout=subprocess.DEVNULL, stderr=subprocess.DEVNULL)
                    break
                except OSError as ex:
                    # ETXTBSY: another harness thread forked while our copy's write fd was open
                    if ex.errno != 26:
                        raise
                    time.sleep(0.01)
            if helper is None:
                ctx.inconclusive("could not start the helper process (ETXTBSY in the harness)")
                return
            time.sleep(0.05)
    # make sure the mtime granularity cannot hide a rewrite
    before = snap(out)
    before_other = snap(other) if other else None
    pre = None
    if special == "fsize":
        def pre():
            signal.signal(signal.SIGXFSZ, signal.SIG_IGN)
            resource.setrlimit(resource.RLIMIT_FSIZE, (64, 64))
    cmd = [tools.wild(), *cargs, *margs, f"--threads={threads}", *([] if fork else ["--no-fork"]), "-o", out]
    r = run(cmd, timeout=60, preexec_fn=pre, cwd=wd)
    try:
        if r.timed_out:
            ctx.inconclusive("watchdog fired")
            return
        if r.rc == 0:
            ctx.inconclusive(f"cause {cname} did not make the link fail")
            return
        if r.signal is not None or "panicked" in r.errtext():
            ctx.inconclusive("failed by crash, not by error (outside the quantifier; see C22)")
            return
        after = snap(out)
        after_other = snap(other) if other else None
        ctx.note(f"cause:{cname}")
        ctx.note(f"prior:{prior}")
        bad = None
        if after is not None and after != before:
            bad = "output-left-or-modified"
        elif other and after_other != before_other:
            # Information only: the statement is about the output path. A prior file that was
            # updated in place is also reachable through its other hard link / symlink target.
            ctx.note(f"info:other-name-of-prior-file-changed:{prior}")
        if bad:
            ctx.violation(f"{bad}:cause={cname}:prior={prior}:mode={mname}",
                          f"failed link ({cname}, rc={r.rc}) left the output path changed: before={before} after={after} "
                          f"(prior={prior}, mode={mname}, threads={threads}, fork={fork})",
                          case=cid, files={"cmd.txt": " ".join(cmd), "stderr.txt": r.errtext()})
        else:
            ctx.held(fingerprint=cid, nontrivial=True,
                     sample={"case": cid, "rc": r.rc, "after": "absent" if after is None else "untouched"}
                     if cname == "relocation-overflow" and prior in ("absent", "regular") else None)
    finally:
        if helper:
            helper.kill()
            helper.wait()
        if prior == "readonly":
            try:
                os.chmod(out, 0o644)
            except OSError:
                pass


def main(ctx):
    ctx.rule = ("failure cause x prior output state x write mode x threads x fork; non-trivial = the link exited non-zero "
                "by an error (not a crash) so the oracle ran; distinct = the full tuple")
    ctx.assumptions = ["injected crashes/signals are outside the property's quantifier (no cleanup is possible after SIGKILL)",
                       "a prior file counts as untouched when inode, size, mtime and sha256 are unchanged"]
    tools.wild()
    cs = causes(ctx)
    jobs = []
    for cname, (cargs, special) in cs.items():
        for prior in PRIOR:
            for mname, margs in MODES.items():
                tl = [4] if ctx.quick else [1, 16]
                fl = [True] if ctx.quick else [True, False]
                if ctx.quick and mname != "default" and prior not in ("regular", "absent"):
                    continue
                for t in tl:
                    for f in fl:
                        jobs.append((cname, cargs, special, prior, mname, margs, t, f))
    pmap(lambda j: one(ctx, *j), jobs)
    # The output file is created by a background task while the main thread carries on: a failure
    # that strikes soon after layout races with that task. Repeat the fast failures many times so
    # that both orders of (error path, file creation) are seen.
    reps = ctx.pick(150, 1500)
    ncreated = [0]

    def rep(k):
        cname = ("assert-failure", "relocation-overflow")[k % 2]
        cargs, special = cs[cname]
        cid = f"race/{cname}/{k}"
        if ctx.replay is not None and ctx.replay.get("case") != cid:
            return
        wd = ctx.scratch.dir("race", k % 64, k)
        out = os.path.join(wd, "out.bin")
        cmd = [tools.wild(), *cargs, f"--threads={(2, 4, 16)[k % 3]}", "-o", out]
        r = run(cmd, timeout=60, cwd=wd)
        if r.timed_out or r.rc == 0 or r.signal is not None:
            ctx.inconclusive("race repetition did not fail by an error")
            return
        # give a late background creation a moment (the process has exited, so this is only about
        # what is on disk now)
        if os.path.lexists(out):
            ctx.violation(f"output-left-or-modified:cause={cname}:prior=absent:mode=default",
                          f"failed link ({cname}) left a file at the output path (repetition {k}: creation raced with the error path)",
                          case=cid, files={"cmd.txt": " ".join(cmd), "stderr.txt": r.errtext()})
        else:
            ctx.held(fingerprint=cid if k < 4 else None, nontrivial=True)
            ctx.note("race_repetitions_clean")
    pmap(rep, range(reps))
    ctx.exhaustive = True
    ctx.extra["exhaustive_scope"] = "cause x prior state x mode (x threads x fork in thorough) matrix enumerated completely"
