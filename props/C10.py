"""C10 Unwind tables cover every retained function.

Oracles: (a) vlib/ehcheck.py parses `.eh_frame` / `.eh_frame_hdr` of the output independently
(CIE augmentation -> FDE encodings, header encodings) and checks: table count == number of FDEs,
table sorted, every entry points at an FDE that starts at the entry's address, every FDE is in the
table; the set of output FDEs == {input FDEs whose function section was placed (`.layout`), at
placement + offset} + linker-made PLT FDEs (so: none for GC'd / COMDAT-discarded functions, none
missing), and each kept FDE still has its range, CIE augmentation, call-frame instructions, LSDA and
personality (input `.rela.eh_frame` gives the links). The same oracle is first evaluated on GNU ld's
output of the same inputs with placements read from ld's -Map file; classes ld fails are dropped.
(b) the real consumer: a helper constructor linked into every program calls libgcc's
_Unwind_Find_FDE for the first and last byte of every expected function (must return an FDE with
bases.func == f) and for asm functions without unwind info (must return NULL); C++ programs throw
through frames spanning objects, archives, a shared library, COMDAT templates and a C frame with a
cleanup (second personality) and catch at every depth; stdout must equal GNU ld's link's.
Workload: proggen programs (cxx, asm features) and generated exception-chain programs, gcc and
clang objects, -ffunction-sections + --gc-sections, static/static-pie/pie/dyn/shared, threads
{1,16}, WILD_FILES_PER_GROUP, WILD_VERIF_SCHED.
"""
import os

from vlib import tools, gcmodel, ehcheck
from vlib import elf as E
from vlib import proggen as pg
from vlib.common import pmap, rng, run, write, HarnessError
from vlib.xlink import SigLimiter

LEVEL = "exploration"

HELPER = r'''
#include <stdio.h>
#include <stdlib.h>
struct dwarf_eh_bases { void *tbase, *dbase, *func; };
extern const void *_Unwind_Find_FDE(void *, struct dwarf_eh_bases *);
__attribute__((visibility("hidden"), noinline, used)) void C10_ANCHOR(void) { __asm__ volatile(""); }
__attribute__((constructor, used)) static void c10_ctor(void) {
    const char *lp = getenv("C10_LIST_" C10_TAG), *op = getenv("C10_OUT_" C10_TAG);
    if (!lp || !op) return;
    FILE *in = fopen(lp, "r"), *out = fopen(op, "w");
    if (!in || !out) return;
    char kind; unsigned long delta, size; long ok = 0, bad = 0;
    char *anchor = (char *)(void *)C10_ANCHOR;
    while (fscanf(in, " %c %lx %lx", &kind, &delta, &size) == 3) {
        char *f = anchor + delta;
        if (kind == 'F') {
            for (int w = 0; w < 2; w++) {
                struct dwarf_eh_bases b = { 0, 0, 0 };
                char *pc = w ? f + size - 1 : f + (size > 1);
                const void *r = _Unwind_Find_FDE(pc, &b);
                if (r && b.func == (void *)f) ok++;
                else { bad++; if (bad < 20) fprintf(out, "BAD F %lx %s\n", delta, r ? "other-function" : "not-found"); }
            }
        } else {
            struct dwarf_eh_bases b = { 0, 0, 0 };
            const void *r = _Unwind_Find_FDE(f, &b);
            if (!r) ok++;
            else { bad++; if (bad < 20) fprintf(out, "BAD N %lx found\n", delta); }
        }
    }
    fprintf(out, "DONE ok=%ld bad=%ld\n", ok, bad);
    fclose(out);
    fclose(in);
}
'''

KARGS = {"static": ["-static", "-no-pie"], "static-pie": ["-static-pie"], "pie": ["-pie"], "dyn": ["-no-pie"]}


def wild_env(r):
    env = {"WILD_WRITE_LAYOUT": "1"}
    threads = r.choice([1, 16])
    fpg = r.choice([None, None, 1, 3])
    if fpg:
        env["WILD_FILES_PER_GROUP"] = str(fpg)
    if r.random() < 0.6:
        env["WILD_VERIF_SCHED"] = f"{r.randrange(1 << 30)}:{r.choice([10, 30, 60])}"
    return env, threads


def helper_obj(ctx, tag, pic):
    flags = ["-O1", f'-DC10_TAG="{tag}"', f"-DC10_ANCHOR=c10_anchor_{tag}", "-ffunction-sections"] + (["-fPIC"] if pic else ["-fno-pic", "-fno-pie"])
    return tools.compile_c(ctx, HELPER, flags, name="c10h_" + tag)


class Linked:
    """One linked output (executable or library) with everything needed to judge it."""

    def __init__(self, out, tag):
        self.out, self.tag = out, tag
        self.an = None


def static_oracle(out, placement_kind, side_file, files_hint=None, cwd=None):
    """-> (Analysis, files, model). placement_kind: 'wild' (side_file = .layout; also defines the
    file list) or 'ld' (side_file = map text, files_hint = (files, model) from the wild link)."""
    if placement_kind == "wild":
        layout = tools.read_layout(side_file)
        files = gcmodel.load_files(layout, cwd=cwd)
        model = gcmodel.Model(files, gcmodel.Roots())
        pl = ehcheck.WildPlacement(layout)
    else:
        files, model = files_hint
        pl = ehcheck.MapPlacement(side_file, files)
    return ehcheck.analyse(out, files, model, pl), files, model


def write_lists(an, out, tag, wd, who):
    """Writes the helper's work list for output `out`; returns env additions or None."""
    e = E.Elf(out)
    a = None
    for sy in e.symtab():
        if sy.name == f"c10_anchor_{tag}" and sy.defined:
            a = sy.value
    if a is None:
        return None
    lines = []
    for pc, x in sorted(an.expected.items()):
        lines.append(f"F {(pc - a) & ((1 << 64) - 1):x} {x['size']:x}")
    for addr, _name in sorted(set((a_, n_) for a_, n_, f_ in an.nofde_funcs if f_.member is None and "/.scratch/" in f_.path)):
        lines.append(f"N {(addr - a) & ((1 << 64) - 1):x} 1")
    lp = write(os.path.join(wd, f"{who}-{tag}.list"), "\n".join(lines) + "\n")
    op = os.path.join(wd, f"{who}-{tag}.result")
    if os.path.exists(op):
        os.unlink(op)
    return {"C10_LIST_" + tag: lp, "C10_OUT_" + tag: op}, op, len(lines)


def read_result(op):
    try:
        t = open(op).read()
    except OSError:
        return None, "helper wrote no result"
    last = [ln for ln in t.splitlines() if ln.startswith("DONE")]
    if not last:
        return None, "helper did not finish"
    ok = int(last[0].split("ok=")[1].split()[0])
    bad = int(last[0].split("bad=")[1].split()[0])
    kinds = sorted(set(" ".join(ln.split()[1:2] + ln.split()[3:4]) for ln in t.splitlines() if ln.startswith("BAD")))
    return (ok, bad, kinds), t


class Case:
    """Common judging of one program linked by ld (reference) and wild."""

    def __init__(self, ctx, lim, case, desc):
        self.ctx, self.lim, self.case, self.desc = ctx, lim, case, desc
        self.files = {}

    def judge(self, ld_outs, wild_outs, ld_run, wild_run, ld_maps, wd, kn, eh_lines):
        """ld_outs / wild_outs: list[Linked] (exe first). *_run: callable(env) -> Result.
        ld_maps: {tag: map text}. Returns True when a verdict was recorded."""
        ctx, lim = self.ctx, self.lim
        per_tag_dropped = {}
        env_w, env_l = {}, {}
        res_files = {}
        total_expected = total_dropped = total_checked = 0
        findings = []
        for lw, ll in zip(wild_outs, ld_outs):
            try:
                an_w, files, model = static_oracle(lw.out, "wild", lw.out + ".layout", cwd=os.path.dirname(lw.out))
            except (OSError, E.ElfError, IndexError) as ex:
                ctx.note("wild-output-unreadable")
                lim.violation("output-unreadable", f"{self.desc}: wild's output or layout could not be analysed: {ex}", case=self.case, files=self.files)
                return True
            an_l, _f, _m = static_oracle(ll.out, "ld", ld_maps[ll.tag], files_hint=(files, model))
            dropped = set(s.split(":")[0] for s, _d in an_l.findings)
            for s in dropped:
                ctx.note("class-dropped-after-ld-calibration:" + s)
            per_tag_dropped[lw.tag] = dropped
            if len(an_l.expected) < 0.8 * len(an_w.expected):
                ctx.note("ld-map-placement-incomplete")
            for s, d in an_w.findings:
                if s.split(":")[0] in dropped:
                    continue
                if s.split(":")[0] in getattr(self, "info_only", ()):
                    # not part of the statement for this input class (see exc_case): observed, not judged
                    ctx.note("info:" + s.split(":")[0])
                    continue
                findings.append((s, d, lw.tag))
            lw.an, ll.an = an_w, an_l
            for k, v in an_w.stats.items():
                if isinstance(v, int):
                    ctx.note_max("max-" + k, v)
                else:
                    ctx.note_set(k, v)
            total_expected += len(an_w.expected)
            total_dropped += an_w.stats.get("input_fdes_of_discarded_sections", 0) + an_w.stats.get("input_fdes_of_comdat_losers", 0)
            total_checked += an_w.stats.get("fdes_compared", 0)
            for who, an, out, env in (("wild", an_w, lw.out, env_w), ("ld", an_l, ll.out, env_l)):
                t = write_lists(an, out, lw.tag, wd, who)
                if t:
                    env.update(t[0])
                    res_files[(who, lw.tag)] = (t[1], t[2])
        for s, d, tag in findings:
            lim.violation(s, f"{self.desc} [{tag}]: {d}", case=self.case, files=self.files)
        # ---- run --------------------------------------------------------------------------------------
        rl = ld_run(env_l)
        if rl.timed_out:
            ctx.inconclusive("watchdog fired")
            return True
        if rl.rc != 0 or len(rl.outtext().splitlines()) < 3:
            ctx.note("ld-program-unusable:" + kn)
            ctx.inconclusive("GNU ld's link of the program does not run")
            return True
        rw = wild_run(env_w)
        if rw.timed_out:
            ctx.inconclusive("watchdog fired")
            return True
        bad_run = False
        if rw.rc != 0 or rw.out != rl.out:
            d = pg.diff_transcripts(rl.outtext(), rw.outtext())
            ehk = [x for x in d if x[0] in eh_lines or x[0] == "?"]
            term = "terminate called" in rw.errtext()
            if "symbol lookup error" in rw.errtext() or "undefined symbol" in rw.errtext():
                ctx.note("wild-output-fails-dynamic-symbol-lookup:" + kn)
                ctx.inconclusive("wild's output fails at run time with a dynamic symbol lookup error (not an unwind-table question)")
                return True
            if term or ehk or (rw.rc != 0 and not d):
                bad_run = True
                how = "terminate" if term else ("crash" if rw.rc != 0 else "different-output")
                lim.violation(f"exception-behaviour-differs:{how}:kind={kn}",
                              f"{self.desc}: program linked by wild behaves differently from GNU ld's link: rc={rw.rc} "
                              f"stderr={rw.errtext().strip()[:120]!r} first differences {ehk[:4] or d[:4]}", case=self.case,
                              files=dict(self.files, **{"ld.stdout": rl.out, "wild.stdout": rw.out, "wild.run.stderr": rw.err}))
            else:
                ctx.note("differs-outside-exception-probes:" + kn)
                ctx.inconclusive("wild's link behaves differently in probes unrelated to unwinding (C28's business)")
                return True
        # ---- helper results ---------------------------------------------------------------------------
        consumer_checked = 0
        for (who, tag), (op, n) in sorted(res_files.items()):
            if who != "wild":
                continue
            rres, raw = read_result(op)
            lres, lraw = read_result(res_files[("ld", tag)][0]) if ("ld", tag) in res_files else (None, "")
            if lres is None or lres[1] != 0:
                ctx.note("consumer-check-uncalibrated:" + kn)
                continue
            if rres is None:
                if not bad_run:
                    lim.violation(f"unwind-find-fde:helper-did-not-finish:kind={kn}", f"{self.desc} [{tag}]: the lookup helper finished under GNU ld's "
                                  f"link but not under wild's ({raw[:100]})", case=self.case, files=self.files)
                    bad_run = True
                continue
            consumer_checked += rres[0]
            if rres[1]:
                bad_run = True
                for k in rres[2][:2]:
                    what = {"F not-found": "retained-function-not-found", "F other-function": "lookup-returns-other-function",
                            "N found": "fde-found-for-function-without-unwind-info"}.get(k, k.replace(" ", "-"))
                    lim.violation(f"unwind-find-fde:{what}", f"{self.desc} [{tag}]: libgcc's _Unwind_Find_FDE fails for {rres[1]} lookups in wild's "
                                  f"output (all succeed in GNU ld's): {raw.strip().splitlines()[:3]}", case=self.case,
                                  files=dict(self.files, **{"helper.result": raw}))
        ctx.note_max("max-consumer-lookups-ok", consumer_checked)
        if findings or bad_run:
            return True
        ncaught = sum(1 for ln in rl.outtext().splitlines() if "caught" in ln or ln.startswith("cxx_exc"))
        ctx.held(fingerprint=f"{self.case}|{kn}|{total_expected}|{total_dropped}",
                 nontrivial=total_checked >= 8 and total_dropped >= 1 and consumer_checked >= 8,
                 sample={"program": self.desc, "kind": kn, "expected_fdes": total_expected, "input_fdes_dropped_with_their_function": total_dropped,
                         "fdes_compared": total_checked, "consumer_lookups_ok": consumer_checked, "exception_lines": ncaught}
                 if self.case.endswith(".0") or self.case.endswith(".1") else None)
        return True


# ---- workload A: proggen programs ---------------------------------------------------------------------

def prog_case(ctx, lim, i):
    r = rng("C10", ctx.seed, "prog", i)
    force = ["asm"] + (["cxx"] if r.random() < 0.6 else [])
    feats = pg.random_features(r, force=force, forbid=("tls", "tls_thread", "tlsdesc", "ifunc"))
    prog = pg.gen_program(r, features=feats)
    for u in prog.units:
        if u.lang != "s" and "-ffunction-sections" not in u.cflags:
            u.cflags += ["-ffunction-sections", "-fdata-sections"]
    cm = r.choice(pg.CODE_MODELS)
    kind = r.choice(prog.kinds(cm))
    case = f"prog.{i}"
    exe_pie = cm != "nopic"
    kn = kind if kind != "shared" else ("shared-pie" if exe_pie else "shared-nopie")
    try:
        built = prog.build(ctx, cm, shared=(kind == "shared"))
        hx = pg.Unit("c10h_exe", "c", "exe")
        built = list(built) + [pg.BuiltUnit(hx, helper_obj(ctx, "exe", cm != "nopic"))]
        if kind == "shared":
            hl = pg.Unit("c10h_lib", "c", "lib")
            built.append(pg.BuiltUnit(hl, helper_obj(ctx, "lib", True)))
    except HarnessError as ex:
        ctx.note("generator-compile-failure")
        return ctx.inconclusive("generated program does not compile: " + str(ex)[:80])
    env, threads = wild_env(r)
    wd = ctx.scratch.dir("p", case)

    def link(linker, tag):
        w = os.path.join(wd, tag)
        x = ["-Wl,--eh-frame-hdr"]
        lx = None
        if linker == "wild":
            x.append(f"-Wl,--threads={threads}")
        else:
            lx = x + [f"-Wl,-Map={w}/lib.map"]
            x = x + [f"-Wl,-Map={w}/exe.map"]
        return pg.link_and_run(ctx, linker, prog, built, kind, extra_link_args=x, lib_link_args=lx, workdir=w, gc=True, exe_pie=exe_pie,
                               extra_env=env if linker == "wild" else None, link_timeout=400, run_it=False)
    ll = link("ld", "ld")
    if ll.link is None or not ll.link.ok or (ll.lib_link is not None and not ll.lib_link.ok):
        ctx.note("ld-rejected:" + kn)
        return ctx.inconclusive("reference linker rejected the program")
    lw = link("wild", "wild")
    if (lw.link is not None and lw.link.timed_out) or (lw.lib_link is not None and lw.lib_link.timed_out):
        return ctx.inconclusive("watchdog fired")
    C = Case(ctx, lim, case, f"proggen program ({cm}, {kn})")
    C.files = {"commands.txt": pg.command_text(ctx, "wild", prog, lw) + f"# code model {cm}; env {env}; --threads={threads}\n"
                               "# reference: the same command with ld.bfd (-Wl,-Map=...)\n",
               "wild.stderr": (lw.link.errtext() if lw.link else "") + (lw.lib_link.errtext() if lw.lib_link else "")}
    for name, text in prog.sources(cm, kind == "shared").items():
        C.files["src/" + name] = text
    C.files["src/c10_helper.c"] = HELPER
    for b in built:
        C.files["obj/" + os.path.basename(b.obj)] = b.obj
    if lw.link is None or not lw.link.ok or (lw.lib_link is not None and not lw.lib_link.ok):
        ctx.note("wild-link-failed:" + kn)
        return ctx.inconclusive("wild could not link the program (not an unwind-table question)")
    ld_outs, w_outs, maps = [Linked(ll.out, "exe")], [Linked(lw.out, "exe")], {"exe": open(os.path.join(wd, "ld", "exe.map")).read()}
    if kind == "shared":
        ld_outs.append(Linked(ll.lib, "lib"))
        w_outs.append(Linked(lw.lib, "lib"))
        maps["lib"] = open(os.path.join(wd, "ld", "lib.map")).read()

    def runner(lr, sub):
        def go(envx):
            e2 = dict(envx)
            if kind == "shared":
                e2["LD_LIBRARY_PATH"] = os.path.join(wd, sub)
            return run([lr.out], timeout=120, extra_env=e2, cwd=os.path.join(wd, sub))
        return go
    for f in sorted(prog.features):
        ctx.note("prog-feature:" + f)
    ctx.note("kind:" + kn)
    ctx.note(f"threads:{threads}")
    C.judge(ld_outs, w_outs, runner(ll, "ld"), runner(lw, "wild"), maps, wd, kn, eh_lines=("cxx_exc", "cxx_virt", "cxx_inline"))


# ---- workload B: exception chains -------------------------------------------------------------------------

EXC_HDR = r'''
#include <cstdio>
#include <stdexcept>
struct ErrA { int code; explicit ErrA(int c) : code(c) {} virtual ~ErrA() {} virtual int what() const { return code; } };
struct ErrB : ErrA { explicit ErrB(int c) : ErrA(c) {} int what() const override { return code * 2; } };
struct Guard { const char *n; int lvl; Guard(const char *n_, int l) : n(n_), lvl(l) {} ~Guard() { std::printf("unwind %s %d\n", n, lvl); } };
typedef int (*lvl_fn)(int, int);
extern "C" void raise_it(int mode);
extern "C" int c_mid(lvl_fn next, int d, int m);
extern "C" int asm_leaf(int);
template <int N> inline int hop(lvl_fn next, int d, int m) { Guard g("hop", N); int v = next(d, m); return v + N; }
static inline int via_ptr(lvl_fn f, int d, int m) { lvl_fn volatile fp = f; return fp(d, m); }
inline int inl_add(int a, int b) { Guard g("inl", a); if (b == 77) throw ErrA(a + 1000); return a + b; }
@DECLS@
'''

C_MID = r'''
#include <stdio.h>
typedef int (*lvl_fn)(int, int);
static void cu(int *p) { printf("c cleanup %d\n", *p); }
int c_mid(lvl_fn next, int d, int m) { int x __attribute__((cleanup(cu))) = 99 + d; return next(d, m) + 1; }
int c_unused(lvl_fn next, int d) { int x __attribute__((cleanup(cu))) = 7; return next(d, 0) + 2; }
'''

ASM_LEAF = '''    .section .text.asm_leaf,"ax",@progbits
    .globl asm_leaf
    .type asm_leaf,@function
asm_leaf:
    lea 1(%rdi), %eax
    ret
    .size asm_leaf, .-asm_leaf
    .section .text.asm_unused,"ax",@progbits
    .globl asm_unused
    .type asm_unused,@function
asm_unused:
    xor %eax, %eax
    ret
    .size asm_unused, .-asm_unused
    .section .note.GNU-stack,"",@progbits
'''


def gen_exc(r):
    K = r.randint(2, 5)
    depth = r.randint(3, 9)
    unit_of = [r.randrange(K) for _ in range(depth)]
    decls = "\n".join(f"int lvl{i}(int, int);" for i in range(depth + 1))
    hdr = EXC_HDR.replace('@DECLS@', decls)
    bodies = [[] for _ in range(K)]
    for i in range(depth):
        nxt = f"lvl{i + 1}"
        c = r.random()
        if c < 0.35:
            call = f"{nxt}(d, m)"
        elif c < 0.65:
            call = f"hop<{r.choice([1, 2, 3])}>({nxt}, d, m)"
        elif c < 0.8:
            call = f"c_mid({nxt}, d, m)"
        else:
            call = f"via_ptr({nxt}, d, m)"
        style = r.choice(["typed", "typed", "rethrow", "translate", "all"])
        if style == "typed":
            handlers = (f'catch (const ErrB &e) {{ std::printf("lvl{i} caught ErrB %d\\n", e.what()); return -{i}; }} '
                        f'catch (const ErrA &e) {{ std::printf("lvl{i} caught ErrA %d\\n", e.what()); return -{i} - 100; }} '
                        f'catch (int v) {{ std::printf("lvl{i} caught int %d\\n", v); return -{i} - 200; }}')
        elif style == "rethrow":
            handlers = f'catch (...) {{ std::printf("lvl{i} rethrow\\n"); throw; }}'
        elif style == "translate":
            handlers = (f'catch (int v) {{ std::printf("lvl{i} translate int %d\\n", v); throw ErrB(v + {i}); }} '
                        f'catch (const std::exception &e) {{ std::printf("lvl{i} caught std %s\\n", e.what()); return -{i} - 300; }}')
        else:
            handlers = f'catch (...) {{ std::printf("lvl{i} caught something\\n"); return -{i} - 400; }}'
        bodies[unit_of[i]].append(
            f'int lvl{i}(int d, int m) {{\n    Guard g("lvl", {i});\n    if (d == {i}) {{ try {{ return {call} + {i}; }} {handlers} }}\n'
            f'    return {call} + {i};\n}}')
    last_unit = r.randrange(K)
    bodies[last_unit].append(
        f'int lvl{depth}(int d, int m) {{ Guard g("last", {depth}); raise_it(m); return inl_add(d, m); }}')
    raise_unit = r.randrange(K)
    bodies[raise_unit].append(
        'extern "C" void raise_it(int mode) {\n    Guard g("raise", mode);\n    if (mode == 1) throw ErrA(41);\n    if (mode == 2) throw ErrB(21);\n'
        '    if (mode == 3) throw 7;\n    if (mode == 4) throw std::runtime_error("rt");\n    if (mode == 5) inl_add(5, 77);\n}')
    for k in range(K):
        for j in range(r.randint(1, 3)):
            n = r.choice([1, 2, 3, 4])
            bodies[k].append(f'int unused_u{k}_{j}(int x) {{ Guard g("unused", x); return hop<{n}>(lvl0, x, 0) + inl_add(x, {j}); }}')
    main = ['int main() {', '    std::printf("asm %d\\n", asm_leaf(3));']
    main.append(f'    for (int m = 0; m <= 5; m++) for (int d = -1; d <= {depth}; d++) {{')
    main.append('        std::printf("case m=%d d=%d\\n", m, d);')
    main.append('        try { int v = lvl0(d, m); std::printf("ret %d\\n", v); }')
    main.append('        catch (const ErrA &e) { std::printf("main caught ErrA %d\\n", e.what()); }')
    main.append('        catch (int v) { std::printf("main caught int %d\\n", v); }')
    main.append('        catch (const std::exception &e) { std::printf("main caught std %s\\n", e.what()); }')
    main.append('    }\n    std::printf("end main = ok\\n");\n    return 0;\n}')
    units = []
    for k in range(K):
        units.append(dict(name=f"x{k}", lang="c++", src=hdr + "\n".join(bodies[k]) + "\n", levels=[i for i in range(depth) if unit_of[i] == k]))
    units.append(dict(name="xmain", lang="c++", src=hdr + "\n".join(main) + "\n", levels=[]))
    return dict(units=units, depth=depth, K=K, raise_unit=raise_unit, last_unit=last_unit, unit_of=unit_of)


EH_TERM = '''    .section .eh_frame,"a",@progbits
    .long 0
    .section .note.GNU-stack,"",@progbits
'''


def exc_case(ctx, lim, i):
    r = rng("C10", ctx.seed, "exc", i)
    g = gen_exc(r)
    kind = r.choice(["static", "static-pie", "pie", "pie", "dyn", "shared", "shared"])
    case = f"exc.{i}"
    K = g["K"]
    # library: a subset of units closed under "calls" is hard to get with random chains, so the library
    # holds any subset of the x-units; it may call back into the executable (the linker must export those)
    lib_units = set()
    if kind == "shared":
        lib_units = set(r.sample(range(K), r.randint(1, K)))
    pie = kind in ("static-pie", "pie") or (kind in ("shared",) and r.random() < 0.7)
    wd = ctx.scratch.dir("x", case)
    objs, libobjs, srcs, steps = [], [], {}, []
    clang_ok = tools.CLANG is not None

    def comp(name, lang, src, in_lib, extra=()):
        flags = [r.choice(["-O0", "-O1", "-O2", "-Os"])]
        if r.random() < 0.85:
            flags.append("-ffunction-sections")
        if r.random() < 0.2:
            flags.append("-fno-asynchronous-unwind-tables")
        flags += ["-fPIC"] if in_lib else (["-fpie"] if pie else r.choice([["-fno-pic", "-fno-pie"], ["-fpie"]]))
        flags += list(extra)
        compiler = None
        if lang == "c++" and clang_ok and r.random() < 0.3:
            compiler = tools.CLANG
        o = tools.compile_c(ctx, src, flags, lang=lang, compiler=compiler, name=name)
        p = os.path.join(wd, name + ".o")
        if os.path.lexists(p):
            os.unlink(p)
        os.symlink(o, p)
        ext = {"c": ".c", "c++": ".cc", "s": ".s"}[lang]
        srcs[name + ext] = src
        steps.append(f"{os.path.basename(compiler) if compiler else ('g++' if lang == 'c++' else 'gcc')} -c {' '.join(flags)} {name}{ext} -o {name}.o")
        return p
    try:
        for k, u in enumerate(g["units"][:-1]):
            (libobjs if k in lib_units else objs).append(comp(u["name"], "c++", u["src"], k in lib_units))
        mainobj = comp("xmain", "c++", g["units"][-1]["src"], False)
        cmid_lib = kind == "shared" and r.random() < 0.5
        (libobjs if cmid_lib else objs).append(comp("cmid", "c", C_MID, cmid_lib, extra=["-fexceptions"]))
        objs.append(comp("asmleaf", "s", ASM_LEAF, False))
        hexe = helper_obj(ctx, "exe", pie)
        hlib = helper_obj(ctx, "lib", True) if kind == "shared" else None
    except HarnessError as ex:
        ctx.note("generator-compile-failure:" + str(ex)[:60])
        return ctx.inconclusive("generated program does not compile")
    r.shuffle(objs)
    inputs = [mainobj]
    if len(objs) >= 2 and r.random() < 0.5:
        n = r.randint(1, len(objs) - 1)
        thin = r.random() < 0.3
        a = os.path.join(wd, "libx.a")
        tools.make_archive(a, objs[:n], thin=thin)
        steps.append(f"ar {'rcsT' if thin else 'rcs'} libx.a " + " ".join(os.path.basename(o) for o in objs[:n]))
        # archive after the objects that reference its members; members referencing each other are fine
        inputs += objs[n:] + [a, a]
    else:
        inputs += objs
    has_term = False
    if r.random() < 0.4:
        # an object whose .eh_frame is only a zero terminator (like crtend.o's __FRAME_END__), but in the
        # middle of the link: objects after it must still get correct FDEs and table entries
        t = comp("ehterm", "s", EH_TERM, False)
        inputs.insert(r.randint(1, len(inputs)), t)
        ctx.note("mid-link-eh-frame-terminator")
        has_term = True
    inputs.append(hexe)
    env, threads = wild_env(r)
    kargs = KARGS[kind] if kind != "shared" else (["-pie"] if pie else ["-no-pie"])
    kn = kind if kind != "shared" else ("shared-pie" if pie else "shared-nopie")
    cmds = []

    def link(linker, sub):
        w = os.path.join(wd, sub)
        os.makedirs(w, exist_ok=True)
        common = ["-Wl,--gc-sections", "-Wl,--eh-frame-hdr"] + ([f"-Wl,--threads={threads}"] if linker == "wild" else [])
        lib = None
        if kind == "shared":
            lib = tools.fresh(os.path.join(w, "libexc.so"))
            a = ["-shared", *common, *libobjs, hlib] + ([f"-Wl,-Map={w}/lib.map"] if linker == "ld" else [])
            res = tools.gcc_link(ctx, linker, a, lib, driver=tools.GXX, timeout=400, extra_env=env if linker == "wild" else None)
            cmds.append(f"g++ -B<{linker}> " + " ".join(os.path.basename(x) if x.startswith("/") else x for x in a) + f" -o {sub}/libexc.so")
            if not res.ok:
                return res, None, lib
        out = tools.fresh(os.path.join(w, "prog"))
        # the library goes right after main so that what it leaves undefined can still pull archive members
        a = [*kargs, *common, inputs[0]] + (["-Wl,--no-as-needed", lib] if lib else []) + inputs[1:] + ([f"-Wl,-Map={w}/exe.map"] if linker == "ld" else [])
        res = tools.gcc_link(ctx, linker, a, out, driver=tools.GXX, timeout=400, extra_env=env if linker == "wild" else None)
        cmds.append(f"g++ -B<{linker}> " + " ".join(os.path.basename(x) if x.startswith("/") else x for x in a) + f" -o {sub}/prog"
                    + ("" if res.ok else f"   # rc={res.rc}"))
        return res, out, lib
    rl, lout, llib = link("ld", "ld")
    if rl.timed_out:
        return ctx.inconclusive("watchdog fired")
    if not rl.ok:
        from vlib import progcheck
        ctx.note("ld-rejected:" + kn + ":" + progcheck.norm_err(rl.errtext()))
        return ctx.inconclusive("reference linker rejected the program")
    rw, wout, wlib = link("wild", "wild")
    if rw.timed_out:
        return ctx.inconclusive("watchdog fired")
    C = Case(ctx, lim, case, f"exception-chain program (depth {g['depth']}, {g['K']} units, {kn})")
    if has_term:
        # wild keeps an input's terminator where it stood (ld and lld drop it); the search table, which is what
        # the statement is about, still covers the records behind it
        C.info_only = ("eh-frame-records-after-terminator",)
    C.files = dict(srcs)
    C.files["c10_helper.c"] = HELPER
    C.files["repro.sh"] = ("# helper: gcc -c -O1 -DC10_TAG='\"exe\"' -DC10_ANCHOR=c10_anchor_exe c10_helper.c (+ -fPIC, tag lib for the library)\n"
                           + "\n".join(steps + cmds) + f"\n# wild env: {env}\n")
    for o in [mainobj] + objs + libobjs:
        C.files["obj/" + os.path.basename(o)] = o
    C.files["wild.stderr"] = rw.errtext()
    if not rw.ok:
        ctx.note("wild-link-failed:" + kn)
        return ctx.inconclusive("wild could not link the program (not an unwind-table question)")
    ld_outs, w_outs, maps = [Linked(lout, "exe")], [Linked(wout, "exe")], {"exe": open(os.path.join(wd, "ld", "exe.map")).read()}
    if kind == "shared":
        ld_outs.append(Linked(llib, "lib"))
        w_outs.append(Linked(wlib, "lib"))
        maps["lib"] = open(os.path.join(wd, "ld", "lib.map")).read()

    def runner(out, sub):
        def go(envx):
            e2 = dict(envx)
            if kind == "shared":
                e2["LD_LIBRARY_PATH"] = os.path.join(wd, sub)
            return run([out], timeout=120, extra_env=e2, cwd=os.path.join(wd, sub))
        return go
    ctx.note("kind:" + kn)
    ctx.note(f"threads:{threads}")
    if any("clang" in s for s in steps):
        ctx.note("programs-with-clang-objects")
    if any(" libx.a" in s for s in steps):
        ctx.note("programs-with-archives")
    if "WILD_VERIF_SCHED" in env:
        ctx.note("perturbed-links")

    # every stdout line of these programs is about unwinding
    class AllKinds:
        def __contains__(self, k):
            return True
    C.judge(ld_outs, w_outs, runner(lout, "ld"), runner(wout, "wild"), maps, wd, kn, eh_lines=AllKinds())


def main(ctx):
    ctx.rule = ("proggen programs (asm + mostly cxx features) and generated C++ exception chains (2-5 units + C cleanup frame + asm "
                "leaf, depth 3-9, catch at every depth, COMDAT templates, gcc/clang objects, archives, shared library) linked with "
                "--gc-sections --eh-frame-hdr in static/static-pie/pie/dyn/shared form; a case counts when GNU ld links and runs it, "
                ">= 8 output FDEs were compared field by field with their input FDE, >= 1 input FDE had to disappear with its "
                "GC'd/COMDAT-discarded function, and libgcc answered >= 8 lookups correctly; distinct = (case, kind, FDE counts)")
    ctx.assumptions = ["the loaded files and input-section placements come from wild's .layout; GNU ld's from its -Map file",
                       "GNU ld 2.40's output of the same inputs calibrates every check class; libgcc's _Unwind_Find_FDE is the consumer",
                       "linker-made FDEs (PLT) are allowed and not required"]
    tools.wild()
    lim = SigLimiter(ctx, 2)
    npg = ctx.pick(12, 150)
    nx = ctx.pick(28, 350)
    jobs = [("prog", i) for i in range(npg)] + [("exc", i) for i in range(nx)]
    if ctx.replay is not None:
        c = str(ctx.replay.get("case"))
        kind, _, idx = c.partition(".")
        jobs = [(kind, int(idx))]
    pmap(lambda j: prog_case(ctx, lim, j[1]) if j[0] == "prog" else exc_case(ctx, lim, j[1]), jobs)
